//! Scripted (non-adaptive) workloads for the checks that enumerate boundaries and cells.

use crate::checks::{connect_with, poll0, pub1, pubq};
use crate::genr::{rand_string, rand_topic};
use crate::refcodec::Prop;
use crate::rng::Rng;
use crate::runner::Tier;
use crate::steps::*;

pub fn str_of(len: usize, r: &mut Rng) -> String {
    // mostly ASCII with an occasional multi-byte character, exactly `len` bytes
    let mut s = String::with_capacity(len);
    while s.len() < len {
        let left = len - s.len();
        if left >= 4 && r.chance(1, 80) {
            s.push('😀');
        } else if left >= 3 && r.chance(1, 40) {
            s.push(*r.pick(&['日', '一']));
        } else if left >= 2 && r.chance(1, 40) {
            s.push(*r.pick(&['ü', 'Ā']));
        } else {
            s.push((b'a' + r.below(26) as u8) as char);
        }
    }
    s
}

const LENS: [usize; 6] = [0, 1, 2, 127, 128, 65535];

fn boundary_prop(r: &mut Rng, ctx: u8) -> Prop {
    // ctx 0 publish/will, 1 subscribe, 2 unsubscribe
    let len = *r.pick(&LENS);
    let small = *r.pick(&[0usize, 1, 5, 127, 128]);
    match (ctx, r.below(8)) {
        (0, 0) => Prop::PayloadFormat(0),
        (0, 1) => Prop::MessageExpiry(*r.pick(&[0u32, 1, u32::MAX])),
        (0, 2) => Prop::ContentType(str_of(len, r)),
        (0, 3) => Prop::ResponseTopic(str_of(len.max(1), r)),
        (0, 4) => Prop::CorrelationData(r.bytes(len)),
        (1, 0..=2) => Prop::SubscriptionId(*r.pick(&[1u32, 127, 128, 16383, 16384, 2_097_151, 2_097_152, 268_435_455])),
        _ => Prop::UserProperty(str_of(small, r), str_of(len, r)),
    }
}

fn dedup_single(props: &mut Vec<Prop>) {
    let mut seen: Vec<u8> = vec![];
    props.retain(|p| {
        let id = p.id();
        if id == 0x26 {
            return true;
        }
        if seen.contains(&id) {
            false
        } else {
            seen.push(id);
            true
        }
    });
}

pub fn c09_script(r: &mut Rng, index: u64, _tier: Tier) -> (CaseCfg, Vec<Step>) {
    let mut cfg = CaseCfg { rx: 256, tx: 4096, keepalive: 0, ..CaseCfg::default() };
    let mut s: Vec<Step> = Vec::new();
    let connect = connect_with(SpMode::Force(false), AckMode::Immediate, vec![]);
    match index % 6 {
        0 => {
            // configuration space of CONNECT
            cfg.client_id = str_of(*r.pick(&[0usize, 1, 23, 63, 64]), r);
            cfg.keepalive = *r.pick(&[0u16, 1, 2, 59, 60, 65534, 65535]);
            cfg.session_expiry = *r.pick(&[0u32, 1, 3600, u32::MAX - 1, u32::MAX]);
            let wi = (index / 6) % 13;
            if wi > 0 {
                let wi = wi - 1;
                let mut props: Vec<Prop> = (0..r.below(5)).map(|_| boundary_prop(r, 0)).collect();
                dedup_single(&mut props);
                for p in props.iter_mut() {
                    // keep the CONNECT within the arena
                    fn cut(s: &mut String, n: usize) {
                        let mut e = n.min(s.len());
                        while !s.is_char_boundary(e) {
                            e -= 1;
                        }
                        s.truncate(e);
                    }
                    match p {
                        Prop::ContentType(s) | Prop::ResponseTopic(s) => cut(s, 200),
                        Prop::CorrelationData(d) => d.truncate(200),
                        Prop::UserProperty(_, v) => cut(v, 200),
                        _ => {}
                    }
                }
                props.retain(|p| match p {
                    Prop::ContentType(s) | Prop::ResponseTopic(s) => s.is_char_boundary(s.len()) && std::str::from_utf8(s.as_bytes()).is_ok(),
                    _ => true,
                });
                // the one property only a will may carry, at either end of the block
                if r.chance(1, 2) {
                    let at = if r.chance(1, 2) { 0 } else { props.len() };
                    props.insert(at, Prop::WillDelay(*r.pick(&[0u32, 1, 30, 65536, u32::MAX])));
                }
                cfg.will = Some(WillSpec {
                    topic: str_of(*r.pick(&[1usize, 2, 64, 127, 128]), r),
                    payload: { let n = *r.pick(&[0usize, 1, 127, 128, 1000]); r.bytes(n) },
                    qos: (wi % 3) as u8,
                    retain: (wi / 3) % 2 == 1,
                    props,
                });
            }
            if (index / 6) % 3 != 0 {
                cfg.auth = Some((str_of(*r.pick(&[0usize, 1, 64, 300]), r), { let n = *r.pick(&[0usize, 1, 64, 300]); r.bytes(n) }));
            }
            cfg.tx = *r.pick(&[64usize, 256, 1024, 8192]);
            // one case in four: the first handshake(s) fail after a CONNACK that reports success but
            // carries something the client refuses; the CONNECT that follows is still the first
            // one of a session that never came to be
            if r.chance(1, 4) {
                for _ in 0..r.range(1, 3) {
                    let bad = match r.below(4) {
                        0 => vec![Prop::ReceiveMaximum(0)],
                        1 => vec![Prop::AssignedClientId(str_of(65 + r.below(40), r))],
                        2 => vec![Prop::MaximumQoS(3)],
                        _ => vec![Prop::ServerKeepAlive(9), Prop::ReceiveMaximum(0)],
                    };
                    s.push(connect_with(SpMode::Force(false), AckMode::Immediate, bad));
                    s.push(Step::DropConn);
                }
            }
            s.push(connect);
            s.push(poll0());
            // a second connection shows the CONNECT of a resumed session as well
            s.push(Step::DropConn);
            s.push(connect_with(SpMode::Force(true), AckMode::Immediate, if r.chance(1, 3) { vec![Prop::ServerKeepAlive(*r.pick(&[0u16, 7, 65535]))] } else { vec![] }));
            s.push(Step::DropConn);
            s.push(connect_with(SpMode::Force(true), AckMode::Immediate, vec![]));
        }
        1 => {
            // PUBLISH sizes on both sides of every remaining-length boundary
            let b = *r.pick(&[127usize, 128, 16383, 16384, 2_097_151, 2_097_152]);
            let rl = (b as i64 + r.range(0, 2) as i64 - 1) as usize;
            let qos = r.below(3) as u8;
            let topic = rand_topic(r, 12);
            let body = 2 + topic.len() + if qos > 0 { 2 } else { 0 } + 1;
            let len = rl.saturating_sub(body);
            cfg.tx = rl + 5 + *r.pick(&[0usize, 1, 8, 4096]);
            s.push(connect);
            s.push(Step::Publish(PubSpec { topic, payload: PayloadSpec::Fill { len, tag: 7, ascii: false }, qos, retain: r.chance(1, 2), props: vec![], correlate: None, cancel_at: None }));
            s.push(poll0());
        }
        2 => {
            // property kinds with boundary lengths, in every request kind
            cfg.tx = 300_000;
            s.push(connect);
            for _ in 0..r.range(1, 3) {
                let mut props: Vec<Prop> = (0..r.below(7)).map(|_| boundary_prop(r, 0)).collect();
                dedup_single(&mut props);
                let correlate = if r.chance(1, 3) {
                    props.retain(|p| !matches!(p, Prop::CorrelationData(_)));
                    Some({ let n = *r.pick(&LENS); r.bytes(n) })
                } else {
                    None
                };
                s.push(Step::Publish(PubSpec { topic: rand_topic(r, 10), payload: PayloadSpec::Fill { len: r.below(20), tag: 3, ascii: false }, qos: r.below(3) as u8, retain: false, props, correlate, cancel_at: None }));
                s.push(poll0());
            }
            let mut sp: Vec<Prop> = (0..r.below(4)).map(|_| boundary_prop(r, 1)).collect();
            dedup_single(&mut sp);
            s.push(Step::Subscribe(SubSpec { filters: vec![FilterSpec { filter: str_of(*r.pick(&[1usize, 127, 128, 65535]), r), max_qos: 1, no_local: false, rap: false, rh: 0 }], props: sp, cancel_at: None }));
            s.push(poll0());
            let up: Vec<Prop> = (0..r.below(3)).map(|_| boundary_prop(r, 2)).collect();
            s.push(Step::Unsubscribe(UnsubSpec { filters: vec![str_of(*r.pick(&[1usize, 128, 65535]), r), "x".into()], props: up, cancel_at: None }));
            s.push(poll0());
            // every property the API lets a client attach to a DISCONNECT, alone and together
            let dp = match r.below(8) {
                0 => None,
                1 => Some(vec![]),
                2 => Some(vec![Prop::ReasonString(str_of(*r.pick(&[0usize, 1, 2, 3]), r))]),
                3 => Some(vec![Prop::ServerReference(str_of(*r.pick(&[0usize, 1, 5]), r))]),
                4 => Some(vec![Prop::SessionExpiry(*r.pick(&[0u32, 1, u32::MAX]))]),
                5 => Some(vec![Prop::ReasonString("bye".into()), Prop::ServerReference("other:1883".into()), Prop::UserProperty("a".into(), "b".into()), Prop::SessionExpiry(0)]),
                6 => Some(vec![Prop::ServerReference("s".into()), Prop::ReasonString("r".into())]),
                _ => Some(vec![Prop::UserProperty("a".into(), "b".into())]),
            };
            s.push(Step::Disconnect(DiscSpec { reason: *r.pick(&[None, Some(0u8), Some(4), Some(0x80), Some(0x98)]), props: dp, cancel_at: None }));
        }
        3 => {
            // every combination of subscription options
            let k = (index / 6) % 36;
            let f = FilterSpec { filter: rand_topic(r, 10), max_qos: (k % 3) as u8, no_local: (k / 3) % 2 == 1, rap: (k / 6) % 2 == 1, rh: ((k / 12) % 3) as u8 };
            let mut filters = vec![f];
            for _ in 0..r.below(3) {
                filters.push(FilterSpec { filter: rand_string(r, 8), max_qos: r.below(3) as u8, no_local: r.chance(1, 2), rap: r.chance(1, 2), rh: r.below(3) as u8 });
            }
            s.push(connect);
            s.push(Step::Subscribe(SubSpec { filters, props: vec![], cancel_at: None }));
            s.push(poll0());
        }
        4 => {
            // transmit arenas from zero to just enough
            let topic = rand_topic(r, 10);
            let len = r.below(40);
            let props: Vec<Prop> = if r.chance(1, 2) { vec![Prop::UserProperty("k".into(), str_of(r.below(10), r))] } else { vec![] };
            let qos = r.below(3) as u8;
            let need = 5 + 2 + topic.len() + 2 + 1 + crate::refcodec::props_encoded_len(&props) + len;
            // CONNECT itself needs ~40 bytes; sizes below that make connect fail, which is fine
            cfg.tx = r.below(need.max(45) + 9);
            cfg.client_id = "c".into();
            s.push(connect);
            match r.below(3) {
                0 => s.push(Step::Publish(PubSpec { topic, payload: PayloadSpec::Fill { len, tag: 9, ascii: false }, qos, retain: false, props, correlate: None, cancel_at: None })),
                1 => s.push(Step::Subscribe(SubSpec { filters: vec![FilterSpec { filter: topic, max_qos: 1, no_local: false, rap: false, rh: 0 }], props: vec![], cancel_at: None })),
                _ => s.push(Step::Unsubscribe(UnsubSpec { filters: vec![topic], props: vec![], cancel_at: None })),
            }
            s.push(poll0());
        }
        _ => {
            // fields that cannot be encoded (longer than 65535 bytes), lying payload closures
            cfg.tx = 300_000;
            let big = str_of(65536 + r.below(3), r);
            let which = r.below(16);
            // fields of the CONNECT itself
            match which {
                10 => cfg.will = Some(WillSpec { topic: "w".into(), payload: vec![5; 65536 + r.below(3)], qos: 1, retain: false, props: vec![] }),
                // (a will topic beyond the documented capacity is refused when the will is built)
                11 => cfg.will = Some(WillSpec { topic: "w".into(), payload: vec![5; 65535], qos: 2, retain: true, props: vec![] }),
                12 => cfg.will = Some(WillSpec { topic: "w".into(), payload: vec![5], qos: 0, retain: false, props: vec![Prop::ContentType(big.clone())] }),
                13 => cfg.auth = Some(("u".into(), vec![6; 65536 + r.below(3)])),
                14 => cfg.auth = Some((big.clone(), vec![6])),
                _ => {}
            }
            if which >= 10 && which <= 14 {
                cfg.rx = 300_000;
            }
            s.push(connect);
            let small = |r: &mut Rng| r.below(3) as u8;
            match which {
                6 => s.push(Step::Unsubscribe(UnsubSpec { filters: vec![big], props: vec![], cancel_at: None })),
                7 => s.push(Step::Unsubscribe(UnsubSpec { filters: vec!["a".into(), big, "b".into()], props: vec![], cancel_at: None })),
                8 => s.push(Step::Publish(PubSpec { topic: "t".into(), payload: PayloadSpec::Fill { len: 3, tag: 1, ascii: false }, qos: small(r), retain: false, props: vec![if r.chance(1, 2) { Prop::UserProperty(big, "v".into()) } else { Prop::UserProperty("k".into(), big) }], correlate: None, cancel_at: None })),
                9 => s.push(Step::Disconnect(DiscSpec { reason: Some(0), props: Some(vec![if r.chance(1, 2) { Prop::ReasonString(big) } else { Prop::UserProperty("k".into(), big) }]), cancel_at: None })),
                15 => s.push(Step::Publish(PubSpec { topic: "t".into(), payload: PayloadSpec::Fill { len: 3, tag: 1, ascii: false }, qos: small(r), retain: false, props: vec![if r.chance(1, 2) { Prop::ResponseTopic(big) } else { Prop::CorrelationData(vec![8; 65536]) }], correlate: None, cancel_at: None })),
                10..=14 => {}
                _ => match r.below(6) {
                0 => s.push(Step::Publish(PubSpec { topic: big, payload: PayloadSpec::Fill { len: 3, tag: 1, ascii: false }, qos: r.below(3) as u8, retain: false, props: vec![], correlate: None, cancel_at: None })),
                1 => s.push(Step::Publish(PubSpec { topic: "t".into(), payload: PayloadSpec::Fill { len: 3, tag: 1, ascii: false }, qos: r.below(3) as u8, retain: false, props: vec![Prop::ContentType(big)], correlate: None, cancel_at: None })),
                2 => s.push(Step::Publish(PubSpec { topic: "t".into(), payload: PayloadSpec::Fill { len: 3, tag: 1, ascii: false }, qos: r.below(3) as u8, retain: false, props: vec![], correlate: Some(vec![7; 65536]), cancel_at: None })),
                3 => s.push(Step::Subscribe(SubSpec { filters: vec![FilterSpec { filter: big, max_qos: 0, no_local: false, rap: false, rh: 0 }], props: vec![], cancel_at: None })),
                4 => s.push(Step::Publish(PubSpec { topic: "t".into(), payload: PayloadSpec::Lie { claim: 300_001 + r.below(1000) }, qos: r.below(3) as u8, retain: false, props: vec![], correlate: None, cancel_at: None })),
                _ => s.push(Step::Publish(PubSpec { topic: "t".into(), payload: PayloadSpec::Fail, qos: r.below(3) as u8, retain: false, props: vec![], correlate: None, cancel_at: None })),
                },
            }
            s.push(poll0());
            // the session stays usable
            s.push(Step::Publish(PubSpec { topic: "after".into(), payload: PayloadSpec::Fill { len: 8, tag: 2, ascii: false }, qos: 1, retain: false, props: vec![], correlate: None, cancel_at: None }));
            s.push(poll0());
        }
    }
    (cfg, s)
}

/// C10 workload: the application sits in poll() all the time; packets, PINGRESPs and
/// application publishes are placed at chosen instants around the keep-alive deadlines.
pub fn c10_script(r: &mut Rng, _index: u64, _tier: Tier) -> (CaseCfg, Vec<Step>) {
    use crate::refcodec::SPacket;
    let ka = *r.pick(&[0u16, 1, 2, 3, 9, 10, 11, 60, 65535]);
    let over: Option<u16> = *r.pick(&[None, None, None, Some(0u16), Some(1), Some(5), Some(30), Some(65535)]);
    let cfg = CaseCfg { rx: 128, tx: 512, keepalive: ka, ..CaseCfg::default() };
    let eff = over.unwrap_or(ka) as u64 * 1_000_000;
    let lead = 5_000_000u64.min(eff / 2);
    let interval = eff.saturating_sub(lead);
    let ping = match r.below(8) {
        0 | 1 | 2 => AckMode::Immediate,
        3 => AckMode::Never,
        4 => AckMode::Delay(*r.pick(&[4_999_999u64, 5_000_000, 5_000_001])),
        5 => AckMode::Delay(1 + r.below(4_000_000) as u64),
        6 => AckMode::Delay(if eff > 2 { eff / 2 + r.below(3) as u64 - 1 } else { 1 }),
        _ => AckMode::Delay(*r.pick(&[1u64, 1000, 2_500_000, 6_000_000])),
    };
    let mut props = vec![];
    if let Some(o) = over {
        props.push(Prop::ServerKeepAlive(o));
    }
    // one case in four: the broker limits the packet size, so some publishes are refused locally
    // (a refused request is not a client packet and must not postpone the PINGREQ)
    let small_mps = r.chance(1, 4);
    let tiny_mps = !small_mps && r.chance(1, 8);
    if small_mps {
        props.push(Prop::MaximumPacketSize(24));
    } else if tiny_mps {
        // only the smallest packets fit: a PINGREQ (two bytes) always does
        props.push(Prop::MaximumPacketSize(*r.pick(&[2u32, 3, 4, 8])));
    } else if r.chance(1, 5) {
        // a limit that restricts nothing (its low 16 bits are 0 or 1)
        props.push(Prop::MaximumPacketSize(*r.pick(&[65_536u32, 65_537, 1 << 20, 1 << 24])));
    }
    let mut s = vec![];
    // one case in four: an earlier connection whose CONNACK carried some other Server Keep Alive
    if r.chance(1, 4) {
        let prior = *r.pick(&[0u16, 1, 7, 600, 65535]);
        s.push(Step::Connect(ConnectSpec {
            policy: IoPolicy::default(),
            faults: vec![],
            connack: ConnackSpec::Normal { sp: SpMode::Force(false), reason: 0, props: vec![Prop::ServerKeepAlive(prior)] },
            broker: BrokerPolicy { acks: AckMode::Immediate, ping: AckMode::Immediate, fail_pct: 0, longform_pct: 0 },
            cancel_at: None,
        }));
        // one of those in three ends while its own PINGREQ is queued and not yet written (the
        // transport pends, the waiting poll() is given up): a PINGREQ belongs to the connection
        // that owed it, whatever keep-alive the next connection has
        if prior > 0 && r.chance(1, 3) {
            if let Some(Step::Connect(c)) = s.last_mut() {
                c.policy = IoPolicy { pend_write: Pend::Always, ..IoPolicy::default() };
            }
            let pe = prior as u64 * 1_000_000;
            s.push(Step::Poll { max_wait: pe - 5_000_000u64.min(pe / 2) + 1, cancel_at: Some(2) });
        } else {
            s.push(Step::Poll { max_wait: 1 + r.below(3_000_000) as u64, cancel_at: None });
        }
        s.push(match r.below(3) {
            0 => Step::DropConn,
            1 => Step::Disconnect(DiscSpec { reason: None, props: None, cancel_at: None }),
            _ => Step::Broker(BrokerAct::Close),
        });
        s.push(Step::Poll { max_wait: 1, cancel_at: None });
        s.push(Step::DropConn);
    }
    // one case in five: a slow transport takes the client's packets one byte at a time and is busy
    // for a while in between (the PINGREQ then completes well after the client decided to send it)
    let policy = if r.chance(1, 5) { IoPolicy { write: Chunk::One, slow_write_us: *r.pick(&[1_000_000u64, 3_000_000, 4_900_000]), ..IoPolicy::default() } } else { IoPolicy::default() };
    s.push(Step::Connect(ConnectSpec {
        policy,
        faults: vec![],
        connack: ConnackSpec::Normal { sp: SpMode::Force(r.chance(1, 2) && !s.is_empty()), reason: 0, props },
        // one case in four: the broker withholds its acknowledgements, so that publishes stay
        // unresolved (and QoS 2 exchanges stay between PUBREC and PUBCOMP) across the ping instants
        broker: BrokerPolicy { acks: if r.chance(1, 4) { AckMode::Hold } else { AckMode::Immediate }, ping, fail_pct: 0, longform_pct: 0 },
        cancel_at: None,
    }));
    let withheld = matches!(s.last(), Some(Step::Connect(c)) if c.broker.acks == AckMode::Hold);
    // one case in six: a sluggish executor polls the task that arriving data woke only a while
    // later (the PINGRESP is there in time, the client looks at it late)
    if r.chance(1, 6) {
        s.push(Step::Broker(BrokerAct::WakeDelay(*r.pick(&[1_000u64, 1_000_000, 4_000_000, 4_999_999, 5_000_000, 7_000_000]))));
    }
    // one case in three: timers fire a little late (1 us or 1 ms), as they do on every real
    // executor; the client's own slack (at least half a second) has to absorb that
    if r.chance(1, 3) {
        s.push(Step::Broker(BrokerAct::TimerLatency(*r.pick(&[1u64, 1_000]))));
    }
    // one case in four: the application waits in recv() instead of poll()
    let use_recv = r.chance(1, 4);
    let base = if eff == 0 { 10_000_000 } else { eff.min(100_000_000) };
    // one case in six: the poll that writes the PINGREQ is given up after the first of its two
    // bytes (transport that pends before every write and takes one byte at a time), the
    // application comes back a little later
    // (... or after both bytes, while the flush is pending)
    if eff > 0 && r.chance(1, 4) {
        if let Some(Step::Connect(c)) = s.last_mut() {
            c.policy = IoPolicy { write: Chunk::One, pend_write: Pend::Always, pend_flush: Pend::Always, ..IoPolicy::default() };
        }
        s.push(Step::Poll { max_wait: interval + 1, cancel_at: Some(r.range(2, 4)) });
        s.push(Step::Advance(*r.pick(&[1u64, 1_000_000, 3_000_000, 4_000_000])));
    }
    // one case in eight: the transmit arena is full to within a few bytes (one big publish the
    // broker does not acknowledge) and the application tries to disconnect with properties: the
    // DISCONNECT finds no room, the call says so, the connection stays up - and stays kept alive
    if eff > 0 && !small_mps && !tiny_mps && r.chance(1, 8) {
        s.push(Step::Broker(BrokerAct::Policy(BrokerPolicy { acks: AckMode::Hold, ping, fail_pct: 0, longform_pct: 0 })));
        let leave = r.below(6);
        // PUBLISH "k": 1 + 2 (remaining length) + 2 + 1 + 2 + 1 + payload
        s.push(Step::Publish(PubSpec { topic: "k".into(), payload: PayloadSpec::Fill { len: cfg.tx - leave - 9, tag: 0xF11, ascii: false }, qos: 1, retain: false, props: vec![], correlate: None, cancel_at: None }));
        s.push(Step::Disconnect(DiscSpec { reason: Some(0), props: Some(vec![Prop::ReasonString("bye for now".into())]), cancel_at: None }));
    }
    // one case in five: the broker's QoS 1/2 PUBLISH is handed to the application (its
    // acknowledgement is owed and still queued), and the application only comes back when the
    // keep-alive probe is due as well: acknowledgement and PINGREQ go out in one pass, and the
    // keep-alive goes on from there
    if eff > 0 && !tiny_mps && r.chance(1, 4) {
        // (half of those: it comes back with a request, not a wait; the transport takes one byte
        // per write and pauses for seconds after the first byte of that call - which belongs to
        // the owed acknowledgement -; the PINGREQ follows in the same call and the broker answers
        // it late, but inside the five seconds that count from when the PINGREQ went out)
        let via_request = r.chance(1, 2);
        if via_request {
            let stall = *r.pick(&[2_500_000u64, 4_000_000]);
            s.push(Step::Io { policy: Some(IoPolicy { write: Chunk::One, slow_write_us: stall, ..IoPolicy::default() }), faults: vec![] });
            let late = *r.pick(&[5_000_000 - stall + 300_000, 4_000_000u64.max(5_000_000 - stall + 300_000), 4_900_000]);
            s.push(Step::Broker(BrokerAct::Policy(BrokerPolicy { acks: AckMode::Immediate, ping: AckMode::Delay(late), fail_pct: 0, longform_pct: 0 })));
        }
        let q = 1 + r.below(2) as u8;
        s.push(Step::Broker(BrokerAct::Send(SPacket::Publish { dup: false, qos: q, retain: false, topic: "in/owed".into(), pid: Some(700), props: vec![], payload: vec![7] })));
        s.push(if use_recv { Step::Recv { max_wait: 1000, cancel_at: None } } else { Step::Poll { max_wait: 1000, cancel_at: None } });
        s.push(Step::Advance(interval.saturating_sub(1000) + *r.pick(&[0u64, 1, 1000, 500_000])));
        if via_request {
            s.push(match r.below(3) {
                0 => Step::Subscribe(SubSpec { filters: vec![FilterSpec { filter: "k/d".into(), max_qos: 0, no_local: false, rap: false, rh: 0 }], props: vec![], cancel_at: None }),
                _ => pubq(1, "k/d", 0xD7A, 1),
            });
            s.push(Step::Poll { max_wait: 6_000_000, cancel_at: None });
        }
    }
    for i in 0..r.range(4, 10) {
        let wait = match r.below(9) {
            0 => interval.saturating_sub(1),
            1 => interval,
            2 => interval + 1,
            3 => eff,
            4 => eff + 1,
            5 => 3 * base,
            6 => 1 + r.below(base as usize) as u64,
            7 => 20_000_000,
            _ => 1 + r.below(2 * base as usize + 10) as u64,
        };
        s.push(if use_recv { Step::Recv { max_wait: wait.max(1), cancel_at: None } } else { Step::Poll { max_wait: wait.max(1), cancel_at: None } });
        let len = if small_mps && r.chance(2, 3) { 40 } else { 2 };
        match r.below(6) {
            0 => s.push(Step::Publish(PubSpec { topic: "k".into(), payload: PayloadSpec::Fill { len, tag: i as u32, ascii: false }, qos: 0, retain: false, props: vec![], correlate: None, cancel_at: None })),
            1 if withheld && i % 2 == 1 => {
                // a QoS 2 publish whose PUBREC arrives and whose PUBCOMP does not
                s.push(Step::Publish(PubSpec { topic: "k".into(), payload: PayloadSpec::Fill { len, tag: i as u32, ascii: false }, qos: 2, retain: false, props: vec![], correlate: None, cancel_at: None }));
                s.push(Step::Broker(BrokerAct::Release { n: 1, order: Order::Fifo }));
            }
            1 => s.push(Step::Publish(PubSpec { topic: "k".into(), payload: PayloadSpec::Fill { len, tag: i as u32, ascii: false }, qos: 1, retain: false, props: vec![], correlate: None, cancel_at: None })),
            4 if small_mps => s.push(Step::Publish(PubSpec { topic: "k".into(), payload: PayloadSpec::Fill { len: 40, tag: i as u32, ascii: false }, qos: 0, retain: false, props: vec![], correlate: None, cancel_at: None })),
            2 => {
                // now and then the network delivers only the first bytes of it for a while: the
                // waits that follow begin in the middle of an inbound packet
                if r.chance(1, 3) {
                    s.push(Step::Broker(BrokerAct::Gate { after: 1 + r.below(5), blocks: *r.pick(&[1u8, 2, 4]) }));
                }
                s.push(Step::Broker(BrokerAct::Send(SPacket::Publish { dup: false, qos: 0, retain: false, topic: "in".into(), pid: None, props: vec![], payload: vec![1] })));
            }
            3 => s.push(Step::Broker(BrokerAct::Send(SPacket::Publish { dup: false, qos: 1, retain: false, topic: "in".into(), pid: Some(1 + i as u16), props: vec![], payload: vec![1] }))),
            _ => {}
        }
    }
    // one case in eight: the transport fails the flush of the client's first .. fourth packet
    // after the CONNECT (a PINGREQ, a request, an acknowledgement); the application goes on
    // waiting on the handle for as long as it says it is connected
    if r.chance(1, 8) {
        let at = FaultAt::Flush(1 + r.below(4));
        let kind = FaultKind::Error(*r.pick(&[ErrKind::BrokenPipe, ErrKind::ConnectionReset, ErrKind::TimedOut]));
        if let Some(Step::Connect(c)) = s.iter_mut().rev().find(|x| matches!(x, Step::Connect(_))) {
            c.faults.push(FaultPlan { at, kind });
        }
        s.push(if use_recv { Step::Recv { max_wait: 3 * base + 6_000_000, cancel_at: None } } else { Step::Poll { max_wait: 3 * base + 6_000_000, cancel_at: None } });
    }
    s.push(if use_recv { Step::Recv { max_wait: 3 * base + 6_000_000, cancel_at: None } } else { Step::Poll { max_wait: 3 * base + 6_000_000, cancel_at: None } });
    s.push(Step::Poll { max_wait: 1, cancel_at: None });
    (cfg, s)
}


/// C14 workload: the client owes the broker a packet while the connection's Maximum Packet Size
/// is tiny (2..8 bytes), on a fresh or on a resumed connection.
pub fn c14_script(r: &mut Rng, _index: u64, _tier: Tier) -> (CaseCfg, Vec<Step>) {
    use crate::refcodec::SPacket;
    let mut cfg = CaseCfg { rx: 128, tx: 512, keepalive: 0, ..CaseCfg::default() };
    let mps = 2 + r.below(7) as u32;
    let tiny = vec![Prop::MaximumPacketSize(mps)];
    let pid = *r.pick(&[1u16, 7, 255, 256, 65535]);
    let publish = |qos: u8, dup: bool| Step::Broker(BrokerAct::Send(SPacket::Publish { dup, qos, retain: false, topic: "m".into(), pid: Some(pid), props: vec![], payload: vec![9, 9] }));
    let mut s = vec![];
    match r.below(11) {
        // a disconnect_with() is given up before (or after a few bytes of) its DISCONNECT went
        // out and the handle is dropped; the next connection's CONNACK announces a Maximum Packet
        // Size below that DISCONNECT: nothing of it may follow the session there
        10 => {
            let policy = IoPolicy { write: *r.pick(&[Chunk::All, Chunk::One]), pend_write: Pend::Always, ..IoPolicy::default() };
            s.push(Step::Connect(ConnectSpec { policy, faults: vec![], connack: ConnackSpec::ok(SpMode::Force(false)), broker: BrokerPolicy { acks: AckMode::Hold, ping: AckMode::Immediate, fail_pct: 0, longform_pct: 0 }, cancel_at: None }));
            if r.chance(1, 2) {
                s.push(pubq(1, "m", 0x2D0, 1));
            }
            let props = if r.chance(2, 3) { Some(vec![Prop::ReasonString("parked and left behind".into())]) } else { None };
            s.push(Step::Disconnect(DiscSpec { reason: Some(*r.pick(&[0u8, 4, 0x98])), props, cancel_at: Some(r.range(1, 3)) }));
            s.push(match r.below(3) {
                0 => Step::ForgetConn,
                _ => Step::DropConn,
            });
            s.push(connect_with(if r.chance(3, 4) { SpMode::Force(true) } else { SpMode::Force(false) }, AckMode::Immediate, vec![Prop::MaximumPacketSize(*r.pick(&[2u32, 3, 8, 12, 20]))]));
            s.push(poll0());
            s.push(pubq(1, "m", 0x2D1, 0));
            s.push(poll0());
        }
        // the transport answers one write of a queued packet with Ok(0) (the call reports it, the
        // handle stays up); the limit of this connection's CONNACK goes on applying to whatever
        // the application asks for next on it
        9 => {
            let limit = *r.pick(&[20u32, 24, 40, 100]);
            let mut props = vec![Prop::MaximumPacketSize(limit)];
            if r.chance(1, 2) {
                props.push(Prop::MaximumQoS(*r.pick(&[0u8, 1])));
            }
            s.push(connect_with(SpMode::Force(false), AckMode::Immediate, props));
            if r.chance(1, 2) {
                s.push(publish(1, false));
            }
            s.push(Step::Io { policy: None, faults: vec![FaultPlan { at: FaultAt::OutBytes(0), kind: FaultKind::WriteZero }] });
            s.push(match r.below(3) {
                0 => pubq(1, "z", 0x2E0, 2),
                1 => Step::Subscribe(SubSpec { filters: vec![FilterSpec { filter: "z".into(), max_qos: 1, no_local: false, rap: false, rh: 0 }], props: vec![], cancel_at: None }),
                _ => poll0(),
            });
            for k in 0..3u32 {
                s.push(match r.below(4) {
                    0 => pubq(1 + r.below(2) as u8, "over/the/limit", 0x2E1 + k, limit as usize + r.below(30)),
                    1 => pubq(0, "over/the/limit", 0x2E5 + k, limit as usize + r.below(30)),
                    2 => Step::Subscribe(SubSpec { filters: vec![FilterSpec { filter: "o".repeat(limit as usize + r.below(9)), max_qos: 1, no_local: false, rap: false, rh: 0 }], props: vec![], cancel_at: None }),
                    _ => Step::Unsubscribe(UnsubSpec { filters: vec!["u".repeat(limit as usize + r.below(9))], props: vec![], cancel_at: None }),
                });
                s.push(poll0());
            }
        }
        // limits on both sides of 64 KiB with requests just below, at and above them (a transmit
        // arena large enough to hold such requests): the comparison must not be made in 16 bits
        8 => {
            cfg.tx = 300_000;
            let limit = *r.pick(&[65_534u32, 65_535, 65_536, 65_537, 70_000, 100_000, 131_072]);
            s.push(connect_with(SpMode::Force(false), AckMode::Immediate, vec![Prop::MaximumPacketSize(limit)]));
            for k in 0..4u32 {
                // PUBLISH "b": 1 + remaining-length bytes (3) + 2 + 1 (topic) + 2 (identifier, QoS > 0) + 1 (property length) + payload
                let qos = r.below(3) as u8;
                let overhead = 1 + 3 + 3 + if qos > 0 { 2 } else { 0 } + 1;
                let total = (limit as i64 + *r.pick(&[-3i64, -1, 0, 1, 2, 70, 40_000, 140_000])).max(overhead as i64 + 1) as usize;
                s.push(pubq(qos, "b", 0xB16 + k, total - overhead));
                s.push(poll0());
            }
            if r.chance(1, 2) {
                // ... and a SUBSCRIBE whose single filter makes it that long (filters are at most 65535 bytes)
                let flen = (limit as usize).saturating_sub(*r.pick(&[9usize, 10, 11, 12])).min(65_535);
                s.push(Step::Subscribe(SubSpec { filters: vec![FilterSpec { filter: "f".repeat(flen), max_qos: 1, no_local: false, rap: false, rh: 0 }, FilterSpec { filter: "g".repeat(*r.pick(&[1usize, 30_000])), max_qos: 0, no_local: false, rap: false, rh: 0 }], props: vec![], cancel_at: None }));
            }
        }
        // a receive buffer shorter than a fixed header: whatever arrives ends the connection with
        // an error (the handshake cannot succeed), it never overruns the buffer
        7 => {
            cfg.rx = r.below(5);
            let mut props = vec![];
            if r.chance(1, 2) {
                // a CONNACK long enough for a two-byte remaining length
                props.push(Prop::ReasonString("r".repeat(130)));
            }
            s.push(connect_with(SpMode::Force(false), AckMode::Immediate, props));
            s.push(Step::DropConn);
            s.push(connect_with(SpMode::Force(false), AckMode::Immediate, vec![]));
        }
        // the client's own limit: receive buffers on both sides of 64 KiB are advertised exactly
        6 => {
            cfg.rx = *r.pick(&[64usize, 100, 128, 65_535, 65_536, 65_537, 70_000, 131_072]);
            s.push(connect_with(SpMode::Force(false), AckMode::Immediate, vec![]));
            // a PUBLISH that fills the receive buffer exactly, or misses that by a byte or two
            {
                let total = cfg.rx - *r.pick(&[0usize, 0, 1, 2]);
                let rlb = if total >= 16_384 + 4 { 3 } else if total >= 128 + 3 { 2 } else { 1 };
                let overhead = 1 + rlb + 2 + 3 + 1;
                s.push(Step::Broker(BrokerAct::Send(SPacket::Publish { dup: false, qos: 0, retain: false, topic: "fit".into(), pid: None, props: vec![], payload: vec![5; total - overhead] })));
                s.push(poll0());
                s.push(poll0());
            }
            s.push(Step::Broker(BrokerAct::Send(SPacket::Publish { dup: false, qos: 0, retain: false, topic: "big".into(), pid: None, props: vec![], payload: vec![7; *r.pick(&[10usize, 65_000])] })));
        }
        // first delivery of a QoS 1 / QoS 2 publish under the tiny limit
        0 => {
            s.push(connect_with(SpMode::Force(false), AckMode::Immediate, tiny));
            s.push(publish(1, false));
        }
        1 => {
            s.push(connect_with(SpMode::Force(false), AckMode::Immediate, tiny));
            s.push(publish(2, false));
        }
        // an inbound QoS 2 exchange left open by the previous connection (delivered, PUBREC
        // never written), redelivered on a resumed / fresh connection with the tiny limit
        2 | 3 => {
            s.push(connect_with(SpMode::Force(false), AckMode::Immediate, vec![]));
            s.push(publish(2, false));
            s.push(poll0());
            if r.chance(1, 2) {
                // PUBREC written as well: the broker's PUBREL was lost with the connection
                s.push(Step::Broker(BrokerAct::Policy(BrokerPolicy { acks: AckMode::Never, ping: AckMode::Immediate, fail_pct: 0, longform_pct: 0 })));
                s.push(poll0());
            }
            s.push(Step::DropConn);
            s.push(connect_with(SpMode::Force(r.chance(3, 4)), AckMode::Immediate, tiny));
            s.push(publish(2, true));
        }
        // PUBREL from the broker for an open inbound exchange: the PUBCOMP is owed
        4 => {
            s.push(connect_with(SpMode::Force(false), AckMode::Never, vec![]));
            s.push(publish(2, false));
            s.push(poll0());
            s.push(poll0());
            s.push(Step::DropConn);
            s.push(connect_with(SpMode::Force(true), AckMode::Immediate, tiny));
            s.push(Step::Broker(BrokerAct::Send(SPacket::PubRel { pid, reason: None, props: None })));
        }
        // outbound QoS 2 exchange whose PUBREC arrives under the tiny limit: the PUBREL is owed
        _ => {
            s.push(connect_with(SpMode::Force(false), AckMode::Hold, vec![]));
            s.push(pubq(2, "o", 1, 0));
            s.push(Step::DropConn);
            s.push(Step::SetNextPid(2));
            s.push(connect_with(SpMode::Force(true), AckMode::Immediate, vec![Prop::MaximumPacketSize(mps.max(14))]));
            s.push(poll0());
            s.push(poll0());
            s.push(Step::DropConn);
            s.push(connect_with(SpMode::Force(true), AckMode::Immediate, tiny));
        }
    }
    for _ in 0..4 {
        s.push(poll0());
    }
    // whatever happened, further calls must agree with the handle's state
    s.push(pub1("after", 2, 0));
    s.push(poll0());
    (cfg, s)
}


/// Eight QoS 2 exchanges wait for PUBCOMP (all local slots used) under a broker window that is
/// larger than that; further requests must be refused; afterwards the identifier counter is
/// placed right on the identifiers just used.
pub fn saturation_script(r: &mut Rng, _index: u64, _tier: Tier) -> (CaseCfg, Vec<Step>) {
    let cfg = CaseCfg { rx: 128, tx: 2048, keepalive: 0, ..CaseCfg::default() };
    let mut props = vec![];
    if let Some(rm) = *r.pick(&[None, None, Some(9u16), Some(20), Some(8), Some(65535)]) {
        props.push(Prop::ReceiveMaximum(rm));
    }
    let mut s = vec![connect_with(SpMode::Force(false), AckMode::Hold, props.clone())];
    let n2 = *r.pick(&[8usize, 8, 7]);
    for k in 0..n2 {
        s.push(pubq(2, "sat", k as u32 + 1, 2));
    }
    for _ in n2..8 {
        s.push(pub1("sat1", 30, 2));
    }
    // PUBRECs arrive, PUBRELs go out, PUBCOMPs are withheld
    s.push(Step::Broker(BrokerAct::Release { n: 99, order: Order::Fifo }));
    for _ in 0..20 {
        s.push(poll0());
    }
    // more requests than the local window holds
    for k in 0..r.range(1, 4) {
        s.push(match r.below(3) {
            0 => pub1("over1", 40 + k as u32, 1),
            _ => pubq(2, "over2", 40 + k as u32, 1),
        });
        // whatever the broker owes for it arrives at once
        s.push(Step::Broker(BrokerAct::Release { n: 1, order: Order::Lifo }));
        s.push(poll0());
        s.push(poll0());
    }
    // half of the time the broker's own PUBLISH is handed to the application right before the
    // connection goes: its acknowledgement is owed and unwritten, and travels to the next
    // connection together with everything else
    let owed_ack = r.chance(1, 2);
    if owed_ack {
        s.push(Step::Broker(BrokerAct::Send(crate::refcodec::SPacket::Publish { dup: false, qos: 1 + r.below(2) as u8, retain: false, topic: "sat/in".into(), pid: Some(77), props: vec![], payload: vec![1] })));
        s.push(poll0());
    }
    if owed_ack || r.chance(1, 2) {
        // a new connection of the same session with the counter back on the identifiers in use
        s.push(Step::DropConn);
        s.push(Step::SetNextPid(*r.pick(&[8u16, 9, 10])));
        s.push(connect_with(SpMode::Force(true), AckMode::Hold, props));
        s.push(poll0());
        s.push(Step::Subscribe(SubSpec { filters: vec![FilterSpec { filter: "sat/#".into(), max_qos: 0, no_local: false, rap: false, rh: 0 }], props: vec![], cancel_at: None }));
        s.push(Step::Unsubscribe(UnsubSpec { filters: vec!["sat".into()], props: vec![], cancel_at: None }));
        s.push(poll0());
    }
    s.push(Step::Broker(BrokerAct::Release { n: 99, order: Order::Fifo }));
    for _ in 0..24 {
        s.push(poll0());
    }
    (cfg, s)
}


/// C04 workload: the inbound QoS 2 table is (nearly) full when the connection is lost before the
/// last PUBREC went out; the broker redelivers that PUBLISH on the next connection.
pub fn c04_script(r: &mut Rng, index: u64, _tier: Tier) -> (CaseCfg, Vec<Step>) {
    use crate::refcodec::SPacket;
    if index % 3 == 2 {
        // an acknowledgement and a keep-alive PINGREQ are owed together; the transport takes the
        // acknowledgement (flushed) and the connection ends somewhere in the PINGREQ; the session
        // resumes: the acknowledgement that went out must not be repeated
        let cfg = CaseCfg { rx: 128, tx: 512, keepalive: *r.pick(&[1u16, 2, 10]), ..CaseCfg::default() };
        let eff = cfg.keepalive as u64 * 1_000_000;
        let qos = 1 + r.below(2) as u8;
        let pid = *r.pick(&[1u16, 9, 65535]);
        let mut s = vec![connect_with(SpMode::Force(false), AckMode::Hold, vec![])];
        if let Some(Step::Connect(c)) = s.last_mut() {
            c.broker.ping = AckMode::Never;
        }
        s.push(Step::Broker(BrokerAct::Send(SPacket::Publish { dup: false, qos, retain: false, topic: "in".into(), pid: Some(pid), props: vec![], payload: vec![1, 2] })));
        // handed to the application; its acknowledgement is queued, not yet written
        s.push(Step::Recv { max_wait: 0, cancel_at: None });
        // the application is busy until the PINGREQ is due as well
        s.push(Step::Advance(eff - 5_000_000u64.min(eff / 2) + 1));
        // the acknowledgement (4 or 5 bytes incl. a reason byte) passes, the PINGREQ does not
        let cut = *r.pick(&[0usize, 1]);
        s.push(Step::Broker(BrokerAct::WriteGate { after: 4 + cut, blocks: 1 }));
        s.push(Step::Poll { max_wait: 1, cancel_at: None });
        s.push(if r.chance(1, 2) { Step::DropConn } else { Step::ForgetConn });
        s.push(connect_with(SpMode::Force(true), AckMode::Hold, vec![]));
        for _ in 0..3 {
            s.push(poll0());
        }
        return (cfg, s);
    }
    if index % 12 == 7 {
        // an earlier connection of the session had a broker with a tiny Maximum Packet Size (or
        // other restrictions); the current CONNACK announces none: inbound QoS 1 / QoS 2 traffic
        // is delivered and acknowledged as on any connection
        let cfg = CaseCfg { rx: 128, tx: 512, keepalive: 0, ..CaseCfg::default() };
        let mut props = vec![Prop::MaximumPacketSize(*r.pick(&[1u32, 2, 3, 4, 6])), Prop::ReceiveMaximum(1), Prop::MaximumQoS(0)];
        r.shuffle(&mut props);
        props.truncate(1 + r.below(3));
        let tiny = props.iter().any(|p| matches!(p, Prop::MaximumPacketSize(m) if *m < 5));
        let mut s = vec![connect_with(SpMode::Force(false), AckMode::Hold, props)];
        s.push(poll0());
        let pid = *r.pick(&[1u16, 9, 65535]);
        // half of the time a QoS 1 / QoS 2 PUBLISH arrives already on the restricted connection:
        // under a limit below 5 bytes its acknowledgement cannot be sent and the connection ends
        // with the message neither delivered nor acknowledged; the broker sends it again (DUP)
        // on the next connection, where it is delivered like any first delivery
        let early = r.chance(1, 2);
        let early_qos = 1 + r.below(2) as u8;
        if early {
            s.push(Step::Broker(BrokerAct::Send(SPacket::Publish { dup: false, qos: early_qos, retain: false, topic: "early".into(), pid: Some(pid.wrapping_add(7).max(1)), props: vec![], payload: vec![7, 7] })));
            s.push(poll0());
            s.push(poll0());
        }
        s.push(match r.below(3) {
            0 => Step::DropConn,
            1 => Step::Disconnect(DiscSpec { reason: None, props: None, cancel_at: None }),
            _ => Step::Broker(BrokerAct::Close),
        });
        s.push(poll0());
        s.push(Step::DropConn);
        let resumed = r.chance(1, 2) || (early && tiny);
        s.push(connect_with(SpMode::Force(resumed), AckMode::Hold, vec![]));
        if early && tiny && resumed {
            s.push(Step::Broker(BrokerAct::Send(SPacket::Publish { dup: true, qos: early_qos, retain: false, topic: "early".into(), pid: Some(pid.wrapping_add(7).max(1)), props: vec![], payload: vec![7, 7] })));
            s.push(poll0());
            s.push(poll0());
        }
        for k in 0..3u16 {
            let qos = 1 + r.below(2) as u8;
            let id = pid.wrapping_add(k).max(1);
            s.push(Step::Broker(BrokerAct::Send(SPacket::Publish { dup: false, qos, retain: false, topic: "in".into(), pid: Some(id), props: vec![], payload: vec![k as u8; 3] })));
            s.push(poll0());
            s.push(poll0());
            if qos == 2 {
                s.push(Step::Broker(BrokerAct::Send(SPacket::PubRel { pid: id, reason: None, props: None })));
                s.push(poll0());
                s.push(poll0());
            }
        }
        return (cfg, s);
    }
    if index % 12 == 1 {
        // an inbound PUBLISH on either side of the three-byte / four-byte remaining-length boundary
        // (2 MiB), in a receive buffer that holds it: delivered verbatim and acknowledged
        let rl = *r.pick(&[2_097_151usize, 2_097_152, 2_097_153]);
        let cfg = CaseCfg { rx: rl + 5 + *r.pick(&[0usize, 1, 64]), tx: 512, keepalive: 0, ..CaseCfg::default() };
        let qos = 1 + r.below(2) as u8;
        let mut s = vec![connect_with(SpMode::Force(false), AckMode::Immediate, vec![])];
        s.push(Step::Broker(BrokerAct::Send(SPacket::Publish { dup: false, qos, retain: false, topic: "big".into(), pid: Some(7), props: vec![], payload: (0..rl - 8).map(|i| (i % 251) as u8).collect() })));
        for _ in 0..4 {
            s.push(poll0());
        }
        return (cfg, s);
    }
    if index % 6 == 4 {
        // more inbound QoS 2 exchanges open at once than the client's table holds: what lies within
        // the window the client itself advertised in its CONNECT is surfaced, the rest refused
        let cfg = CaseCfg { rx: 128, tx: 512, keepalive: 0, ..CaseCfg::default() };
        let mut s = vec![connect_with(SpMode::Force(false), AckMode::Hold, vec![])];
        let base = *r.pick(&[1u16, 300, 65528]);
        for k in 0..*r.pick(&[9u16, 10, 13]) {
            s.push(Step::Broker(BrokerAct::Send(SPacket::Publish { dup: false, qos: 2, retain: false, topic: "q2".into(), pid: Some(base.wrapping_add(k).max(1)), props: vec![], payload: vec![k as u8] })));
            s.push(poll0());
            s.push(poll0());
        }
        return (cfg, s);
    }
    let cfg = CaseCfg { rx: 128, tx: 512, keepalive: 0, ..CaseCfg::default() };
    let n = *r.pick(&[8u16, 8, 8, 7, 3]);
    let base = *r.pick(&[1u16, 100, 65520]);
    let publish = |pid: u16, dup: bool| Step::Broker(BrokerAct::Send(SPacket::Publish { dup, qos: 2, retain: false, topic: "q2".into(), pid: Some(pid), props: vec![], payload: vec![pid as u8, 1] }));
    let mut s = vec![connect_with(SpMode::Force(false), AckMode::Hold, vec![])];
    for k in 0..n {
        s.push(publish(base + k, false));
        s.push(poll0()); // delivered
        if k + 1 < n {
            s.push(poll0()); // PUBREC written (the broker's PUBREL is withheld)
        }
    }
    // the PUBREC of the last one was never written
    s.push(Step::DropConn);
    let resumed = r.chance(4, 5);
    s.push(connect_with(SpMode::Force(resumed), AckMode::Hold, vec![]));
    // the broker never saw that PUBREC: it sends the PUBLISH again (and, sometimes, an earlier one
    // whose PUBREC it did see - after a fresh session both are new messages)
    s.push(publish(base + n - 1, true));
    if !resumed && r.chance(1, 2) {
        s.push(publish(base, false));
    }
    for _ in 0..4 {
        s.push(poll0());
    }
    s.push(Step::Broker(BrokerAct::Release { n: 99, order: Order::Fifo }));
    for _ in 0..24 {
        s.push(poll0());
    }
    (cfg, s)
}


/// C05 / C18: one Session lives through hundreds of broker sessions (the broker never keeps
/// one); handles issued early are queried after each of them - also while an operation of the
/// current session carries the same packet identifier.
pub fn fresh_sessions_script(r: &mut Rng, index: u64, _tier: Tier) -> (CaseCfg, Vec<Step>) {
    let cfg = CaseCfg { rx: 128, tx: 512, keepalive: 0, ..CaseCfg::default() };
    let mut s = vec![connect_with(SpMode::Force(false), AckMode::Hold, vec![])];
    // handles of the first session: one unacknowledged, one completed
    s.push(pubq(1 + r.below(2) as u8, "old/a", 1, 2));
    if r.chance(1, 2) {
        s.push(Step::Subscribe(SubSpec { filters: vec![FilterSpec { filter: "old/#".into(), max_qos: 1, no_local: false, rap: false, rh: 0 }], props: vec![], cancel_at: None }));
    }
    s.push(poll0());
    let n = [255usize, 256, 257, 511, 512, 513][(index % 6) as usize] - r.below(2) * 0;
    for k in 0..n {
        s.push(Step::DropConn);
        // now and then a handshake in between fails or is refused: those do not start a session
        if r.chance(1, 40) {
            s.push(Step::Connect(ConnectSpec { policy: IoPolicy::default(), faults: vec![], connack: ConnackSpec::Normal { sp: SpMode::Force(false), reason: 0x88, props: vec![] }, broker: BrokerPolicy::default(), cancel_at: None }));
            s.push(Step::DropConn);
        }
        s.push(connect_with(SpMode::Force(false), AckMode::Hold, vec![]));
        // around the multiples of 256: an operation of the current session takes identifier 1
        if k + 3 >= 255 && (k + 1) % 256 <= 2 || (k + 1) % 256 >= 254 {
            s.push(pubq(1, "new", 2, 1));
            s.push(poll0());
        }
    }
    s.push(pubq(1, "last", 3, 1));
    s.push(poll0());
    (cfg, s)
}


/// Shared by several checks: a session packet is taken by the transport in pieces, and the
/// keep-alive deadline passes between two of them (slow transport), so that a PINGREQ falls
/// due while a PUBLISH / SUBSCRIBE / PUBREL is half on the wire.
pub fn ping_between_pieces_script(r: &mut Rng, _index: u64, _tier: Tier) -> (CaseCfg, Vec<Step>) {
    let ka = *r.pick(&[1u16, 2, 4]);
    let cfg = CaseCfg { rx: 128, tx: 1024, keepalive: ka, ..CaseCfg::default() };
    let eff = ka as u64 * 1_000_000;
    let lead = 5_000_000u64.min(eff / 2);
    // the transport takes a few bytes per write and is busy for most of the ping interval after
    // the first partial write of an operation
    let policy = IoPolicy { write: *r.pick(&[Chunk::Fixed(4), Chunk::Fixed(8), Chunk::One]), slow_write_us: eff - lead - *r.pick(&[1u64, 1000, 100_000]), ..IoPolicy::default() };
    // half of the time the same happens to a *retransmission*: the requests stay unacknowledged on a
    // first, ordinary connection, and it is the resumed connection that takes them in pieces
    let on_replay = r.chance(1, 2);
    let mut s = vec![];
    if on_replay {
        s.push(Step::Connect(ConnectSpec { policy: IoPolicy::default(), faults: vec![], connack: ConnackSpec::ok(SpMode::Force(false)), broker: BrokerPolicy { acks: AckMode::Hold, ping: AckMode::Immediate, fail_pct: 0, longform_pct: 0 }, cancel_at: None }));
        for k in 0..r.range(1, 3) {
            s.push(match r.below(4) {
                0 | 1 => pubq(1, "pieces/r", 60 + k as u32, r.range(8, 40)),
                2 => pubq(2, "pieces/s", 70 + k as u32, r.range(8, 40)),
                _ => Step::Subscribe(SubSpec { filters: vec![FilterSpec { filter: "pieces/replayed/#".into(), max_qos: 1, no_local: false, rap: false, rh: 0 }], props: vec![], cancel_at: None }),
            });
        }
        s.push(Step::DropConn);
        s.push(Step::Connect(ConnectSpec { policy: policy.clone(), faults: vec![], connack: ConnackSpec::ok(SpMode::Force(true)), broker: BrokerPolicy::default(), cancel_at: None }));
        s.push(Step::Advance(*r.pick(&[1u64, 1000, 200_000])));
        for _ in 0..4 {
            s.push(Step::Poll { max_wait: eff, cancel_at: None });
        }
    } else {
        s.push(Step::Connect(ConnectSpec { policy, faults: vec![], connack: ConnackSpec::ok(SpMode::Force(false)), broker: BrokerPolicy::default(), cancel_at: None }));
    }
    // a little time passes first, so that the pause inside the packet carries the clock past the deadline
    s.push(Step::Advance(*r.pick(&[1u64, 1000, 200_000])));
    for k in 0..r.range(1, 3) {
        s.push(match r.below(6) {
            0 => pubq(1, "pieces/a", 40 + k as u32, r.range(8, 40)),
            1 => pubq(2, "pieces/b", 50 + k as u32, r.range(8, 40)),
            2 => Step::Subscribe(SubSpec { filters: vec![FilterSpec { filter: "pieces/#".into(), max_qos: 1, no_local: false, rap: false, rh: 0 }], props: vec![], cancel_at: None }),
            3 => Step::Unsubscribe(UnsubSpec { filters: vec!["pieces/long/filter/name".into()], props: vec![], cancel_at: None }),
            // ... or it is an acknowledgement the client owes (PUBACK / PUBREC, five bytes with a
            // reason code when the identifier is in use) that goes out in pieces
            _ => Step::Broker(BrokerAct::Send(crate::refcodec::SPacket::Publish { dup: false, qos: 1 + r.below(2) as u8, retain: false, topic: "pieces/in".into(), pid: Some(*r.pick(&[1u16, 0x1234, 65535])), props: vec![], payload: vec![k as u8, 9] })),
        });
        s.push(Step::Poll { max_wait: eff, cancel_at: None });
        s.push(poll0());
    }
    for _ in 0..6 {
        s.push(Step::Poll { max_wait: eff / 2, cancel_at: None });
    }
    (cfg, s)
}

/// A keep-alive probe falls due while the send buffer is full: the write that would start the
/// PINGREQ accepts nothing, the poll() waiting there is given up, and this happens 1..12 times in
/// a row before the transport takes data again. One probe is owed, whatever the number of calls.
pub fn stalled_probe_script(r: &mut Rng, _index: u64, _tier: Tier) -> (CaseCfg, Vec<Step>) {
    let ka = *r.pick(&[1u16, 2, 4, 30]);
    let cfg = CaseCfg { rx: 128, tx: 512, keepalive: ka, ..CaseCfg::default() };
    let eff = ka as u64 * 1_000_000;
    let lead = 5_000_000u64.min(eff / 2);
    let mut s = vec![Step::Connect(ConnectSpec { policy: IoPolicy::default(), faults: vec![], connack: ConnackSpec::ok(SpMode::Force(false)), broker: BrokerPolicy { acks: AckMode::Hold, ping: AckMode::Immediate, fail_pct: 0, longform_pct: 0 }, cancel_at: None })];
    for k in 0..r.below(3) {
        s.push(match r.below(3) {
            0 => pubq(1, "probe/a", 70 + k as u32, r.range(1, 20)),
            1 => pubq(2, "probe/b", 80 + k as u32, r.range(1, 20)),
            _ => Step::Subscribe(SubSpec { filters: vec![FilterSpec { filter: "probe/#".into(), max_qos: 1, no_local: false, rap: false, rh: 0 }], props: vec![], cancel_at: None }),
        });
    }
    // (sometimes the broker has something for the client as well: its acknowledgement queues up
    // behind the probe)
    if r.chance(1, 3) {
        s.push(Step::Broker(BrokerAct::Send(crate::refcodec::SPacket::Publish { dup: false, qos: 1, retain: false, topic: "probe/in".into(), pid: Some(9), props: vec![], payload: vec![1, 2, 3] })));
    }
    s.push(Step::Advance(eff - lead + *r.pick(&[0u64, 1, 1000])));
    let n = *r.pick(&[1usize, 2, 3, 7, 8, 9, 10, 12]);
    s.push(Step::Broker(BrokerAct::WriteGate { after: 0, blocks: n as u8 }));
    for _ in 0..n {
        s.push(match r.below(4) {
            0 => Step::Recv { max_wait: 0, cancel_at: None },
            1 => Step::Drive { cancel_at: Some(1) },
            _ => poll0(),
        });
    }
    s.push(Step::Broker(BrokerAct::Release { n: 8, order: Order::Fifo }));
    for _ in 0..4 {
        s.push(poll0());
    }
    (cfg, s)
}

/// C11: an operation leaves its packet half written (cancelled), the next call is disconnect(),
/// and the transport answers the write that would complete the packet with Ok(0) or an error.
pub fn c11_script(r: &mut Rng, _index: u64, _tier: Tier) -> (CaseCfg, Vec<Step>) {
    let cfg = CaseCfg { rx: 128, tx: 512, keepalive: 0, ..CaseCfg::default() };
    // one case in five: a request is given up when its packet is written and only the flush is
    // owed; the call that makes that flush - nothing else - gets a transport error: the handle is
    // dead from there on
    if r.chance(1, 5) {
        let policy = IoPolicy { pend_flush: Pend::Always, ..IoPolicy::default() };
        let mut s = vec![Step::Connect(ConnectSpec { policy, faults: vec![], connack: ConnackSpec::ok(SpMode::Force(false)), broker: BrokerPolicy { acks: AckMode::Hold, ping: AckMode::Immediate, fail_pct: 0, longform_pct: 0 }, cancel_at: None })];
        let mut req = match r.below(4) {
            0 => pubq(1, "flush/owed", 1, 3),
            1 => pubq(2, "flush/owed", 2, 3),
            2 => Step::Subscribe(SubSpec { filters: vec![FilterSpec { filter: "flush/#".into(), max_qos: 1, no_local: false, rap: false, rh: 0 }], props: vec![], cancel_at: None }),
            _ => Step::Unsubscribe(UnsubSpec { filters: vec!["flush".into()], props: vec![], cancel_at: None }),
        };
        // its only await that pends is the flush
        match &mut req {
            Step::Publish(p) => p.cancel_at = Some(1),
            Step::Subscribe(p) => p.cancel_at = Some(1),
            Step::Unsubscribe(p) => p.cancel_at = Some(1),
            _ => {}
        }
        s.push(req);
        // connect() used the first flush of this connection; the next one is the owed one
        s.push(Step::Io { policy: None, faults: vec![FaultPlan { at: FaultAt::Flush(1), kind: FaultKind::Error(*r.pick(&[ErrKind::BrokenPipe, ErrKind::ConnectionReset, ErrKind::TimedOut, ErrKind::Other])) }] });
        s.push(match r.below(4) {
            0 => Step::Drive { cancel_at: None },
            1 => pubq(1, "flush/next", 3, 2),
            2 => pubq(0, "flush/next0", 4, 2),
            _ => poll0(),
        });
        s.push(poll0());
        s.push(pubq(1, "after", 5, 2));
        s.push(Step::Disconnect(DiscSpec { reason: None, props: None, cancel_at: None }));
        s.push(Step::Drive { cancel_at: None });
        return (cfg, s);
    }
    // one case in four: the broker limits the packet size, a disconnect_with() whose DISCONNECT is
    // above the limit is refused locally (the connection stays up), a request or two later the
    // application calls disconnect(): that one fits, goes out, and the handle is dead for good
    if r.chance(1, 4) {
        let limit = *r.pick(&[64u32, 100, 200]);
        let mut s = vec![connect_with(SpMode::Force(false), AckMode::Immediate, vec![Prop::MaximumPacketSize(limit)])];
        s.push(Step::Disconnect(DiscSpec { reason: *r.pick(&[None, Some(4u8)]), props: Some(vec![Prop::ReasonString("x".repeat(limit as usize + r.below(40)))]), cancel_at: None }));
        for _ in 0..r.below(3) {
            s.push(match r.below(3) {
                0 => pubq(1, "between", 5, 2),
                1 => poll0(),
                _ => pubq(0, "between", 6, 2),
            });
        }
        s.push(Step::Disconnect(DiscSpec { reason: *r.pick(&[None, Some(0u8), Some(4)]), props: None, cancel_at: None }));
        s.push(poll0());
        s.push(pubq(1, "after", 3, 2));
        s.push(Step::Disconnect(DiscSpec { reason: None, props: None, cancel_at: None }));
        s.push(Step::Drive { cancel_at: None });
        return (cfg, s);
    }
    let policy = IoPolicy { write: *r.pick(&[Chunk::One, Chunk::Fixed(3)]), pend_write: Pend::Always, ..IoPolicy::default() };
    let mut s = vec![Step::Connect(ConnectSpec { policy, faults: vec![], connack: ConnackSpec::ok(SpMode::Force(false)), broker: BrokerPolicy { acks: AckMode::Hold, ping: AckMode::Immediate, fail_pct: 0, longform_pct: 0 }, cancel_at: None })];
    // cancelled at its 2nd..5th await: one to three pieces of the packet are on the wire
    let mut req = match r.below(3) {
        0 => pubq(1, "half", 1, 6),
        1 => pubq(2, "half", 2, 6),
        _ => Step::Subscribe(SubSpec { filters: vec![FilterSpec { filter: "half/#".into(), max_qos: 1, no_local: false, rap: false, rh: 0 }], props: vec![], cancel_at: None }),
    };
    let at = Some(r.range(2, 5));
    match &mut req {
        Step::Publish(p) => p.cancel_at = at,
        Step::Subscribe(p) => p.cancel_at = at,
        _ => {}
    }
    s.push(req);
    // the very next write is answered with Ok(0) / an error - or (one case in three) the
    // transport goes on taking its pieces, so that disconnect() has to finish the packet in
    // several writes before the DISCONNECT may follow
    if !r.chance(1, 3) {
        let kind = match r.below(3) {
            0 => FaultKind::WriteZero,
            1 => FaultKind::Error(ErrKind::WriteZero),
            _ => FaultKind::Error(ErrKind::BrokenPipe),
        };
        s.push(Step::Io { policy: None, faults: vec![FaultPlan { at: FaultAt::OutBytes(0), kind }] });
    }
    s.push(Step::Disconnect(DiscSpec { reason: *r.pick(&[None, Some(4u8)]), props: None, cancel_at: None }));
    // the handle is dead now, whatever disconnect() returned
    s.push(poll0());
    s.push(pubq(1, "after", 3, 2));
    s.push(pubq(0, "after", 4, 2));
    s.push(Step::Disconnect(DiscSpec { reason: None, props: None, cancel_at: None }));
    s.push(poll0());
    (cfg, s)
}

/// C18: the broker's Maximum Packet Size is 5..9, the application sends the smallest possible
/// QoS 2 publish (8 bytes); the PUBREL that follows its PUBREC is 5 bytes long and fits.
pub fn c18_script(r: &mut Rng, _index: u64, _tier: Tier) -> (CaseCfg, Vec<Step>) {
    use crate::refcodec::SPacket;
    let cfg = CaseCfg { rx: 128, tx: 512, keepalive: 0, ..CaseCfg::default() };
    let mps = *r.pick(&[5u32, 6, 7, 8, 9, 16]);
    let mut s = vec![connect_with(SpMode::Force(false), AckMode::Hold, vec![Prop::MaximumPacketSize(mps)])];
    let qos = 1 + r.below(2) as u8;
    s.push(Step::Publish(PubSpec { topic: "a".into(), payload: PayloadSpec::Bytes(vec![]), qos, retain: false, props: vec![], correlate: None, cancel_at: None }));
    s.push(poll0());
    if qos == 2 {
        s.push(Step::Broker(BrokerAct::Send(SPacket::PubRec { pid: 1, reason: *r.pick(&[None, Some(0u8), Some(0x10)]), props: None })));
        s.push(poll0());
        s.push(poll0());
        s.push(Step::Broker(BrokerAct::Send(SPacket::PubComp { pid: 1, reason: None, props: None })));
    } else {
        s.push(Step::Broker(BrokerAct::Send(SPacket::PubAck { pid: 1, reason: None, props: None })));
    }
    s.push(poll0());
    s.push(poll0());
    (cfg, s)
}

/// C07: the flush right after the last byte of a QoS 1/2 PUBLISH fails; the session resumes; the
/// identifier counter comes round to that identifier while the broker still holds the exchange.
pub fn c07_flush_fault_script(r: &mut Rng, _index: u64, _tier: Tier) -> (CaseCfg, Vec<Step>) {
    let cfg = CaseCfg { rx: 128, tx: 1024, keepalive: 0, ..CaseCfg::default() };
    let first = *r.pick(&[1u16, 7, 65534, 65535]);
    // (the counter can only be positioned while no handle borrows the session)
    let mut s = vec![Step::SetNextPid(first), connect_with(SpMode::Force(false), AckMode::Hold, vec![])];
    // the n-th flush of this connection is the one after the PUBLISH (connect() used the first)
    s.push(Step::Io { policy: None, faults: vec![FaultPlan { at: FaultAt::Flush(1), kind: FaultKind::Error(*r.pick(&[ErrKind::ConnectionReset, ErrKind::BrokenPipe, ErrKind::TimedOut])) }] });
    s.push(pubq(1 + r.below(2) as u8, "lost/flush", 1, 4));
    s.push(Step::DropConn);
    // the counter has come round
    s.push(Step::SetNextPid(first));
    s.push(connect_with(SpMode::Force(true), AckMode::Hold, vec![]));
    s.push(poll0());
    for k in 0..r.range(1, 3) {
        s.push(match r.below(3) {
            0 => pubq(1, "again", 10 + k as u32, 2),
            1 => Step::Subscribe(SubSpec { filters: vec![FilterSpec { filter: "again/#".into(), max_qos: 0, no_local: false, rap: false, rh: 0 }], props: vec![], cancel_at: None }),
            _ => pubq(2, "again", 20 + k as u32, 2),
        });
    }
    s.push(poll0());
    s.push(Step::Broker(BrokerAct::Release { n: 99, order: Order::Fifo }));
    for _ in 0..8 {
        s.push(poll0());
    }
    (cfg, s)
}

/// C06: the transport takes every byte of a QoS 1/2 PUBLISH and fails right afterwards (on the
/// flush): the broker has the packet, the caller got an error. On the resumed connection the
/// packet still occupies a slot of the broker's window, whatever the client remembers of it.
pub fn c06_flush_fault_script(r: &mut Rng, _index: u64, _tier: Tier) -> (CaseCfg, Vec<Step>) {
    let cfg = CaseCfg { rx: 128, tx: 2048, keepalive: 0, ..CaseCfg::default() };
    let rm = *r.pick(&[1u16, 2, 3, 5]);
    // (half of the time the broker of the first connection answers at once: its PUBREC for the
    // PUBLISH whose flush fails is sent - and lost with the connection -, so that the exchange is
    // open at the broker and counts against the window of the resumed connection)
    let mut s = vec![connect_with(SpMode::Force(false), if r.chance(1, 2) { AckMode::Immediate } else { AckMode::Hold }, vec![Prop::ReceiveMaximum(rm)])];
    let before = r.below(rm as usize);
    for k in 0..before {
        s.push(pubq(1 + r.below(2) as u8, "w", k as u32, 3));
    }
    // the n-th flush of this connection: connect() used the first, every publish so far one more
    s.push(Step::Io { policy: None, faults: vec![FaultPlan { at: FaultAt::Flush(1 + before), kind: FaultKind::Error(*r.pick(&[ErrKind::ConnectionReset, ErrKind::BrokenPipe, ErrKind::TimedOut])) }] });
    s.push(pubq(1 + r.below(2) as u8, "lost/flush", 77, 4));
    s.push(Step::DropConn);
    // the same window (or another one) on the resumed connection; acknowledgements withheld
    let rm2 = if r.chance(1, 2) { rm } else { *r.pick(&[1u16, 2, 4]) };
    s.push(connect_with(SpMode::Force(true), AckMode::Hold, vec![Prop::ReceiveMaximum(rm2)]));
    s.push(poll0());
    for k in 0..rm2 as usize + 2 {
        s.push(pubq(1 + r.below(2) as u8, "new", 100 + k as u32, 2));
        s.push(poll0());
    }
    s.push(Step::Broker(BrokerAct::Release { n: 99, order: Order::Fifo }));
    for _ in 0..6 {
        s.push(poll0());
    }
    (cfg, s)
}

/// C07: an unacknowledged packet meets, on a resumed connection, a Maximum Packet Size below its
/// own length (it cannot be replayed there); a later connection has no such limit, and by then
/// the identifier counter has come round to the packet's identifier. The broker has seen the
/// packet once, so the identifier is still taken.
pub fn c07_smaller_limit_script(r: &mut Rng, _index: u64, _tier: Tier) -> (CaseCfg, Vec<Step>) {
    let cfg = CaseCfg { rx: 128, tx: 1024, keepalive: 0, ..CaseCfg::default() };
    let first = *r.pick(&[1u16, 7, 300, 65534, 65535]);
    let mut s = vec![Step::SetNextPid(first), connect_with(SpMode::Force(false), AckMode::Hold, vec![])];
    let big = r.chance(2, 3);
    s.push(match r.below(3) {
        0 => Step::Subscribe(SubSpec { filters: vec![FilterSpec { filter: "long/filter/of/some/length/#".into(), max_qos: 1, no_local: false, rap: false, rh: 0 }], props: vec![], cancel_at: None }),
        1 => pubq(2, "big", 1, if big { 40 } else { 2 }),
        _ => pubq(1, "big", 1, if big { 40 } else { 2 }),
    });
    s.push(poll0());
    s.push(Step::DropConn);
    // a resumed connection whose broker takes at most 20 bytes per packet
    s.push(connect_with(SpMode::Force(true), AckMode::Hold, vec![Prop::MaximumPacketSize(*r.pick(&[12u32, 20, 24]))]));
    for _ in 0..r.range(1, 3) {
        s.push(poll0());
    }
    if r.chance(1, 2) {
        s.push(pubq(1, "s", 2, 1));
        s.push(poll0());
    }
    s.push(Step::DropConn);
    // the counter has come round
    s.push(Step::SetNextPid(first));
    s.push(connect_with(SpMode::Force(true), AckMode::Hold, vec![]));
    s.push(poll0());
    for k in 0..r.range(1, 3) {
        s.push(match r.below(3) {
            0 => pubq(1, "again", 10 + k as u32, 2),
            1 => Step::Subscribe(SubSpec { filters: vec![FilterSpec { filter: "again/#".into(), max_qos: 0, no_local: false, rap: false, rh: 0 }], props: vec![], cancel_at: None }),
            _ => pubq(2, "again", 20 + k as u32, 2),
        });
    }
    s.push(poll0());
    s.push(Step::Broker(BrokerAct::Release { n: 99, order: Order::Fifo }));
    for _ in 0..8 {
        s.push(poll0());
    }
    (cfg, s)
}

/// Shared by several checks: the application gives up on a disconnect() while the DISCONNECT is
/// pending on the transport (nothing or only a part of it accepted), lets go of the handle
/// without another call, and resumes the session on a new connection. Whatever the old handle
/// had begun stays with the old transport; the new connection replays what is owed.
pub fn disconnect_given_up_script(r: &mut Rng, _index: u64, _tier: Tier) -> (CaseCfg, Vec<Step>) {
    let cfg = CaseCfg { rx: 128, tx: 1024, keepalive: 0, ..CaseCfg::default() };
    let mut s = vec![];
    let policy = IoPolicy { write: *r.pick(&[Chunk::One, Chunk::All, Chunk::Fixed(3)]), pend_write: Pend::Always, pend_flush: Pend::Always, ..IoPolicy::default() };
    s.push(Step::Connect(ConnectSpec { policy, faults: vec![], connack: ConnackSpec::Normal { sp: SpMode::Force(false), reason: 0, props: vec![] }, broker: BrokerPolicy { acks: AckMode::Hold, ping: AckMode::Immediate, fail_pct: 0, longform_pct: 0 }, cancel_at: None }));
    let n = r.range(1, 3);
    for k in 0..n {
        s.push(match r.below(5) {
            0 => Step::Subscribe(SubSpec { filters: vec![FilterSpec { filter: "g/#".into(), max_qos: 1, no_local: false, rap: false, rh: 0 }], props: vec![], cancel_at: None }),
            1 | 2 => pubq(2, "g", k as u32, 4),
            _ => pubq(1, "g", k as u32, 4),
        });
    }
    // some of the QoS 2 exchanges get as far as PUBREL
    if r.chance(1, 2) {
        s.push(Step::Broker(BrokerAct::Release { n: 1, order: Order::Fifo }));
        s.push(poll0());
        s.push(poll0());
    }
    let props = match r.below(3) {
        0 => Some(vec![Prop::ReasonString("going".into())]),
        _ => None,
    };
    s.push(Step::Disconnect(DiscSpec { reason: *r.pick(&[None, Some(0u8), Some(4)]), props, cancel_at: Some(r.range(1, 4)) }));
    s.push(match r.below(3) {
        0 => Step::ForgetConn,
        1 => Step::IntoInner,
        _ => Step::DropConn,
    });
    s.push(connect_with(SpMode::Force(true), AckMode::Hold, vec![]));
    for _ in 0..n + 3 {
        s.push(poll0());
    }
    s.push(pubq(1, "after", 9, 2));
    s.push(Step::Broker(BrokerAct::Release { n: 99, order: Order::Fifo }));
    for _ in 0..2 * n + 3 {
        s.push(poll0());
    }
    (cfg, s)
}

/// Shared: a QoS 2 exchange has reached its release phase (PUBREC received, PUBREL sent, PUBCOMP
/// withheld) when the transmit arena fills up to the last bytes with another unacknowledged
/// packet; the connection is lost and the session resumed: the PUBREL (and the acknowledgements
/// the client owes) need no arena room and go out again.
/// QoS 2 exchanges wait for PUBCOMP and a larger request is unacknowledged as well; the session
/// is resumed on a connection whose Maximum Packet Size lies below that request (it is refused,
/// PacketTooLarge, whenever its turn comes, and the handle stays up): the PUBRELs, which fit, are
/// owed and go out all the same, and so does the PUBREL for a PUBREC that arrives there.
pub fn replay_blocked_by_a_smaller_limit_script(r: &mut Rng, _index: u64, _tier: Tier) -> (CaseCfg, Vec<Step>) {
    let cfg = CaseCfg { rx: 128, tx: 1024, keepalive: 0, ..CaseCfg::default() };
    let mut s = vec![connect_with(SpMode::Force(false), AckMode::Hold, vec![])];
    let n2 = r.range(1, 3);
    // the big one first (it precedes the PUBRELs' publishes in the retained table) or last
    let big = match r.below(3) {
        0 => pubq(1, "big/one", 0xB1, r.range(40, 90)),
        1 => pubq(2, "big/two", 0xB2, r.range(40, 90)),
        _ => Step::Subscribe(SubSpec { filters: vec![FilterSpec { filter: "b".repeat(r.range(40, 90)), max_qos: 1, no_local: false, rap: false, rh: 0 }], props: vec![], cancel_at: None }),
    };
    let big_first = r.chance(1, 2);
    if big_first {
        s.push(big.clone());
    }
    for k in 0..n2 {
        s.push(pubq(2, "r", k as u32, 2));
    }
    if !big_first {
        s.push(big.clone());
    }
    // PUBRECs for the small ones only (the big one, if QoS 2, gets its PUBREC on the next
    // connection or never): held packets are released oldest first
    s.push(poll0());
    for k in 0..n2 {
        let pid = if big_first { 2 + k as u16 } else { 1 + k as u16 };
        s.push(Step::Broker(BrokerAct::Send(crate::refcodec::SPacket::PubRec { pid, reason: None, props: None })));
        s.push(poll0());
        s.push(poll0());
    }
    s.push(match r.below(3) {
        0 => Step::DropConn,
        1 => Step::Broker(BrokerAct::Close),
        _ => Step::ForgetConn,
    });
    s.push(poll0());
    s.push(Step::DropConn);
    let limit = *r.pick(&[4u32, 8, 20, 30]);
    s.push(connect_with(SpMode::Force(true), AckMode::Immediate, vec![Prop::MaximumPacketSize(limit)]));
    for _ in 0..n2 + 4 {
        s.push(poll0());
    }
    (cfg, s)
}

pub fn release_on_a_full_arena_script(r: &mut Rng, _index: u64, _tier: Tier) -> (CaseCfg, Vec<Step>) {
    use crate::refcodec::SPacket;
    let tx = *r.pick(&[64usize, 96, 128, 256]);
    let cfg = CaseCfg { rx: 128, tx, keepalive: 0, ..CaseCfg::default() };
    let mut s = vec![connect_with(SpMode::Force(false), AckMode::Hold, vec![])];
    let n2 = r.range(1, 2);
    for k in 0..n2 {
        s.push(pubq(2, "r", k as u32, 2));
    }
    s.push(Step::Broker(BrokerAct::Release { n: n2, order: Order::Fifo }));
    for _ in 0..2 * n2 + 1 {
        s.push(poll0());
    }
    // one case in two: an inbound QoS 1 / QoS 2 publish is waiting as well (its acknowledgement is owed)
    let inbound = r.chance(1, 2);
    // the filler: PUBLISH "f", 1 + 1|2 + 2 + 1 + 2 + 1 + payload
    let leave = r.below(9);
    let total = tx - leave;
    let rlb = if total >= 128 + 3 { 2 } else { 1 };
    s.push(pubq(1, "f", 0xF1, total - (1 + rlb + 3 + 2 + 1)));
    if inbound {
        s.push(Step::Broker(BrokerAct::Send(SPacket::Publish { dup: false, qos: 1 + r.below(2) as u8, retain: false, topic: "in".into(), pid: Some(3), props: vec![], payload: vec![1] })));
        s.push(poll0());
        s.push(poll0());
    }
    s.push(match r.below(3) {
        0 => Step::DropConn,
        1 => Step::Broker(BrokerAct::Close),
        _ => Step::ForgetConn,
    });
    s.push(poll0());
    s.push(Step::DropConn);
    s.push(connect_with(SpMode::Force(true), AckMode::Hold, vec![]));
    for _ in 0..n2 + 3 {
        s.push(poll0());
    }
    s.push(Step::Broker(BrokerAct::Release { n: 99, order: Order::Fifo }));
    for _ in 0..2 * n2 + 4 {
        s.push(poll0());
    }
    (cfg, s)
}

/// Shared: what one CONNACK announced must not outlive its connection.  Two to five connections
/// of one session, each CONNACK with its own random selection of Maximum QoS, Receive Maximum,
/// Maximum Packet Size, Server Keep Alive, Topic Alias Maximum (present on some, absent on
/// others, different values), resumed or on a fresh broker session; on every connection the same
/// small battery of requests (QoS 0/1/2 publishes with properties, SUBSCRIBE, UNSUBSCRIBE), all
/// acknowledged at once.  Judged by the ordinary monitors (C09: what goes out is what was asked,
/// under the limits of *this* connection; C19: QoS cap; C06; C14; C05).
pub fn limits_across_connections_script(r: &mut Rng, _index: u64, _tier: Tier) -> (CaseCfg, Vec<Step>) {
    let cfg = CaseCfg {
        rx: *r.pick(&[128usize, 256, 1024]),
        tx: 2048,
        keepalive: *r.pick(&[0u16, 0, 30, 600]),
        downgrade: r.chance(2, 3),
        client_id: if r.chance(1, 4) { String::new() } else { "limits".into() },
        ..CaseCfg::default()
    };
    let mut s = Vec::new();
    let conns = r.range(2, 5);
    let mut tag = 1u32;
    for k in 0..conns {
        let mut props = Vec::new();
        if r.chance(1, 2) {
            props.push(Prop::MaximumQoS(r.below(2) as u8));
        }
        if r.chance(1, 2) {
            props.push(Prop::ReceiveMaximum(*r.pick(&[1u16, 2, 3, 8, 20, 65535])));
        }
        if r.chance(1, 3) {
            props.push(Prop::MaximumPacketSize(*r.pick(&[40u32, 64, 100, 300, 70_000])));
        }
        if r.chance(1, 3) {
            props.push(Prop::ServerKeepAlive(*r.pick(&[0u16, 5, 60, 65535])));
        }
        if r.chance(1, 4) {
            props.push(Prop::TopicAliasMaximum(*r.pick(&[0u16, 1, 10])));
        }
        if cfg.client_id.is_empty() && (k == 0 || r.chance(1, 3)) {
            props.push(Prop::AssignedClientId(format!("assigned-{}", r.below(3))));
        }
        let sp = if k > 0 && r.chance(1, 3) { SpMode::Force(false) } else { SpMode::Honest };
        s.push(connect_with(sp, AckMode::Immediate, props));
        let n = r.range(2, 5);
        for _ in 0..n {
            tag += 1;
            match r.below(6) {
                0 | 1 | 2 | 3 => {
                    let qos = r.below(3) as u8;
                    let mut p = PubSpec { topic: format!("lim/{}", tag), payload: PayloadSpec::Fill { len: r.range(0, 12), tag, ascii: false }, qos, retain: r.chance(1, 4), props: vec![], correlate: None, cancel_at: None };
                    if r.chance(1, 3) {
                        p.props.push(Prop::UserProperty("k".into(), "v".into()));
                    }
                    if r.chance(1, 5) {
                        p.correlate = Some(r.bytes(3));
                    }
                    s.push(Step::Publish(p));
                }
                4 => s.push(Step::Subscribe(SubSpec { filters: vec![FilterSpec { filter: format!("lim/f{}/#", tag), max_qos: r.below(3) as u8, no_local: r.chance(1, 2), rap: r.chance(1, 2), rh: r.below(3) as u8 }], props: vec![], cancel_at: None })),
                _ => s.push(Step::Unsubscribe(UnsubSpec { filters: vec![format!("lim/f{}/#", tag)], props: vec![], cancel_at: None })),
            }
            s.push(poll0());
            s.push(poll0());
        }
        s.push(poll0());
        match r.below(3) {
            0 => s.push(Step::Disconnect(DiscSpec { reason: None, props: None, cancel_at: None })),
            _ => {}
        }
        s.push(Step::DropConn);
    }
    (cfg, s)
}

/// Shared (C01, C09): a `disconnect_with()` whose DISCONNECT carries properties (it is parked in
/// the free part of the transmit arena, not in the inline control storage) is given up after
/// some of its bytes went out; the application then asks again - with another reason and other
/// properties, with none, or does something else first - once in three after the transport has
/// answered one write with `Ok(0)`.  Whatever the calls return, the stream stays whole packets
/// and ends with one DISCONNECT.
pub fn disconnect_asked_again_script(r: &mut Rng, _index: u64, _tier: Tier) -> (CaseCfg, Vec<Step>) {
    let cfg = CaseCfg { rx: 128, tx: *r.pick(&[128usize, 256, 1024]), keepalive: 0, ..CaseCfg::default() };
    let policy = IoPolicy { write: *r.pick(&[Chunk::One, Chunk::Fixed(2), Chunk::Fixed(3), Chunk::Fixed(7)]), pend_write: Pend::Always, pend_flush: Pend::Always, ..IoPolicy::default() };
    let mut s = vec![Step::Connect(ConnectSpec { policy, faults: vec![], connack: ConnackSpec::Normal { sp: SpMode::Force(false), reason: 0, props: vec![] }, broker: BrokerPolicy { acks: AckMode::Hold, ping: AckMode::Immediate, fail_pct: 0, longform_pct: 0 }, cancel_at: None })];
    for k in 0..r.below(3) {
        s.push(match r.below(3) {
            0 => Step::Subscribe(SubSpec { filters: vec![FilterSpec { filter: "again/#".into(), max_qos: 1, no_local: false, rap: false, rh: 0 }], props: vec![], cancel_at: None }),
            1 => pubq(2, "again", k as u32, 4),
            _ => pubq(1, "again", k as u32, 4),
        });
    }
    let mut props_of = |r: &mut Rng| -> Option<Vec<Prop>> {
        match r.below(5) {
            0 => None,
            1 => Some(vec![]),
            2 => Some(vec![Prop::ReasonString(str_of(r.range(1, 40), r))]),
            3 => Some(vec![Prop::UserProperty(str_of(r.range(0, 6), r), str_of(r.range(0, 30), r))]),
            _ => Some(vec![Prop::ReasonString(str_of(r.range(1, 12), r)), Prop::UserProperty("k".into(), str_of(r.range(0, 12), r)), Prop::SessionExpiry(*r.pick(&[0u32, 60]))]),
        }
    };
    let first = props_of(r).or(Some(vec![Prop::ReasonString(str_of(r.range(4, 30), r))]));
    // given up at its 2nd..14th await: a few bytes of the DISCONNECT are on the wire (or, with
    // something still queued, the call is still finishing that)
    s.push(Step::Disconnect(DiscSpec { reason: *r.pick(&[None, Some(0u8), Some(4), Some(0x98)]), props: first, cancel_at: Some(r.range(2, 14)) }));
    if r.chance(1, 3) {
        s.push(Step::Io { policy: None, faults: vec![FaultPlan { at: FaultAt::OutBytes(r.below(3)), kind: FaultKind::WriteZero }] });
    }
    for _ in 0..r.range(1, 3) {
        s.push(match r.below(7) {
            0 | 1 | 2 => Step::Disconnect(DiscSpec { reason: *r.pick(&[None, Some(0u8), Some(4), Some(0x98)]), props: props_of(r), cancel_at: if r.chance(1, 3) { Some(r.range(1, 9)) } else { None } }),
            3 => poll0(),
            4 => pubq(1, "again/late", 9, 3),
            5 => pubq(0, "again/late0", 9, 3),
            _ => Step::Drive { cancel_at: None },
        });
    }
    s.push(Step::Disconnect(DiscSpec { reason: None, props: None, cancel_at: None }));
    s.push(poll0());
    s.push(Step::DropConn);
    s.push(connect_with(SpMode::Force(true), AckMode::Immediate, vec![]));
    for _ in 0..4 {
        s.push(poll0());
    }
    (cfg, s)
}

fn rl_bytes(rl: usize) -> usize {
    match rl {
        0..=127 => 1,
        128..=16_383 => 2,
        16_384..=2_097_151 => 3,
        _ => 4,
    }
}

/// C14: a request whose packet is exactly `limit - 2 .. limit + 2` bytes long, for every broker
/// limit from 8 to 300 bytes and for the limits around the places where the Remaining Length
/// grows by a byte (128 + 2, 16 384 + 3, 2 097 152 + 4): QoS 0/1/2 publish, SUBSCRIBE,
/// UNSUBSCRIBE.  What fits goes out, what does not is refused without a trace, and a small
/// request made afterwards on the same connection is served.
pub fn around_every_limit_script(r: &mut Rng, index: u64, _tier: Tier) -> (CaseCfg, Vec<Step>) {
    let big = index % 16 == 15;
    let limit: usize = if big {
        *r.pick(&[16_385usize, 16_386, 16_387, 16_388, 16_389, 2_097_154, 2_097_155, 2_097_156, 2_097_157, 2_097_158])
    } else if r.chance(1, 3) {
        *r.pick(&[127usize, 128, 129, 130, 131, 132, 133])
    } else {
        8 + r.below(293)
    };
    let cfg = CaseCfg { rx: 128, tx: if limit > 100_000 { 2_200_000 } else if limit > 1000 { 40_000 } else { 2048 }, keepalive: 0, ..CaseCfg::default() };
    let target = limit + r.below(5) - 2;
    // total = 1 + rl_bytes(RL) + RL
    let rl_for = |total: usize| -> Option<usize> { (0..=4).map(|n| total.saturating_sub(1 + n)).find(|rl| 1 + rl_bytes(*rl) + rl == total) };
    let mut s = vec![connect_with(SpMode::Force(false), AckMode::Immediate, vec![Prop::MaximumPacketSize(limit as u32)])];
    if let Some(rl) = rl_for(target) {
        let kind = r.below(5);
        // one publish in three carries a property block of 128 bytes or more (its own length
        // field then takes two bytes)
        let vlen = r.range(122, 200);
        let long_props = r.chance(1, 3) && rl > vlen + 20;
        let req = match kind {
            0 | 1 | 2 => {
                let qos = kind as u8;
                let (props, plen) = if long_props { (vec![Prop::UserProperty("k".into(), "v".repeat(vlen))], 2 + 1 + 2 + 1 + 2 + vlen) } else { (vec![], 1) };
                let fixed = 2 + 1 + if qos > 0 { 2 } else { 0 } + plen;
                if rl < fixed { None } else { Some(Step::Publish(PubSpec { topic: "t".into(), payload: PayloadSpec::Fill { len: rl - fixed, tag: 0xE14, ascii: false }, qos, retain: false, props, correlate: None, cancel_at: None })) }
            }
            3 => {
                if rl < 2 + 1 + 2 + 1 + 1 || rl - 6 > 65_535 { None } else { Some(Step::Subscribe(SubSpec { filters: vec![FilterSpec { filter: "f".repeat(rl - 6), max_qos: 1, no_local: false, rap: false, rh: 0 }], props: vec![], cancel_at: None })) }
            }
            _ => {
                if rl < 2 + 1 + 2 + 1 || rl - 5 > 65_535 { None } else { Some(Step::Unsubscribe(UnsubSpec { filters: vec!["u".repeat(rl - 5)], props: vec![], cancel_at: None })) }
            }
        };
        if let Some(req) = req {
            s.push(req);
            s.push(poll0());
        }
    }
    // the connection goes on serving what fits
    s.push(pubq(1, "k", 0xE15, 0));
    s.push(poll0());
    s.push(poll0());
    s.push(Step::Disconnect(DiscSpec { reason: None, props: None, cancel_at: None }));
    (cfg, s)
}


/// Every check also runs its monitor over the scripted scenarios written for the *other*
/// checks: a scenario built to corner one property is an ordinary history for the nineteen
/// others, and a change that one check misses for lack of reach is often within reach of a
/// scenario another check owns.  (The 65 535-allocation wrap script is drawn less often.)
pub fn pooled_script(r: &mut Rng, index: u64, tier: Tier) -> (CaseCfg, Vec<Step>) {
    const POOL: &[crate::checks::ScriptFn] = &[
        ping_between_pieces_script,
        stalled_probe_script,
        c11_script,
        c18_script,
        c07_flush_fault_script,
        c06_flush_fault_script,
        c07_smaller_limit_script,
        disconnect_given_up_script,
        replay_blocked_by_a_smaller_limit_script,
        release_on_a_full_arena_script,
        limits_across_connections_script,
        disconnect_asked_again_script,
        around_every_limit_script,
        saturation_script,
        c04_script,
        c10_script,
        c14_script,
        long_lived_among_many_script,
        pingreq_cut_then_resume_script,
        refused_request_while_half_read_script,
        redelivery_under_a_tiny_limit_script,
        connect_at_the_edge_of_the_arena_script,
        arena_above_64k_script,
    ];
    let k = (index as usize) % (POOL.len() * 4 + 1);
    if k == POOL.len() * 4 {
        return crate::checks::wrap_script(r, index, tier);
    }
    let (mut cfg, steps) = POOL[k % POOL.len()](r, index / POOL.len() as u64, tier);
    // (a receive buffer that cannot hold a CONNACK is a configuration error C14 plays with on
    // purpose; for everybody else it is a history in which nothing happens)
    if cfg.rx < 16 {
        cfg.rx = 128;
    }
    (cfg, steps)
}

/// Shared (C18, C07, C17): one to three operations stay unanswered (the broker withholds their
/// acknowledgements) while 63 .. 260 further requests are made and acknowledged one after the
/// other on the same connection, so that the identifiers in flight at the same time lie 64, 128,
/// 256 apart; then the withheld acknowledgements arrive.  Handle statuses are probed after every
/// step.
pub fn long_lived_among_many_script(r: &mut Rng, _index: u64, _tier: Tier) -> (CaseCfg, Vec<Step>) {
    let cfg = CaseCfg { rx: 128, tx: 1024, keepalive: 0, ..CaseCfg::default() };
    let mut s = vec![connect_with(SpMode::Force(false), AckMode::Hold, vec![])];
    if r.chance(1, 3) {
        s.insert(0, Step::SetNextPid(*r.pick(&[1u16, 60, 65_500])));
    }
    for k in 0..r.range(1, 3) {
        s.push(match r.below(4) {
            0 => Step::Subscribe(SubSpec { filters: vec![FilterSpec { filter: format!("old/{}/#", k), max_qos: 1, no_local: false, rap: false, rh: 0 }], props: vec![], cancel_at: None }),
            1 => Step::Unsubscribe(UnsubSpec { filters: vec![format!("old/{}", k)], props: vec![], cancel_at: None }),
            2 => pubq(2, "old", 900 + k as u32, 2),
            _ => pubq(1, "old", 900 + k as u32, 2),
        });
    }
    s.push(Step::Broker(BrokerAct::Policy(BrokerPolicy { acks: AckMode::Immediate, ping: AckMode::Immediate, fail_pct: 0, longform_pct: 0 })));
    let n = *r.pick(&[62usize, 63, 64, 65, 66, 127, 128, 129, 200, 260]);
    for k in 0..n {
        let q2 = r.chance(1, 6);
        s.push(pubq(if q2 { 2 } else { 1 }, "young", k as u32, 1));
        s.push(poll0());
        s.push(poll0());
        if q2 {
            s.push(poll0());
        }
    }
    s.push(Step::Broker(BrokerAct::Release { n: 99, order: Order::Fifo }));
    for _ in 0..5 {
        s.push(poll0());
    }
    (cfg, s)
}

/// Shared (C01, C04, C12): a keep-alive PINGREQ is cut short - the application gives the wait up
/// after the probe's first byte, or after both with the flush still owed - and the connection is
/// dropped with nothing else pending; the session resumes (or starts afresh) and the broker has a
/// message for the client: the acknowledgement it is owed goes out whole.
pub fn pingreq_cut_then_resume_script(r: &mut Rng, _index: u64, _tier: Tier) -> (CaseCfg, Vec<Step>) {
    use crate::refcodec::SPacket;
    let ka = *r.pick(&[1u16, 2, 10]);
    let cfg = CaseCfg { rx: 128, tx: 512, keepalive: ka, ..CaseCfg::default() };
    let eff = ka as u64 * 1_000_000;
    let lead = 5_000_000u64.min(eff / 2);
    let policy = IoPolicy { write: Chunk::One, pend_write: Pend::Always, pend_flush: Pend::Always, ..IoPolicy::default() };
    let mut s = vec![Step::Connect(ConnectSpec { policy, faults: vec![], connack: ConnackSpec::ok(SpMode::Force(false)), broker: BrokerPolicy { acks: AckMode::Immediate, ping: AckMode::Never, fail_pct: 0, longform_pct: 0 }, cancel_at: None })];
    // sometimes something was in flight earlier and is long acknowledged
    if r.chance(1, 2) {
        s.push(pubq(1, "cut/before", 1, 2));
        s.push(poll0());
        s.push(poll0());
    }
    s.push(Step::Advance(eff - lead + 1));
    // awaits of the wait: pend, first byte, pend, second byte, pend, flush
    s.push(Step::Poll { max_wait: 0, cancel_at: Some(r.range(2, 5)) });
    s.push(match r.below(3) {
        0 => Step::ForgetConn,
        _ => Step::DropConn,
    });
    s.push(connect_with(if r.chance(3, 4) { SpMode::Force(true) } else { SpMode::Force(false) }, AckMode::Immediate, vec![]));
    let q = 1 + r.below(2) as u8;
    s.push(Step::Broker(BrokerAct::Send(SPacket::Publish { dup: false, qos: q, retain: false, topic: "cut/in".into(), pid: Some(*r.pick(&[1u16, 300])), props: vec![], payload: vec![3, 4] })));
    s.push(poll0());
    s.push(poll0());
    s.push(pubq(1, "cut/after", 2, 2));
    for _ in 0..3 {
        s.push(poll0());
    }
    (cfg, s)
}

/// Shared (C04, C13, C08): an inbound packet is half read - the network delivers its first bytes,
/// the wait is given up - when the application makes a request that is served (a QoS 0 or a small QoS 1 publish) or one that is refused locally (too large
/// for what is left of the transmit arena, for the broker's limit, or carrying an illegal
/// property; the arena is nearly full of an unacknowledged publish); then the rest arrives.  The
/// message is delivered exactly as sent.
pub fn refused_request_while_half_read_script(r: &mut Rng, _index: u64, _tier: Tier) -> (CaseCfg, Vec<Step>) {
    use crate::refcodec::SPacket;
    let cfg = CaseCfg { rx: *r.pick(&[128usize, 256]), tx: *r.pick(&[128usize, 256, 512]), keepalive: 0, ..CaseCfg::default() };
    let mut props = vec![];
    if r.chance(1, 3) {
        props.push(Prop::MaximumPacketSize(*r.pick(&[600u32, 1000])));
    }
    let mut s = vec![connect_with(SpMode::Force(false), AckMode::Hold, props)];
    // the arena is filled to within a few bytes by a publish the broker does not acknowledge
    if r.chance(3, 4) {
        let leave = r.below(48);
        s.push(Step::Publish(PubSpec { topic: "k".into(), payload: PayloadSpec::Fill { len: cfg.tx - leave - 9, tag: 0xF111, ascii: false }, qos: 1, retain: false, props: vec![], correlate: None, cancel_at: None }));
    }
    let q = r.below(3) as u8;
    let body: Vec<u8> = (0..r.range(20, 60)).map(|i| (i * 3 + 1) as u8).collect();
    let mut iprops = vec![];
    if r.chance(1, 2) {
        iprops.push(Prop::UserProperty("half".into(), "read".into()));
    }
    s.push(Step::Broker(BrokerAct::Gate { after: r.range(1, 24), blocks: 1 }));
    s.push(Step::Broker(BrokerAct::Send(SPacket::Publish { dup: false, qos: q, retain: r.chance(1, 4), topic: "half/read".into(), pid: if q > 0 { Some(*r.pick(&[1u16, 500])) } else { None }, props: iprops, payload: body })));
    s.push(match r.below(3) {
        0 => Step::Recv { max_wait: 0, cancel_at: None },
        _ => poll0(),
    });
    for _ in 0..r.range(1, 2) {
        s.push(match r.below(9) {
            0 | 1 => Step::Disconnect(DiscSpec { reason: Some(*r.pick(&[0u8, 4])), props: Some(vec![Prop::ReasonString(str_of(r.range(100, 700), r))]), cancel_at: None }),
            2 => pubq(1, "refused/big", 0xB16, r.range(300, 900)),
            3 => pubq(0, "refused/big0", 0xB17, r.range(300, 900)),
            4 => Step::Subscribe(SubSpec { filters: vec![FilterSpec { filter: "refused/#".into(), max_qos: 1, no_local: false, rap: false, rh: 0 }], props: vec![Prop::TopicAlias(3)], cancel_at: None }),
            5 => Step::Unsubscribe(UnsubSpec { filters: vec!["u".repeat(r.range(300, 900))], props: vec![], cancel_at: None }),
            // ... or requests that are served: a QoS 0 publish (encoded in whatever scratch space
            // there is and written at once), a small QoS 1 publish
            6 | 7 => pubq(0, "z", 0xB18, r.range(0, 24)),
            _ => pubq(1, "z1", 0xB19, r.range(0, 8)),
        });
    }
    for _ in 0..3 {
        s.push(poll0());
    }
    s.push(Step::Broker(BrokerAct::Release { n: 9, order: Order::Fifo }));
    for _ in 0..3 {
        s.push(poll0());
    }
    (cfg, s)
}


/// Shared (C02, C05): an unacknowledged request outlives a long run of connection attempts that
/// the broker refuses (CONNACK with a failure code: server busy, quota exceeded) - 254 .. 513 of
/// them - before a connection is accepted with the session present: the request is
/// retransmitted there, once.
pub fn many_refused_handshakes_script(r: &mut Rng, index: u64, _tier: Tier) -> (CaseCfg, Vec<Step>) {
    let cfg = CaseCfg { rx: 128, tx: 512, keepalive: 0, ..CaseCfg::default() };
    let mut s = vec![connect_with(SpMode::Force(false), AckMode::Hold, vec![])];
    for k in 0..r.range(1, 3) {
        s.push(match r.below(4) {
            0 => Step::Subscribe(SubSpec { filters: vec![FilterSpec { filter: "kept/#".into(), max_qos: 1, no_local: false, rap: false, rh: 0 }], props: vec![], cancel_at: None }),
            1 => pubq(2, "kept", k as u32, 2),
            _ => pubq(1, "kept", k as u32, 2),
        });
    }
    // some QoS 2 exchanges get as far as PUBREL
    if r.chance(1, 2) {
        s.push(Step::Broker(BrokerAct::Release { n: 1, order: Order::Fifo }));
        s.push(poll0());
        s.push(poll0());
    }
    s.push(match r.below(3) {
        0 => Step::ForgetConn,
        _ => Step::DropConn,
    });
    let n = [254usize, 255, 256, 257, 511, 512, 513, 3][(index % 8) as usize];
    for _ in 0..n {
        s.push(Step::Connect(ConnectSpec { policy: IoPolicy::default(), faults: vec![], connack: ConnackSpec::Normal { sp: SpMode::Force(false), reason: *r.pick(&[0x88u8, 0x89, 0x97]), props: vec![] }, broker: BrokerPolicy::default(), cancel_at: None }));
        s.push(Step::DropConn);
    }
    s.push(connect_with(SpMode::Force(true), AckMode::Hold, vec![]));
    for _ in 0..4 {
        s.push(poll0());
    }
    s.push(Step::Broker(BrokerAct::Release { n: 99, order: Order::Fifo }));
    for _ in 0..8 {
        s.push(poll0());
    }
    (cfg, s)
}

/// Shared (C04, C14): an inbound QoS 2 exchange is open (delivered, PUBREL withheld) when the
/// connection is lost; the session resumes on a connection whose Maximum Packet Size is too
/// small for a PUBREC, the broker's retransmission therefore ends that connection; the session
/// resumes again without such a limit and the broker retransmits once more: acknowledged, not
/// delivered a second time, and the PUBREL is answered with success.
pub fn redelivery_under_a_tiny_limit_script(r: &mut Rng, _index: u64, _tier: Tier) -> (CaseCfg, Vec<Step>) {
    use crate::refcodec::SPacket;
    let cfg = CaseCfg { rx: 128, tx: 512, keepalive: 0, ..CaseCfg::default() };
    let pid = *r.pick(&[1u16, 5, 255, 256, 65535]);
    let publish = |dup: bool| Step::Broker(BrokerAct::Send(SPacket::Publish { dup, qos: 2, retain: false, topic: "twice".into(), pid: Some(pid), props: vec![], payload: vec![4, 2] }));
    let mut s = vec![connect_with(SpMode::Force(false), AckMode::Immediate, vec![])];
    // other exchanges may be open as well
    let others = r.below(3) as u16;
    for k in 0..others {
        s.push(Step::Broker(BrokerAct::Send(SPacket::Publish { dup: false, qos: 2, retain: false, topic: "other".into(), pid: Some(pid.wrapping_add(10 + k).max(1)), props: vec![], payload: vec![k as u8] })));
        s.push(poll0());
        s.push(poll0());
    }
    s.push(publish(false));
    s.push(poll0());
    s.push(poll0());
    s.push(Step::DropConn);
    for _ in 0..r.range(1, 2) {
        s.push(connect_with(SpMode::Force(true), AckMode::Immediate, vec![Prop::MaximumPacketSize(*r.pick(&[2u32, 3, 4]))]));
        s.push(publish(true));
        s.push(poll0());
        s.push(poll0());
        s.push(Step::DropConn);
    }
    s.push(connect_with(SpMode::Force(true), AckMode::Immediate, vec![]));
    s.push(publish(true));
    s.push(poll0());
    s.push(poll0());
    s.push(Step::Broker(BrokerAct::Send(SPacket::PubRel { pid, reason: None, props: None })));
    for _ in 0..3 {
        s.push(poll0());
    }
    (cfg, s)
}

/// Shared (C12, C09, C01): the session has a will with a long property block (its length needs
/// two bytes) and credentials; unacknowledged packets leave of the transmit arena just about what
/// the CONNECT needs - a few bytes more, exactly that, a few bytes less; the connection is lost and
/// the session connects again (resumed, or on a broker that lost it): the CONNECT goes out whole,
/// from the arena or from the receive buffer, with will and credentials as configured.
pub fn connect_at_the_edge_of_the_arena_script(r: &mut Rng, _index: u64, _tier: Tier) -> (CaseCfg, Vec<Step>) {
    let up = r.range(120, 200);
    let wprops = match r.below(3) {
        0 => vec![Prop::UserProperty("k".into(), "v".repeat(up))],
        1 => vec![Prop::ContentType("c".repeat(up)), Prop::WillDelay(5)],
        _ => vec![Prop::UserProperty("a".into(), "b".repeat(up / 2)), Prop::ResponseTopic("r/".repeat(up / 4))],
    };
    let wlen: usize = crate::refcodec::props_encoded_len(&wprops);
    let wp = r.range(0, 20);
    let will = WillSpec { topic: "will/topic".into(), payload: r.bytes(wp), qos: r.below(3) as u8, retain: r.chance(1, 2), props: wprops };
    let pw = r.range(0, 12);
    let auth = if r.chance(1, 2) { Some(("user".to_string(), r.bytes(pw))) } else { None };
    let client_id = "edge".to_string();
    // CONNECT: fixed header 1 + 2, protocol name 6, level 1, flags 1, keep-alive 2, properties
    // 1 + 5 + 5 + 3, client id 2 + n, will: property length (2) + block, topic 2 + n, payload 2 + n,
    // user name 2 + n, password 2 + n
    let est = 3 + 6 + 1 + 1 + 2 + 14 + 2 + client_id.len() + 2 + wlen + 2 + will.topic.len() + 2 + will.payload.len() + auth.as_ref().map_or(0, |(u, p)| 4 + u.len() + p.len());
    let tx = *r.pick(&[1024usize, 2048]);
    let cfg = CaseCfg { rx: 1024, tx, keepalive: 0, client_id, will: Some(will), auth, ..CaseCfg::default() };
    let mut s = vec![connect_with(SpMode::Force(false), AckMode::Hold, vec![])];
    // one or two unacknowledged packets leave `est + d` bytes
    // (or just about what the CONNECT needs up to the end of the will's property block: the
    // encoder runs out of room in the middle of the packet)
    let upto_will_props = 5 + 10 + 14 + 2 + 4 + 1 + wlen;
    let target = if r.chance(1, 2) { est } else { upto_will_props };
    let leave = (target as i64 + r.below(17) as i64 - 8).max(0) as usize;
    if r.chance(1, 2) {
        s.push(pubq(2, "edge/first", 1, 5));
    }
    let used_so_far = if s.len() > 1 { 1 + 1 + 2 + 10 + 2 + 1 + 5 } else { 0 };
    let fill = tx.saturating_sub(leave + used_so_far + 9);
    s.push(Step::Publish(PubSpec { topic: "k".into(), payload: PayloadSpec::Fill { len: fill, tag: 0xED6E, ascii: false }, qos: 1, retain: false, props: vec![], correlate: None, cancel_at: None }));
    s.push(match r.below(3) {
        0 => Step::ForgetConn,
        _ => Step::DropConn,
    });
    s.push(connect_with(if r.chance(3, 4) { SpMode::Force(true) } else { SpMode::Force(false) }, AckMode::Immediate, vec![]));
    for _ in 0..4 {
        s.push(poll0());
    }
    s.push(pubq(1, "edge/after", 3, 2));
    s.push(poll0());
    s.push(poll0());
    (cfg, s)
}


/// Shared (C01, C02, C17): a transmit arena well above 64 KiB with more than 64 KiB of
/// unacknowledged packets in it (each below 64 KiB): the later ones live at arena offsets that do
/// not fit sixteen bits.  Acknowledged in any order, replayed on a resumed connection.
pub fn arena_above_64k_script(r: &mut Rng, _index: u64, _tier: Tier) -> (CaseCfg, Vec<Step>) {
    let cfg = CaseCfg { rx: 128, tx: *r.pick(&[150_000usize, 300_000]), keepalive: 0, ..CaseCfg::default() };
    let mut s = vec![connect_with(SpMode::Force(false), AckMode::Hold, vec![])];
    let n = r.range(3, 7);
    for k in 0..n {
        let len = r.range(12_000, 40_000);
        s.push(match r.below(4) {
            0 => pubq(2, "big/two", 100 + k as u32, len),
            1 => Step::Subscribe(SubSpec { filters: vec![FilterSpec { filter: "f".repeat(len.min(30_000)), max_qos: 1, no_local: false, rap: false, rh: 0 }], props: vec![], cancel_at: None }),
            _ => pubq(1, "big/one", 100 + k as u32, len),
        });
    }
    s.push(poll0());
    // a few acknowledgements, from the middle of the table
    if r.chance(1, 2) {
        s.push(Step::Broker(BrokerAct::Release { n: r.range(1, 2), order: *r.pick(&[Order::Fifo, Order::Lifo]) }));
        s.push(poll0());
        s.push(poll0());
        s.push(pubq(1, "big/after", 200, r.range(10_000, 30_000)));
    }
    s.push(Step::DropConn);
    s.push(connect_with(SpMode::Force(true), AckMode::Hold, vec![]));
    for _ in 0..n + 3 {
        s.push(poll0());
    }
    s.push(Step::Broker(BrokerAct::Release { n: 99, order: Order::Fifo }));
    for _ in 0..2 * n + 4 {
        s.push(poll0());
    }
    (cfg, s)
}
