//! Adaptive random workload generator. Every choice comes from the seeded PRNG and from
//! state observable at the boundary (plus the snapshot hook), so a (seed, case) pair replays.

use crate::exec::{Driver, View};
use crate::refcodec::{Prop, SPacket};
use crate::rng::Rng;
use crate::steps::*;

#[derive(Clone, Debug)]
pub struct Profile {
    pub name: &'static str,
    // operation weights while the handle is live
    pub w_pub: [u32; 3],
    pub w_sub: u32,
    pub w_unsub: u32,
    pub w_poll: u32,
    pub w_recv: u32,
    pub w_drive: u32,
    /// percentage of histories in which, right after the first connection is up, a QoS 1 publish
    /// sized to leave 0..40 bytes of the transmit arena free is issued under a broker that
    /// withholds acknowledgements: the rest of the history runs on a nearly full arena
    pub fill_arena_pct: u32,
    pub w_disconnect: u32,
    pub w_drop: u32,
    pub w_forget: u32,
    pub w_into_inner: u32,
    pub w_release: u32,
    pub w_bpublish: u32,
    pub w_bstale: u32,
    pub w_bpubrel: u32,
    pub w_bclose: u32,
    pub w_bdisc: u32,
    pub w_braw: u32,
    pub w_advance: u32,
    pub w_io: u32,
    pub w_fault: u32,
    pub w_bpolicy: u32,
    /// the network stalls inside whatever the broker sends next
    pub w_gate: u32,
    /// percent of cancel-safe operations that get a cancel point
    pub cancel_pct: u32,
    /// allow cancelling QoS 0 publishes (documented as not cancel-safe)
    pub cancel_qos0: bool,
    pub hostile_io_pct: u32,
    pub conn_fault_pct: u32,
    pub ack_modes: Vec<AckMode>,
    pub fail_pcts: Vec<u8>,
    pub longform_pcts: Vec<u8>,
    pub ping_modes: Vec<AckMode>,
    /// weights: resume honestly / force sp=1 / force sp=0
    pub sp_w: [u32; 3],
    pub bad_connack_pct: u32,
    pub connect_cancel_pct: u32,
    pub rm_choices: Vec<Option<u16>>,
    pub mps_choices: Vec<Option<u32>>,
    pub maxqos_choices: Vec<Option<u8>>,
    pub ska_choices: Vec<Option<u16>>,
    pub assigned_id_pct: u32,
    pub keepalive_choices: Vec<u16>,
    pub rx_choices: Vec<usize>,
    pub tx_choices: Vec<usize>,
    pub payload_max: usize,
    pub topic_max: usize,
    pub props_pct: u32,
    pub max_conns: usize,
    pub dead_ops_max: usize,
    /// chance (percent) that an operation issued on a dead handle is an invalid request
    pub dead_invalid_pct: u32,
    pub hostile_broker: bool,
    pub will_pct: u32,
    pub auth_pct: u32,
    pub downgrade_pct: u32,
    pub poll_waits: Vec<u64>,
    pub extra_connack_props_pct: u32,
    /// size requests so that the encoded packet lands within +-3 bytes of the broker's limit
    pub near_mps: bool,
    /// inject a Pending before every transport call (every call becomes a cancellation point)
    pub all_pend: bool,
    /// inbound publishes sized around the receive buffer (may exceed it)
    pub inbound_near_rx: bool,
    /// weights of QoS 0/1/2 for broker publishes
    pub bpub_qos_w: [u32; 3],
    /// lower bound on the program length (0 = the check's default)
    pub min_steps: usize,
}

impl Default for Profile {
    fn default() -> Self {
        Profile {
            name: "general",
            w_pub: [6, 10, 10],
            w_sub: 4,
            w_unsub: 3,
            w_poll: 18,
            w_recv: 2,
            w_drive: 6,
            fill_arena_pct: 12,
            w_disconnect: 1,
            w_drop: 2,
            w_forget: 1,
            w_into_inner: 1,
            w_release: 10,
            w_bpublish: 8,
            w_bstale: 2,
            w_bpubrel: 1,
            w_bclose: 1,
            w_bdisc: 1,
            w_braw: 0,
            w_advance: 2,
            w_io: 2,
            w_fault: 2,
            w_bpolicy: 2,
            w_gate: 0,
            cancel_pct: 12,
            cancel_qos0: false,
            hostile_io_pct: 60,
            conn_fault_pct: 25,
            ack_modes: vec![AckMode::Immediate, AckMode::Hold, AckMode::Hold, AckMode::Delay(1000), AckMode::Never],
            fail_pcts: vec![0, 0, 10, 40],
            longform_pcts: vec![0, 30, 100],
            ping_modes: vec![AckMode::Immediate],
            sp_w: [6, 3, 2],
            bad_connack_pct: 12,
            connect_cancel_pct: 6,
            rm_choices: vec![None, None, Some(1), Some(2), Some(3), Some(8), Some(9), Some(65535)],
            // (round limits above 64 KiB restrict nothing here, but their low 16 bits are zero)
            mps_choices: vec![None, None, None, Some(64), Some(200), Some(100_000), Some(65_536), Some(1 << 20)],
            maxqos_choices: vec![None, None, None, Some(0), Some(1)],
            ska_choices: vec![None],
            assigned_id_pct: 10,
            keepalive_choices: vec![0],
            rx_choices: vec![64, 128, 256, 1024],
            tx_choices: vec![64, 128, 256, 512, 2048],
            payload_max: 64,
            topic_max: 12,
            props_pct: 30,
            max_conns: 6,
            dead_ops_max: 3,
            dead_invalid_pct: 0,
            hostile_broker: false,
            will_pct: 10,
            auth_pct: 10,
            downgrade_pct: 30,
            poll_waits: vec![0, 0, 1_000, 1_000_000, 20_000_000],
            extra_connack_props_pct: 15,
            near_mps: false,
            all_pend: false,
            inbound_near_rx: false,
            bpub_qos_w: [1, 1, 1],
            min_steps: 0,
        }
    }
}

pub fn rand_string(rng: &mut Rng, max: usize) -> String {
    let n = rng.range(1, max.max(1));
    let mut s = String::new();
    while s.len() < n {
        match rng.below(20) {
            0 if s.len() + 2 <= n => s.push(*rng.pick(&['ü', 'ü', 'Ā', '߿'])),
            // (code points that are multiples of 256, and the first / last of each UTF-8 length class)
            1 if s.len() + 3 <= n => s.push(*rng.pick(&['日', '日', '一', 'ࠀ', '\u{3000}'])),
            3 if s.len() + 4 <= n && rng.chance(1, 3) => s.push(*rng.pick(&['😀', '\u{10000}'])),
            2 if !s.is_empty() && s.len() + 1 < n => s.push('/'),
            _ => s.push((b'a' + rng.below(26) as u8) as char),
        }
    }
    s
}

pub fn rand_topic(rng: &mut Rng, max: usize) -> String {
    const COMMON: [&str; 4] = ["a", "t/1", "data", "x/y/z"];
    if rng.chance(1, 3) {
        (*rng.pick(&COMMON)).to_string()
    } else {
        rand_string(rng, max)
    }
}

pub fn rand_publish_props(rng: &mut Rng) -> (Vec<Prop>, bool) {
    let mut props = Vec::new();
    let mut ascii = false;
    let n = rng.below(5);
    let mut menu: Vec<u8> = vec![0x01, 0x02, 0x03, 0x08, 0x09];
    rng.shuffle(&mut menu);
    for id in menu.into_iter().take(n) {
        props.push(match id {
            0x01 => {
                let v = rng.below(2) as u8;
                ascii = v == 1;
                Prop::PayloadFormat(v)
            }
            0x02 => Prop::MessageExpiry(*rng.pick(&[0u32, 1, 60, 255, 256, 65535, 65536, 0x7fff_ffff, 0x8000_0000, u32::MAX])),
            0x03 => Prop::ContentType(if rng.chance(1, 10) { String::new() } else if rng.chance(1, 12) { "c".repeat(*rng.pick(&[127usize, 128, 129])) } else { rand_string(rng, 10) }),
            0x08 => Prop::ResponseTopic(rand_topic(rng, 10)),
            _ => {
                let n = if rng.chance(1, 12) { *rng.pick(&[127usize, 128, 255, 256]) } else { rng.below(9) };
                Prop::CorrelationData(rng.bytes(n))
            }
        });
    }
    for _ in 0..rng.below(3) {
        let at = rng.below(props.len() + 1);
        let (k, v) = if rng.chance(1, 10) { (String::new(), String::new()) } else { (rand_string(rng, 5), rand_string(rng, 6)) };
        props.insert(at, Prop::UserProperty(k, v));
    }
    (props, ascii)
}

pub fn rand_server_publish_props(rng: &mut Rng) -> (Vec<Prop>, bool) {
    let (mut p, ascii) = rand_publish_props(rng);
    for _ in 0..rng.below(3) {
        if rng.chance(1, 2) {
            let at = rng.below(p.len() + 1);
            p.insert(at, Prop::SubscriptionId(*rng.pick(&[1u32, 63, 64, 127, 128, 16383, 16384, 2_097_151, 2_097_152, 268_435_455])));
        }
    }
    (p, ascii)
}

pub fn rand_policy(rng: &mut Rng, hostile: bool) -> IoPolicy {
    if !hostile {
        return IoPolicy::default();
    }
    let pend = |rng: &mut Rng| *rng.pick(&[Pend::Never, Pend::Never, Pend::Always, Pend::Pct(30)]);
    IoPolicy {
        write: *rng.pick(&[Chunk::All, Chunk::One, Chunk::Rand, Chunk::AltOneAll, Chunk::AllButOne, Chunk::Fixed(3)]),
        read: *rng.pick(&[Chunk::All, Chunk::One, Chunk::Rand, Chunk::AltOneAll, Chunk::Fixed(2)]),
        pend_write: pend(rng),
        pend_flush: pend(rng),
        pend_read: pend(rng),
        read_chunks: vec![],
        slow_write_us: 0,
    }
}

pub fn rand_fault(rng: &mut Rng, horizon: usize) -> FaultPlan {
    let at = match rng.below(5) {
        0 => FaultAt::Io(rng.below(horizon)),
        1 => FaultAt::Write(rng.below(horizon / 2 + 1)),
        2 => FaultAt::Read(rng.below(horizon / 2 + 1)),
        3 => FaultAt::Flush(rng.below(horizon / 3 + 1)),
        _ => FaultAt::OutBytes(rng.below(horizon * 8)),
    };
    let kind = match rng.below(9) {
        // a write answered Ok(0): the call reports WriteZero, the handle stays up and the
        // application carries on with it (for a read or a flush this degrades to an error)
        8 => FaultKind::WriteZero,
        0 => FaultKind::Eof,
        1 => FaultKind::Error(ErrKind::TimedOut),
        2 => FaultKind::Error(ErrKind::Interrupted),
        3 => FaultKind::Error(ErrKind::BrokenPipe),
        4 => FaultKind::Error(ErrKind::Other),
        5 => FaultKind::Error(ErrKind::WriteZero),
        _ => FaultKind::Error(ErrKind::ConnectionReset),
    };
    FaultPlan { at, kind }
}

pub fn gen_cfg(rng: &mut Rng, p: &Profile) -> CaseCfg {
    let will = rng.chance(p.will_pct, 100).then(|| {
        let (mut props, _) = rand_publish_props(rng);
        props.retain(|p| !matches!(p, Prop::PayloadFormat(1)));
        // Will Delay Interval, the one property only a will may carry
        if rng.chance(1, 3) {
            props.push(Prop::WillDelay(*rng.pick(&[0u32, 5, 65536, u32::MAX])));
        }
        WillSpec {
            topic: rand_topic(rng, 20),
            payload: { let n = rng.below(20); rng.bytes(n) },
            qos: rng.below(3) as u8,
            retain: rng.chance(1, 2),
            props,
        }
    });
    let auth = rng.chance(p.auth_pct, 100).then(|| (rand_string(rng, 8), { let n = rng.below(10); rng.bytes(n) }));
    CaseCfg {
        rx: *rng.pick(&p.rx_choices),
        tx: *rng.pick(&p.tx_choices),
        client_id: if rng.chance(1, 8) { String::new() } else { rand_string(rng, 12) },
        keepalive: *rng.pick(&p.keepalive_choices),
        session_expiry: *rng.pick(&[0u32, 1, 3600, u32::MAX]),
        downgrade: rng.chance(p.downgrade_pct, 100),
        will,
        auth,
    }
}

pub struct Gen {
    pub rng: Rng,
    pub p: Profile,
    pub tag: u32,
    pub conns: usize,
    dead_ops: usize,
    was_live: bool,
    pub next_spid: u16,
    /// an AfterNextConnack step was just issued: the next step is the Connect
    pub pipelined_armed: bool,
    pub steps_left: usize,
    /// sweep support: inject this fault into the n-th connection (0-based)
    pub forced_fault: Option<(usize, FaultPlan)>,
    /// sweep support: cancel the n-th emitted step (if cancel-safe) at its k-th Pending
    pub forced_cancel: Option<(usize, usize)>,
    emitted: usize,
    /// 0 = not decided, 1 = hold the acknowledgements first, 2 = issue the filler, 3 = done / off
    fill_stage: u8,
    fill_then_qos0: bool,
    fill_wait: usize,
}

impl Gen {
    pub fn new(seed: u64, p: Profile) -> Self {
        Gen { rng: Rng::new(seed), p, tag: 0, conns: 0, dead_ops: 0, was_live: false, next_spid: 1, pipelined_armed: false, steps_left: 60, forced_fault: None, forced_cancel: None, emitted: 0, fill_stage: 0, fill_then_qos0: false, fill_wait: 0 }
    }

    fn cancel(&mut self) -> Option<usize> {
        if self.rng.chance(self.p.cancel_pct, 100) {
            Some(1 + self.rng.below(6))
        } else {
            None
        }
    }

    pub fn connect_spec(&mut self, v: &View<'_>) -> ConnectSpec {
        let p = self.p.clone();
        let rng = &mut self.rng;
        let clean_start = !v.snap.session_present;
        let mut props = Vec::new();
        if let Some(rm) = rng.pick(&p.rm_choices) {
            props.push(Prop::ReceiveMaximum(*rm));
        }
        if let Some(m) = rng.pick(&p.mps_choices) {
            props.push(Prop::MaximumPacketSize(*m));
        }
        if let Some(q) = rng.pick(&p.maxqos_choices) {
            props.push(Prop::MaximumQoS(*q));
        }
        if let Some(k) = rng.pick(&p.ska_choices) {
            props.push(Prop::ServerKeepAlive(*k));
        }
        if rng.chance(p.assigned_id_pct, 100) {
            // (a broker may repeat the identifier it assigned earlier)
            match &v.world.session.assigned_id {
                Some(id) if rng.chance(1, 2) => props.push(Prop::AssignedClientId(id.clone())),
                _ => props.push(Prop::AssignedClientId(rand_string(rng, 16))),
            }
        }
        if rng.chance(p.extra_connack_props_pct, 100) {
            props.push(Prop::TopicAliasMaximum(rng.below(10) as u16));
            props.push(Prop::RetainAvailable(1));
            props.push(Prop::UserProperty("srv".into(), rand_string(rng, 6)));
            props.push(Prop::SessionExpiry(*rng.pick(&[0u32, 0, 60, u32::MAX])));
            props.push(Prop::WildcardSubAvailable(1));
            props.push(Prop::ReasonString("ok".into()));
        }
        rng.shuffle(&mut props);
        let sp = if clean_start && !p.hostile_broker {
            if rng.chance(1, 2) { SpMode::Honest } else { SpMode::Force(false) }
        } else {
            match rng.weighted(&p.sp_w) {
                0 => SpMode::Honest,
                1 => SpMode::Force(true),
                _ => SpMode::Force(false),
            }
        };
        let connack = if rng.chance(p.bad_connack_pct, 100) {
            match rng.below(8) {
                // reason 0 but properties the client must refuse: the fresh/resumed answer has
                // already been given when the handshake fails
                6 | 7 => ConnackSpec::Normal {
                    sp: if clean_start { SpMode::Force(false) } else { sp.clone() },
                    reason: 0,
                    props: {
                        let bad = match rng.below(3) {
                            0 => Prop::ReceiveMaximum(0),
                            1 => Prop::MaximumQoS(3),
                            _ => Prop::AssignedClientId("x".repeat(70)),
                        };
                        // half of the time acceptable properties come first: nothing of a CONNACK
                        // that is refused in the end may stick (an assigned identifier, limits)
                        if !matches!(bad, Prop::AssignedClientId(_)) && rng.chance(1, 2) {
                            let mut v = vec![Prop::AssignedClientId(rand_string(rng, 12)), Prop::ServerKeepAlive(*rng.pick(&[0u16, 7, 3600])), Prop::MaximumPacketSize(*rng.pick(&[20u32, 64, 100_000]))];
                            rng.shuffle(&mut v);
                            v.truncate(1 + rng.below(3));
                            v.push(bad);
                            v
                        } else {
                            vec![bad]
                        }
                    },
                },
                0 => ConnackSpec::Normal { sp: SpMode::Force(false), reason: *rng.pick(&[0x80u8, 0x85, 0x87, 0x88, 0x89, 0x9F]), props: vec![] },
                1 => ConnackSpec::Raw({ let n = rng.range(1, 12); rng.bytes(n) }),
                2 => ConnackSpec::Disconnect(*rng.pick(&[0x80u8, 0x89, 0x8B, 0x9C])),
                3 => ConnackSpec::Eof,
                4 => ConnackSpec::Silent,
                _ => ConnackSpec::Raw(vec![0x20, 0x03, 0x00]),
            }
        } else {
            ConnackSpec::Normal { sp, reason: 0, props }
        };
        let hostile = rng.chance(p.hostile_io_pct, 100);
        let mut policy = rand_policy(rng, hostile);
        if p.all_pend {
            policy.pend_write = Pend::Always;
            policy.pend_flush = Pend::Always;
            policy.pend_read = Pend::Always;
        }
        let mut faults = Vec::new();
        if rng.chance(p.conn_fault_pct, 100) {
            faults.push(rand_fault(rng, 60));
        }
        if let Some((ord, f)) = self.forced_fault {
            if ord + 1 == self.conns {
                faults.push(f);
            }
        }
        let broker = BrokerPolicy {
            acks: *rng.pick(&p.ack_modes),
            ping: *rng.pick(&p.ping_modes),
            fail_pct: *rng.pick(&p.fail_pcts),
            longform_pct: *rng.pick(&p.longform_pcts),
        };
        let cancel_at = rng.chance(p.connect_cancel_pct, 100).then(|| 1 + rng.below(8));
        ConnectSpec { policy, faults, connack, broker, cancel_at }
    }

    pub fn pub_spec(&mut self, qos: u8, v: &View<'_>) -> PubSpec {
        // QoS the client will really use (auto-downgrade): QoS 0 is not cancel-safe
        let eff_qos = match (v.log.cfg.downgrade, v.snap.max_qos) {
            (true, Some(m)) => qos.min(m),
            _ => qos,
        };
        self.tag += 1;
        let p = &self.p;
        let rng = &mut self.rng;
        let (props, ascii) = if rng.chance(p.props_pct, 100) { rand_publish_props(rng) } else { (vec![], false) };
        let mut len = match rng.below(10) {
            0 => 0,
            1 => p.payload_max,
            _ => rng.below(p.payload_max + 1),
        };
        let topic = rand_topic(rng, p.topic_max);
        if p.near_mps {
            if let Some(m) = v.snap.maximum_packet_size.filter(|m| *m < 20_000) {
                let body = 2 + topic.len() + if eff_qos > 0 { 2 } else { 0 } + crate::refcodec::props_encoded_len(&props);
                let target = (m as i64 + rng.range(0, 6) as i64 - 3).max(2) as usize;
                // total = 1 + varint(body + len) + body + len
                let mut best = 0usize;
                for l in 0..=target {
                    let rl = body + l;
                    if 1 + crate::refcodec::varint_len(rl as u32) + rl <= target {
                        best = l;
                    }
                }
                len = best;
            }
        }
        let cancel_at = if eff_qos > 0 || p.cancel_qos0 {
            rng.chance(p.cancel_pct, 100).then(|| 1 + rng.below(6))
        } else {
            None
        };
        let correlate = rng.chance(1, 10).then(|| { let n = rng.below(6); rng.bytes(n) });
        let mut props = props;
        if correlate.is_some() {
            // one Correlation Data per PUBLISH: the application must not supply it twice
            props.retain(|p| !matches!(p, Prop::CorrelationData(_)));
        }
        let correlate = if p.near_mps { None } else { correlate };
        // one publish in forty is refused locally by its own payload closure (it fails, or claims
        // far more bytes than any buffer holds): the application carries on with the connection
        let payload = match rng.below(80) {
            0 => PayloadSpec::Fail,
            1 => PayloadSpec::Lie { claim: 10_000_000 },
            _ => PayloadSpec::Fill { len, tag: self.tag, ascii },
        };
        PubSpec {
            topic,
            payload,
            qos,
            retain: rng.chance(1, 5),
            props,
            correlate,
            cancel_at,
        }
    }

    pub fn sub_spec(&mut self) -> SubSpec {
        let cancel_at = self.cancel();
        let rng = &mut self.rng;
        let n = rng.range(1, 3);
        let filters = (0..n)
            .map(|_| FilterSpec {
                filter: if rng.chance(1, 4) { format!("{}/#", rand_string(rng, 5)) } else { rand_topic(rng, 10) },
                max_qos: rng.below(3) as u8,
                no_local: rng.chance(1, 3),
                rap: rng.chance(1, 3),
                rh: rng.below(3) as u8,
            })
            .collect();
        let mut props = Vec::new();
        if rng.chance(self.p.props_pct, 100) {
            if rng.chance(1, 2) {
                props.push(Prop::SubscriptionId(*rng.pick(&[1u32, 63, 64, 127, 128, 16383, 16384, 2_097_151, 2_097_152, 268_435_455])));
            }
            for _ in 0..rng.below(3) {
                props.push(Prop::UserProperty(rand_string(rng, 4), rand_string(rng, 4)));
            }
        }
        let mut filters: Vec<FilterSpec> = filters;
        // now and then the packet is padded so that its remaining length sits at the one-byte /
        // two-byte boundary of the length encoding
        if rng.chance(1, 10) {
            let pl = 1 + crate::refcodec::props_encoded_len(&props);
            let rl = 2 + pl + filters.iter().map(|f| 2 + f.filter.len() + 1).sum::<usize>();
            let target = *rng.pick(&[125usize, 126, 127, 128, 129]);
            if rl < target {
                let pad = "p".repeat(target - rl);
                filters[0].filter = format!("{}{}", pad, filters[0].filter);
            }
        }
        SubSpec { filters, props, cancel_at }
    }

    pub fn unsub_spec(&mut self) -> UnsubSpec {
        let cancel_at = self.cancel();
        let rng = &mut self.rng;
        let n = rng.range(1, 3);
        let filters = (0..n).map(|_| rand_topic(rng, 10)).collect();
        let mut props = Vec::new();
        if rng.chance(self.p.props_pct, 100) {
            for _ in 0..rng.range(1, 2) {
                props.push(Prop::UserProperty(rand_string(rng, 4), rand_string(rng, 4)));
            }
        }
        let mut filters: Vec<String> = filters;
        if rng.chance(1, 10) {
            let pl = 1 + crate::refcodec::props_encoded_len(&props);
            let rl = 2 + pl + filters.iter().map(|f| 2 + f.len()).sum::<usize>();
            let target = *rng.pick(&[125usize, 126, 127, 128, 129]);
            if rl < target {
                filters[0] = format!("{}{}", "p".repeat(target - rl), filters[0]);
            }
        }
        UnsubSpec { filters, props, cancel_at }
    }

    /// A PUBLISH from the broker that respects the client's Receive Maximum (8) and rx size.
    pub fn broker_publish(&mut self, v: &View<'_>) -> Option<SPacket> {
        let rx = v.log.cfg.rx;
        let hostile = self.p.hostile_broker;
        let rng = &mut self.rng;
        let session = &v.world.session;
        let qos = rng.weighted(&self.p.bpub_qos_w) as u8;
        let inflight = session.s2c.len();
        let mut dup = false;
        let pid = if qos == 0 {
            None
        } else {
            // sometimes retransmit an unacknowledged QoS 2 publish (same id, DUP set)
            let resend: Vec<u16> = session.s2c.iter().filter(|(_, ph)| **ph == 2).map(|(p, _)| *p).collect();
            if qos == 2 && !resend.is_empty() && rng.chance(1, 3) {
                dup = true;
                Some(*rng.pick(&resend))
            } else {
                // the broker uses the window the client asked for in its CONNECT, all of it
                let window = v
                    .world
                    .conns
                    .last()
                    .and_then(|c| c.out.packets.first())
                    .and_then(|p| match &p.pkt {
                        crate::refcodec::CPacket::Connect { props, .. } => props.iter().find_map(|p| if let Prop::ReceiveMaximum(m) = p { Some(*m as usize) } else { None }),
                        _ => None,
                    })
                    .unwrap_or(8);
                if inflight >= window && !hostile {
                    return None;
                }
                let mut pid = self.next_spid;
                for _ in 0..70000 {
                    if pid != 0 && !session.s2c.contains_key(&pid) {
                        break;
                    }
                    pid = pid.wrapping_add(1);
                }
                self.next_spid = pid.wrapping_add(1).max(1);
                if rng.chance(1, 10) {
                    self.next_spid = *rng.pick(&[1u16, 255, 256, 65535]);
                }
                Some(pid)
            }
        };
        let (mut props, ascii) = if rng.chance(self.p.props_pct, 100) { rand_server_publish_props(rng) } else { (vec![], false) };
        if rx >= 70_000 && rng.chance(1, 2) {
            // a property block around and beyond 64 KiB
            props.retain(|p| !matches!(p, Prop::CorrelationData(_) | Prop::ContentType(_)));
            match rng.below(3) {
                0 => props.push(Prop::CorrelationData(vec![0xC4; *rng.pick(&[65_530usize, 65_533, 65_534, 65_535])])),
                1 => props.push(Prop::ContentType("t".repeat(*rng.pick(&[65_530usize, 65_533, 65_535])))),
                _ => props.push(Prop::UserProperty("a".repeat(40_000), "b".repeat(26_000))),
            }
        }
        let topic = rand_topic(rng, self.p.topic_max);
        self.tag += 1;
        let overhead = 2 + 2 + topic.len() + 2 + crate::refcodec::props_encoded_len(&props) + 4;
        if overhead > rx {
            return None;
        }
        let room = rx - overhead;
        let mut len = match rng.below(8) {
            0 => room,
            1 => 0,
            _ => rng.below(room.min(self.p.payload_max) + 1),
        };
        if self.p.inbound_near_rx && rng.chance(1, 2) {
            // encoded size within rx-2 ..= rx+2
            len = (room + 4 + rng.below(5)).saturating_sub(2 + 4);
        }
        let exact = len == room && !self.p.inbound_near_rx;
        if exact {
            len = room + 6;
        }
        let mut pkt = SPacket::Publish {
            dup,
            qos,
            retain: rng.chance(1, 4),
            topic,
            pid,
            props,
            payload: fill(self.tag | 0x8000_0000, len, ascii),
        };
        if exact {
            // the largest payload with which the packet still fits: total length == rx wherever possible
            while crate::refcodec::encode_server(&pkt).len() > rx {
                if let SPacket::Publish { payload, .. } = &mut pkt {
                    payload.pop();
                }
            }
        }
        if crate::refcodec::encode_server(&pkt).len() > rx && !self.p.inbound_near_rx {
            return None;
        }
        Some(pkt)
    }

    fn live_step(&mut self, v: &View<'_>) -> Step {
        // an application that gave up on a disconnect() usually lets go of the handle next
        if v.log.ops.last().is_some_and(|o| o.kind == "disconnect" && o.outcome == crate::exec::Outcome::Cancelled) && self.rng.chance(1, 2) {
            return match self.rng.below(3) {
                0 => Step::ForgetConn,
                1 => Step::IntoInner,
                _ => Step::DropConn,
            };
        }
        let p = self.p.clone();
        let cur = v.world.conns.last().unwrap();
        let held = cur.held.len();
        let w = [
            p.w_pub[0], p.w_pub[1], p.w_pub[2], p.w_sub, p.w_unsub, p.w_poll, p.w_recv, p.w_drive,
            p.w_disconnect, p.w_drop, p.w_forget, p.w_into_inner,
            if held > 0 { p.w_release } else { 0 },
            p.w_bpublish, p.w_bstale, p.w_bpubrel, p.w_bclose, p.w_bdisc, p.w_braw, p.w_advance, p.w_io,
            p.w_fault, p.w_bpolicy, p.w_gate,
        ];
        let pick = self.rng.weighted(&w);
        let rng = &mut self.rng;
        match pick {
            0 | 1 | 2 => Step::Publish(self.pub_spec(pick as u8, v)),
            3 => Step::Subscribe(self.sub_spec()),
            4 => Step::Unsubscribe(self.unsub_spec()),
            5 => Step::Poll { max_wait: *rng.pick(&p.poll_waits), cancel_at: self.cancel() },
            6 => Step::Recv { max_wait: *rng.pick(&p.poll_waits), cancel_at: self.cancel() },
            7 => Step::Drive { cancel_at: self.cancel() },
            8 => {
                let cancel_at = self.cancel();
                let rng = &mut self.rng;
                // plain, with a reason code, with properties (the builder then fills in the reason), or both
                let props = match rng.below(7) {
                    6 => Some(vec![Prop::ServerReference(rand_string(rng, 6)), Prop::ReasonString(rand_string(rng, 3))]),
                    0 => Some(vec![Prop::ReasonString(rand_string(rng, 6))]),
                    1 => Some(vec![Prop::UserProperty(rand_string(rng, 3), rand_string(rng, 3))]),
                    2 => Some(vec![]),
                    _ => None,
                };
                Step::Disconnect(DiscSpec {
                    reason: *rng.pick(&[None, None, Some(0u8), Some(4), Some(0x80)]),
                    props,
                    cancel_at,
                })
            }
            9 => Step::DropConn,
            10 => Step::ForgetConn,
            11 => Step::IntoInner,
            12 => Step::Broker(BrokerAct::Release {
                n: 1 + rng.below(held),
                order: match rng.below(3) {
                    0 => Order::Fifo,
                    1 => Order::Lifo,
                    _ => Order::Shuffle(rng.next()),
                },
            }),
            13 => match self.broker_publish(v) {
                Some(pk) => Step::Broker(BrokerAct::Send(pk)),
                None => Step::Poll { max_wait: 0, cancel_at: None },
            },
            14 => {
                // stale / duplicate acknowledgement. A conformant broker never acknowledges an
                // identifier with the wrong packet type, so (unless hostile) only identifiers that
                // are not in flight are used, plus duplicate PUBRECs for exchanges in release.
                let inflight: Vec<u16> = v.snap.tx.retained.iter().chain(v.snap.tx.release.iter()).map(|e| e.packet_id).collect();
                let in_release: Vec<u16> = v.snap.tx.release.iter().map(|e| e.packet_id).collect();
                if !p.hostile_broker && !in_release.is_empty() && rng.chance(1, 3) {
                    Step::Broker(BrokerAct::Send(SPacket::ack(5, *rng.pick(&in_release), 0)))
                } else {
                    let kind = *rng.pick(&[4u8, 5, 7, 9, 11]);
                    // identifiers behind the allocation counter cannot be handed out again before a
                    // wrap, so an acknowledgement for one of them stays stale however late it is read
                    let behind = v.snap.next_packet_id.saturating_sub(1);
                    let mut pid = if behind >= 1 { 1 + rng.below(behind as usize) as u16 } else { 0 };
                    if p.hostile_broker {
                        pid = match rng.below(3) {
                            0 => inflight.first().copied().unwrap_or(1),
                            1 => v.snap.next_packet_id,
                            _ => pid.max(1),
                        };
                    } else if pid == 0 || inflight.contains(&pid) {
                        return Step::Poll { max_wait: 0, cancel_at: None };
                    }
                    let pkt = match kind {
                        9 => SPacket::SubAck { pid, props: vec![], codes: vec![0] },
                        11 => SPacket::UnsubAck { pid, props: vec![], codes: vec![0] },
                        k => SPacket::ack(k, pid, *rng.pick(&[0u8, 0, 0x80])),
                    };
                    Step::Broker(BrokerAct::Send(pkt))
                }
            }
            15 => {
                let pid = if rng.chance(1, 2) {
                    v.snap.pending_server_packet_ids.first().copied().unwrap_or(9)
                } else {
                    1 + rng.below(20) as u16
                };
                // short form, or the long form with a reason code (0x92 = the broker no longer knows the identifier)
                let reason = *rng.pick(&[None, None, Some(0u8), Some(0x92)]);
                let props = if reason.is_some() && rng.chance(1, 2) { Some(vec![]) } else { None };
                Step::Broker(BrokerAct::Send(SPacket::PubRel { pid, reason, props }))
            }
            16 => Step::Broker(BrokerAct::Close),
            17 => {
                // short form, reason only, or the long form with properties
                let reason = rng.chance(2, 3).then(|| *rng.pick(&[0x8Bu8, 0x8E, 0x98, 0x00, 0x04, 0x81, 0x9D]));
                let props = match (reason, rng.below(4)) {
                    (Some(_), 0) => Some(vec![]),
                    (Some(_), 1) => Some(vec![Prop::ReasonString(rand_string(rng, 8))]),
                    (Some(_), 2) => Some(vec![Prop::ServerReference("other:1883".into()), Prop::UserProperty("k".into(), "v".into())]),
                    _ => None,
                };
                Step::Broker(BrokerAct::Send(SPacket::Disconnect { reason, props }))
            }
            // malformed broker data: random bytes, or a well-formed packet that has no business
            // on an established connection (a second CONNACK)
            18 if rng.chance(1, 3) => Step::Broker(BrokerAct::Send(SPacket::ConnAck { sp: rng.chance(1, 2), reason: *rng.pick(&[0u8, 0, 0x80]), props: vec![] })),
            18 => Step::Broker(BrokerAct::SendRaw({ let n = rng.range(1, 10); rng.bytes(n) })),
            19 => Step::Advance(*rng.pick(&[1u64, 1000, 1_000_000, 30_000_000])),
            20 => Step::Io { policy: Some(rand_policy(rng, true)), faults: vec![] },
            21 => Step::Io { policy: None, faults: vec![rand_fault(rng, cur.n_io + 20)] },
            22 => Step::Broker(BrokerAct::Policy(BrokerPolicy {
                acks: *rng.pick(&p.ack_modes),
                ping: *rng.pick(&p.ping_modes),
                fail_pct: *rng.pick(&p.fail_pcts),
                longform_pct: *rng.pick(&p.longform_pcts),
            })),
            _ => Step::Broker(BrokerAct::Gate { after: *rng.pick(&[0usize, 1, 2, 3, 5, 8, 13, 40]), blocks: 1 + rng.below(2) as u8 }),
        }
    }
}

impl Driver for Gen {
    fn next(&mut self, v: &View<'_>) -> Option<Step> {
        let mut s = self.next_inner(v)?;
        let n = self.emitted;
        self.emitted += 1;
        if let Some((ord, at)) = self.forced_cancel {
            if ord == n {
                let eff0 = matches!(&s, Step::Publish(p) if p.qos == 0 || (v.log.cfg.downgrade && v.snap.max_qos == Some(0)));
                match &mut s {
                    Step::Publish(p) if !eff0 => p.cancel_at = Some(at),
                    Step::Subscribe(p) => p.cancel_at = Some(at),
                    Step::Unsubscribe(p) => p.cancel_at = Some(at),
                    Step::Disconnect(p) => p.cancel_at = Some(at),
                    Step::Connect(p) => p.cancel_at = Some(at),
                    Step::Poll { cancel_at, .. } | Step::Recv { cancel_at, .. } | Step::Drive { cancel_at } => *cancel_at = Some(at),
                    _ => {}
                }
            }
        }
        Some(s)
    }
}

impl Gen {
    fn next_inner(&mut self, v: &View<'_>) -> Option<Step> {
        if self.steps_left == 0 {
            return None;
        }
        self.steps_left -= 1;
        if !v.has_handle {
            self.was_live = false;
            if self.conns >= self.p.max_conns {
                return None;
            }
            if self.rng.chance(1, 12) {
                return Some(Step::Advance(*self.rng.pick(&[1u64, 1_000_000, 100_000_000])));
            }
            // one later connection in six: the broker has a message or two queued for the client
            // and sends them in the same segment as the CONNACK
            if self.conns >= 1 && !self.pipelined_armed && self.p.w_bpublish > 0 && !self.p.hostile_broker && self.rng.chance(1, 6) {
                let mut q = Vec::new();
                for _ in 0..self.rng.range(1, 2) {
                    if let Some(pk) = self.broker_publish(v) {
                        if !matches!(&pk, crate::refcodec::SPacket::Publish { dup: true, .. }) {
                            q.push(pk);
                        }
                    }
                }
                if !q.is_empty() {
                    self.pipelined_armed = true;
                    self.steps_left += 1;
                    return Some(Step::Broker(BrokerAct::AfterNextConnack(q)));
                }
            }
            self.pipelined_armed = false;
            self.conns += 1;
            return Some(Step::Connect(self.connect_spec(v)));
        }
        if !v.is_connected {
            if self.was_live {
                self.was_live = false;
                self.dead_ops = self.rng.below(self.p.dead_ops_max + 1);
            }
            if self.dead_ops == 0 {
                return Some(match self.rng.below(4) {
                    0 => Step::ForgetConn,
                    1 => Step::IntoInner,
                    _ => Step::DropConn,
                });
            }
            self.dead_ops -= 1;
            // operations on a dead handle (must fail fast) - also requests that a live handle
            // would refuse as invalid: the dead handle answers first
            if self.rng.chance(self.p.dead_invalid_pct, 100) {
                let bad = match self.rng.below(4) {
                    0 => Prop::ServerReference("x".into()),
                    1 => Prop::TopicAlias(0),
                    2 => Prop::SubscriptionId(0),
                    _ => Prop::ReceiveMaximum(5),
                };
                let qos = self.rng.below(3) as u8;
                return Some(match self.rng.below(5) {
                    0 | 1 => Step::Publish(PubSpec { topic: "dead/invalid".into(), payload: PayloadSpec::Fill { len: 2, tag: 0xDEAD, ascii: false }, qos, retain: false, props: vec![bad], correlate: None, cancel_at: None }),
                    2 => Step::Subscribe(SubSpec { filters: if self.rng.chance(1, 2) { vec![] } else { vec![FilterSpec { filter: "dead/#".into(), max_qos: 1, no_local: false, rap: false, rh: 0 }] }, props: vec![bad], cancel_at: None }),
                    3 => Step::Unsubscribe(UnsubSpec { filters: if self.rng.chance(1, 2) { vec![] } else { vec!["dead".into()] }, props: vec![bad], cancel_at: None }),
                    _ => Step::Disconnect(DiscSpec { reason: Some(0), props: Some(vec![bad]), cancel_at: None }),
                });
            }
            let s = self.live_step(v);
            return Some(match s {
                Step::DropConn | Step::ForgetConn | Step::IntoInner | Step::Broker(_) | Step::Io { .. } | Step::Advance(_) => {
                    Step::Poll { max_wait: 0, cancel_at: None }
                }
                s => s,
            });
        }
        self.was_live = true;
        // the arena filler (see `Profile::fill_arena_pct`)
        if self.fill_stage == 0 {
            // (right away, or a few operations into the first connection: then the arena fills up
            // next to packets and exchanges that are already under way)
            self.fill_stage = if self.conns == 1 && self.rng.chance(self.p.fill_arena_pct, 100) { 1 } else { 3 };
            self.fill_wait = if self.rng.chance(1, 2) { 0 } else { self.rng.below(10) };
        }
        if self.fill_stage == 1 && self.fill_wait > 0 && self.conns == 1 {
            self.fill_wait -= 1;
            return Some(self.live_step(v));
        }
        if self.fill_stage == 1 {
            self.fill_stage = 2;
            return Some(Step::Broker(BrokerAct::Policy(BrokerPolicy { acks: AckMode::Hold, ping: AckMode::Immediate, fail_pct: 0, longform_pct: 0 })));
        }
        if self.fill_stage == 2 {
            self.fill_stage = 3;
            let tx = v.snap.tx.capacity.saturating_sub(v.snap.tx.retained.iter().map(|e| e.len).sum::<usize>());
            // (one filler in three leaves just over 128 bytes and is followed by a QoS 0 publish of
            // about that size: a packet whose Remaining Length needs two bytes, encoded in a gap
            // that just holds it)
            let roomy = self.rng.chance(1, 3);
            let leave = if roomy { self.rng.range(127, 135) } else { self.rng.below(41) };
            self.fill_then_qos0 = roomy;
            // PUBLISH "f": 1 + remaining-length bytes + 2 + 1 (topic) + 2 (identifier) + 1 (property length) + payload
            let total = tx.saturating_sub(leave);
            let rlb = if total >= 16_384 + 4 { 3 } else if total >= 128 + 3 { 2 } else { 1 };
            let overhead = 1 + rlb + 3 + 2 + 1;
            let fits_limit = v.snap.maximum_packet_size.is_none_or(|m| total <= m as usize);
            if total > overhead && total <= 70_000 && fits_limit && v.can_publish[1] {
                self.tag += 1;
                return Some(Step::Publish(PubSpec { topic: "f".into(), payload: PayloadSpec::Fill { len: total - overhead, tag: self.tag, ascii: false }, qos: 1, retain: false, props: vec![], correlate: None, cancel_at: None }));
            }
        }
        if self.fill_then_qos0 {
            self.fill_then_qos0 = false;
            self.tag += 1;
            let len = self.rng.range(118, 131);
            return Some(Step::Publish(PubSpec { topic: "g".into(), payload: PayloadSpec::Fill { len, tag: self.tag, ascii: false }, qos: 0, retain: false, props: vec![], correlate: None, cancel_at: None }));
        }
        Some(self.live_step(v))
    }
}

/// Benign continuation appended to any program: reconnect over a healthy transport to a
/// conformant, immediately answering broker without restrictive limits, then poll until idle.
pub struct WithEpilogue<D> {
    pub inner: D,
    stage: u8,
    polls: usize,
    pub max_polls: usize,
    pub from_step: Option<usize>,
    /// after going idle: subscribe, publish QoS 1 and receive an inbound QoS 1 publish
    pub round_trip: bool,
    /// a behaving broker may still announce limits: one continuation in three announces the
    /// smallest Maximum Packet Size under which everything the session holds still fits
    pub tight_limits: bool,
    /// the broker has lost the session: the continuation's CONNACK reports no session
    pub force_fresh: bool,
    /// (with `force_fresh`) Receive Maximum of the continuation = what the old session had in flight
    pub fresh_small_window: bool,
    /// on a resumed continuation the broker does what MQTT 5 requires of it [MQTT-4.4.0-1]: it
    /// sends again, DUP set, every QoS 1 / QoS 2 PUBLISH the client has not acknowledged, and
    /// the PUBREL of every exchange that waits for PUBCOMP
    pub redeliver: bool,
    /// the connection the history ends on is still up: transport and broker start behaving on
    /// it and the application goes on polling there (every other history), before the usual
    /// "drop the handle, connect again"
    pub stay_first: bool,
    pub stay_from: Option<usize>,
    stay_polls: usize,
    pre: std::collections::VecDeque<Step>,
    rt: std::collections::VecDeque<Step>,
}

impl<D> WithEpilogue<D> {
    pub fn new(inner: D, max_polls: usize) -> Self {
        WithEpilogue { inner, stage: 0, polls: 0, max_polls, from_step: None, round_trip: false, tight_limits: false, force_fresh: false, fresh_small_window: false, redeliver: false, stay_first: false, stay_from: None, stay_polls: 0, pre: Default::default(), rt: Default::default() }
    }
}

pub const RT_TOPIC: &str = "u";
pub const RT_PID: u16 = 61234;

fn round_trip_steps() -> Vec<Step> {
    let p = || Step::Poll { max_wait: 0, cancel_at: None };
    vec![
        Step::Subscribe(SubSpec { filters: vec![FilterSpec { filter: RT_TOPIC.into(), max_qos: 1, no_local: false, rap: false, rh: 0 }], props: vec![], cancel_at: None }),
        p(),
        p(),
        Step::Publish(PubSpec { topic: RT_TOPIC.into(), payload: PayloadSpec::Bytes(vec![0x5a]), qos: 1, retain: false, props: vec![], correlate: None, cancel_at: None }),
        p(),
        p(),
        Step::Broker(BrokerAct::Send(SPacket::Publish { dup: false, qos: 1, retain: false, topic: RT_TOPIC.into(), pid: Some(RT_PID), props: vec![], payload: vec![0xa5] })),
        p(),
        p(),
        p(),
        Step::Drive { cancel_at: None },
    ]
}

pub fn benign_connect(resume: bool) -> ConnectSpec {
    ConnectSpec {
        policy: IoPolicy::default(),
        faults: vec![],
        connack: ConnackSpec::Normal { sp: SpMode::Force(resume), reason: 0, props: vec![] },
        broker: BrokerPolicy::default(),
        cancel_at: None,
    }
}

impl<D: Driver> Driver for WithEpilogue<D> {
    fn next(&mut self, v: &View<'_>) -> Option<Step> {
        use crate::exec::{ErrRepr, Outcome};
        if self.stage == 0 {
            if let Some(s) = self.inner.next(v) {
                return Some(s);
            }
            self.stage = 1;
            if self.stay_first && v.has_handle && v.is_connected && v.log.ops.len() % 2 == 0 {
                self.stage = 10;
                self.stay_from = Some(v.log.steps.len());
                return Some(Step::Broker(BrokerAct::Behave));
            }
            self.from_step = Some(v.log.steps.len());
        }
        loop {
            match self.stage {
                10 => {
                    // on the live connection: poll until idle, an error or a dozen calls
                    let last = v.log.ops.last().filter(|_| self.stay_polls > 0);
                    let go_on = match last.map(|o| &o.outcome) {
                        None => true,
                        Some(Outcome::Ok(_)) | Some(Outcome::Err(ErrRepr::Rejected(_))) => true,
                        _ => false,
                    };
                    if go_on && self.stay_polls < 12 && v.has_handle && v.is_connected {
                        self.stay_polls += 1;
                        return Some(Step::Poll { max_wait: 0, cancel_at: None });
                    }
                    self.stage = 1;
                    self.from_step = Some(v.log.steps.len());
                }
                1 => {
                    self.stage = 2;
                    if v.has_handle {
                        return Some(Step::DropConn);
                    }
                }
                2 => {
                    self.stage = 3;
                    // resume iff the client is going to ask for it
                    let mut c = benign_connect(v.snap.session_present && !self.force_fresh);
                    if self.force_fresh && self.fresh_small_window {
                        // the broker that lost the session also announces a send window just as
                        // large as what the old session had in flight
                        let n = (v.snap.tx.retained.len() + v.snap.tx.release.len()).min(8) as u16;
                        if n > 0 {
                            if let ConnackSpec::Normal { props, .. } = &mut c.connack {
                                props.push(Prop::ReceiveMaximum(n));
                            }
                        }
                    }
                    if self.tight_limits {
                        let lens: Vec<usize> = v.snap.tx.retained.iter().map(|e| e.len).collect();
                        let pick = lens.iter().sum::<usize>() + v.snap.tx.release.len() + v.snap.tx.control.len();
                        if pick % 3 == 1 {
                            let limit = lens.iter().copied().max().unwrap_or(0).max(5) as u32;
                            if let ConnackSpec::Normal { props, .. } = &mut c.connack {
                                props.push(Prop::MaximumPacketSize(limit));
                            }
                        }
                    }
                    if self.redeliver && v.snap.session_present && !self.force_fresh {
                        for (pid, phase) in v.world.session.s2c.iter() {
                            if *phase == 3 {
                                self.pre.push_back(Step::Broker(BrokerAct::Send(SPacket::PubRel { pid: *pid, reason: None, props: None })));
                            } else if let Some(SPacket::Publish { qos, retain, topic, props, payload, .. }) = v.world.conns.iter().rev().flat_map(|c| c.in_pkts.iter().rev()).find_map(|ip| match &ip.pkt {
                                Some(k @ SPacket::Publish { pid: Some(q), .. }) if q == pid => Some(k.clone()),
                                _ => None,
                            }) {
                                self.pre.push_back(Step::Broker(BrokerAct::Send(SPacket::Publish { dup: true, qos, retain, topic, pid: Some(*pid), props, payload })));
                            }
                        }
                    }
                    return Some(Step::Connect(c));
                }
                3 => {
                    if v.has_handle {
                        if let Some(s) = self.pre.pop_front() {
                            return Some(s);
                        }
                    }
                    let last = v.log.ops.last();
                    match last.map(|o| (&o.outcome, o.kind)) {
                        Some((Outcome::CallerTimeout, "poll")) => {
                            self.stage = 4;
                            return Some(Step::Drive { cancel_at: None });
                        }
                        Some((Outcome::Err(ErrRepr::Rejected(_)), _)) | Some((Outcome::Ok(_), _)) => {}
                        _ => {
                            self.stage = 5;
                            continue;
                        }
                    }
                    if self.polls >= self.max_polls || !v.has_handle {
                        self.stage = 5;
                        continue;
                    }
                    self.polls += 1;
                    return Some(Step::Poll { max_wait: 0, cancel_at: None });
                }
                4 => {
                    self.stage = 5;
                    if self.round_trip {
                        self.rt = round_trip_steps().into();
                        self.stage = 6;
                    }
                }
                6 => match self.rt.pop_front() {
                    Some(s) if v.has_handle => return Some(s),
                    _ => self.stage = 5,
                },
                _ => return None,
            }
        }
    }
}
