//! Registry of checks: which workloads feed which monitor.

use crate::exec::*;
use crate::genr::*;
use crate::monitors as m;
use crate::rng::Rng;
use crate::steps::*;
use crate::runner::*;
use crate::trace::*;
use serde_json::json;

pub type MonitorFn = fn(&Trace<'_>, &mut CaseOut) -> bool;
pub type ProfileFn = fn(&mut Rng) -> Profile;

pub struct GenCheck {
    pub id: &'static str,
    pub level: &'static str,
    pub rule: &'static str,
    pub assumptions: Vec<&'static str>,
    pub workloads: Vec<(&'static str, u64, u64, ProfileFn)>,
    pub monitor: MonitorFn,
    pub max_steps: usize,
    /// append the benign continuation with at most this many polls (0 = none)
    pub epilogue_polls: usize,
    pub min_nt: (usize, usize),
    pub required: Vec<&'static str>,
}

pub fn sample_of(log: &RunLog, w: &crate::world::World) -> serde_json::Value {
    let steps: Vec<String> = log
        .steps
        .iter()
        .take(40)
        .map(|s| {
            let d = format!("{:?}", s);
            trunc(&d, 160)
        })
        .collect();
    let ops: Vec<String> = log.ops.iter().take(60).map(|o| format!("{}->{:?}", o.kind, o.outcome)).collect();
    let pkts: Vec<String> = w
        .conns
        .iter()
        .flat_map(|c| c.out.packets.iter().map(move |p| format!("c{}:{}{}", c.idx, p.pkt.type_name(), p.pkt.pid().map(|i| format!("#{}", i)).unwrap_or_default())))
        .take(60)
        .collect();
    json!({"cfg": log.cfg, "steps": steps, "ops": ops, "client_packets": pkts, "events": w.events.len()})
}

/// Run a generated case and return everything a monitor needs.
pub fn run_generated(profile: Profile, rng: &mut Rng, seed: u64, max_steps: usize) -> (RunLog, crate::world::Shared) {
    let cfg = gen_cfg(rng, &profile);
    let hostile = profile.hostile_broker;
    let mut g = Gen::new(rng.next(), profile);
    g.steps_left = max_steps;
    let (mut log, world) = run_case(&cfg, seed, &mut g, max_steps + 8);
    log.hostile = hostile;
    (log, world)
}

/// Same, followed by the benign continuation (reconnect + poll until idle).
pub fn run_generated_epilogue(profile: Profile, rng: &mut Rng, seed: u64, max_steps: usize, max_polls: usize) -> (RunLog, crate::world::Shared) {
    let cfg = gen_cfg(rng, &profile);
    let hostile = profile.hostile_broker;
    let mut g = Gen::new(rng.next(), profile);
    g.steps_left = max_steps;
    let mut d = WithEpilogue::new(g, max_polls);
    let (mut log, world) = run_case(&cfg, seed, &mut d, max_steps + max_polls + 16);
    log.epilogue = true;
    log.hostile = hostile;
    log.epilogue_from = d.from_step;
    log.epilogue_polls_max = max_polls;
    (log, world)
}

pub fn finish_case(id: &str, log: &RunLog, w: &crate::world::World, out: &mut CaseOut, nontrivial: bool, verbose: bool) {
    out.evaluations += 1;
    if let Some(e) = &log.setup_error {
        out.inconclusive = Some(format!("setup error: {}", e));
    }
    if nontrivial {
        out.nontrivial.push(abstract_trace(log, w));
        if out.sample.is_none() {
            out.sample = Some(sample_of(log, w));
        }
    }
    for p in &log.probes {
        if let Some(s) = &p.snap {
            out.states.push(abstract_state(s));
        }
    }
    out.states.sort_unstable();
    out.states.dedup();
    // workload facts common to all checks
    let mut stalls = 0u64;
    let mut stalls_inside = 0u64;
    for e in &w.events {
        if let crate::world::Ev::GateHit { conn, offset } = e {
            stalls += 1;
            if w.conns[*conn].in_pkts.iter().any(|p| p.start < *offset && *offset < p.end) {
                stalls_inside += 1;
            }
        }
    }
    if stalls > 0 {
        out.count("inbound_stalls_hit", stalls);
        out.count("inbound_stalls_inside_a_packet", stalls_inside);
    }
    if verbose {
        for l in render(log, w, 4000) {
            println!("{}", l);
        }
        println!("--- {} violations for {}", out.violations.len(), id);
        for v in &out.violations {
            println!("VIOLATION-DETAIL {} :: {}", v.sig, v.msg);
        }
    }
}

impl Check for GenCheck {
    fn id(&self) -> &'static str {
        self.id
    }
    fn level(&self) -> &'static str {
        self.level
    }
    fn rule(&self) -> String {
        self.rule.to_string()
    }
    fn assumptions(&self) -> Vec<String> {
        self.assumptions.iter().map(|s| s.to_string()).collect()
    }
    fn workloads(&self) -> Vec<Workload> {
        self.workloads.iter().map(|(n, q, t, _)| Workload { name: n, quick: *q, thorough: *t }).collect()
    }
    fn min_nontrivial(&self, tier: Tier) -> usize {
        if tier == Tier::Quick { self.min_nt.0 } else { self.min_nt.1 }
    }
    fn required_counters(&self) -> Vec<&'static str> {
        self.required.clone()
    }
    fn run(&self, workload: usize, seed: u64, _index: u64, _tier: Tier, verbose: bool) -> CaseOut {
        let mut rng = Rng::new(seed);
        let profile = (self.workloads[workload].3)(&mut rng);
        let (log, world) = if self.epilogue_polls > 0 {
            run_generated_epilogue(profile, &mut rng, seed, self.max_steps, self.epilogue_polls)
        } else {
            run_generated(profile, &mut rng, seed, self.max_steps)
        };
        let w = world.borrow();
        let t = Trace::new(&log, &w);
        let mut out = CaseOut::default();
        let nt = (self.monitor)(&t, &mut out);
        if w.watchdog_tripped {
            out.count("watchdog_truncated_runs", 1);
        }
        finish_case(self.id, &log, &w, &mut out, nt, verbose);
        out
    }
}

/// Fault / cancellation enumeration over generated base programs: the base program is executed
/// once to learn how many transport calls each connection sees (or how many steps it has), then
/// re-executed once per injection point. Every re-execution is judged by the monitor.
pub struct SweepCheck {
    pub id: &'static str,
    pub level: &'static str,
    pub rule: &'static str,
    pub assumptions: Vec<&'static str>,
    pub workloads: Vec<(&'static str, u64, u64, ProfileFn)>,
    pub monitor: MonitorFn,
    pub max_steps: usize,
    pub epilogue_polls: usize,
    /// the benign continuation ends with a subscribe / publish / inbound publish round trip
    pub round_trip: bool,
    /// maximum number of injection points per base program (quick, thorough)
    pub cap: (usize, usize),
    pub mode: SweepMode,
    /// workloads with an index >= this are executed once each, without injection (plain cases)
    pub plain_from: usize,
    pub min_nt: (usize, usize),
    pub required: Vec<&'static str>,
}

#[derive(Clone, Copy, PartialEq)]
pub enum SweepMode {
    /// a transport fault at every I/O call index of every connection
    Faults,
    /// cancellation of every step at every Pending index (transport pends before every call)
    Cancels,
    /// both, alternating
    Both,
}

const FAULT_MENU: [FaultKind; 7] = [
    FaultKind::Error(ErrKind::ConnectionReset),
    FaultKind::Eof,
    FaultKind::Error(ErrKind::TimedOut),
    FaultKind::Error(ErrKind::BrokenPipe),
    FaultKind::Error(ErrKind::Interrupted),
    FaultKind::Error(ErrKind::Other),
    FaultKind::Error(ErrKind::WriteZero),
];

/// Scripted plain workloads that some sweep checks run after their generated ones.
fn sweep_scripts(id: &str) -> Vec<(&'static str, u64, u64, ScriptFn)> {
    match id {
        "C02" => vec![("many-refused-handshakes", 16, 400, crate::scripts::many_refused_handshakes_script), ("ping-between-pieces", 400, 40_000, crate::scripts::ping_between_pieces_script), ("wrap", 1000, 100_000, wrap_script), ("disconnect-given-up-then-resume", 300, 30_000, crate::scripts::disconnect_given_up_script), ("flush-fault-then-resume", 300, 30_000, crate::scripts::c06_flush_fault_script)],
        "C05" => vec![("many-fresh-sessions", 24, 600, crate::scripts::fresh_sessions_script), ("many-refused-handshakes", 16, 400, crate::scripts::many_refused_handshakes_script)],
        "C18" => vec![("many-fresh-sessions", 24, 600, crate::scripts::fresh_sessions_script)],
        "C03" => vec![("ping-between-pieces", 300, 30_000, crate::scripts::ping_between_pieces_script), ("window-saturation", 500, 50_000, crate::scripts::saturation_script), ("wrap", 400, 40_000, wrap_script), ("disconnect-given-up-then-resume", 300, 30_000, crate::scripts::disconnect_given_up_script), ("release-on-a-full-arena", 300, 30_000, crate::scripts::release_on_a_full_arena_script), ("replay-blocked-by-a-smaller-limit", 300, 30_000, crate::scripts::replay_blocked_by_a_smaller_limit_script)],
        "C16" => vec![("wrap", 300, 30_000, wrap_script), ("window-saturation", 200, 20_000, crate::scripts::saturation_script), ("ping-between-pieces", 200, 20_000, crate::scripts::ping_between_pieces_script), ("release-on-a-full-arena", 200, 20_000, crate::scripts::release_on_a_full_arena_script), ("probe-due-on-a-full-send-buffer", 200, 20_000, crate::scripts::stalled_probe_script)],
        "C01" => vec![("ping-between-pieces", 200, 20_000, crate::scripts::ping_between_pieces_script), ("wrap", 400, 40_000, wrap_script), ("disconnect-given-up-then-resume", 300, 30_000, crate::scripts::disconnect_given_up_script), ("disconnect-asked-again", 600, 60_000, crate::scripts::disconnect_asked_again_script), ("pingreq-cut-then-resume", 400, 40_000, crate::scripts::pingreq_cut_then_resume_script), ("arena-above-64k", 60, 6_000, crate::scripts::arena_above_64k_script)],
        "C11" => vec![("partial-then-disconnect", 300, 30_000, crate::scripts::c11_script)],
        "C12" => vec![("connect-at-the-edge-of-the-arena", 600, 60_000, crate::scripts::connect_at_the_edge_of_the_arena_script)],
        _ => vec![],
    }
}

impl SweepCheck {
    fn exec_script(&self, f: ScriptFn, seed: u64, index: u64, tier: Tier) -> (RunLog, crate::world::Shared) {
        let mut rng = Rng::new(seed);
        let (cfg, steps) = f(&mut rng, index, tier);
        let n = steps.len();
        if self.epilogue_polls > 0 {
            let mut d = WithEpilogue::new(Script::new(steps), self.epilogue_polls);
            d.round_trip = self.round_trip;
            d.tight_limits = self.id == "C16";
            d.redeliver = self.id == "C16";
            d.stay_first = self.id == "C16";
            let (mut log, world) = run_case(&cfg, seed, &mut d, n + self.epilogue_polls + 48);
            log.epilogue = true;
            log.epilogue_from = d.from_step;
            log.stay_from = d.stay_from;
            log.epilogue_polls_max = self.epilogue_polls;
            (log, world)
        } else {
            run_case(&cfg, seed, &mut Script::new(steps), n + 4)
        }
    }

    fn exec(&self, profile: &Profile, rng: &Rng, seed: u64, ff: Option<(usize, FaultPlan)>, fc: Option<(usize, usize)>) -> (RunLog, crate::world::Shared) {
        let mut rng = rng.clone();
        let cfg = gen_cfg(&mut rng, profile);
        let hostile = profile.hostile_broker;
        let mut g = Gen::new(rng.next(), profile.clone());
        let max_steps = self.max_steps.max(profile.min_steps);
        g.steps_left = max_steps;
        g.forced_fault = ff;
        g.forced_cancel = fc;
        // C12: one continuation in three finds a broker that has lost the session
        let fresh = self.id == "C12" && rng.next() % 3 == 0;
        let small = rng.next() % 2 == 0;
        if self.epilogue_polls > 0 {
            let mut d = WithEpilogue::new(g, self.epilogue_polls);
            d.round_trip = self.round_trip;
            d.tight_limits = self.id == "C16";
            d.redeliver = self.id == "C16";
            d.force_fresh = fresh;
            d.fresh_small_window = small;
            d.stay_first = self.id == "C16";
            let (mut log, world) = run_case(&cfg, seed, &mut d, max_steps + self.epilogue_polls + 48);
            log.epilogue = true;
            log.epilogue_from = d.from_step;
            log.stay_from = d.stay_from;
            log.epilogue_polls_max = self.epilogue_polls;
            log.hostile = hostile;
            (log, world)
        } else {
            let (mut log, world) = run_case(&cfg, seed, &mut g, max_steps + 8);
            log.hostile = hostile;
            (log, world)
        }
    }
}

impl Check for SweepCheck {
    fn id(&self) -> &'static str {
        self.id
    }
    fn level(&self) -> &'static str {
        self.level
    }
    fn rule(&self) -> String {
        self.rule.to_string()
    }
    fn assumptions(&self) -> Vec<String> {
        self.assumptions.iter().map(|s| s.to_string()).collect()
    }
    fn workloads(&self) -> Vec<Workload> {
        let mut v: Vec<Workload> = self.workloads.iter().map(|(n, q, t, _)| Workload { name: n, quick: *q, thorough: *t }).collect();
        v.extend(sweep_scripts(self.id).into_iter().map(|(n, q, t, _)| Workload { name: n, quick: q, thorough: t }));
        v.push(Workload { name: "pooled-scripts", quick: POOLED.0, thorough: POOLED.1 });
        v
    }
    fn min_nontrivial(&self, tier: Tier) -> usize {
        if tier == Tier::Quick { self.min_nt.0 } else { self.min_nt.1 }
    }
    fn required_counters(&self) -> Vec<&'static str> {
        self.required.clone()
    }
    fn run(&self, workload: usize, seed: u64, index: u64, tier: Tier, verbose: bool) -> CaseOut {
        if workload >= self.workloads.len() {
            // scripted plain case
            let own = sweep_scripts(self.id);
            let f: ScriptFn = if workload - self.workloads.len() < own.len() { own[workload - self.workloads.len()].3 } else { crate::scripts::pooled_script };
            let mut out = CaseOut::default();
            let (log, world) = self.exec_script(f, seed, index, tier);
            let w = world.borrow();
            let t = Trace::new(&log, &w);
            let nt = (self.monitor)(&t, &mut out);
            out.count("scripted_cases", 1);
            finish_case(self.id, &log, &w, &mut out, nt, verbose);
            return out;
        }
        let mut rng0 = Rng::new(seed);
        let mut profile = (self.workloads[workload].3)(&mut rng0);
        if workload >= self.plain_from {
            // plain case: the generated program as it is (random faults and cancellations included)
            let mut out = CaseOut::default();
            let (log, world) = self.exec(&profile, &rng0, seed, None, None);
            let w = world.borrow();
            let t = Trace::new(&log, &w);
            let nt = (self.monitor)(&t, &mut out);
            out.count("plain_cases", 1);
            finish_case(self.id, &log, &w, &mut out, nt, verbose);
            return out;
        }
        profile.conn_fault_pct = 0;
        profile.w_fault = 0;
        if self.mode != SweepMode::Faults {
            profile.all_pend = true;
            profile.cancel_pct = 0;
            profile.connect_cancel_pct = 0;
        }
        let mut out = CaseOut::default();
        // base run
        let (blog, bworld) = self.exec(&profile, &rng0, seed, None, None);
        let mut points: Vec<(Option<(usize, FaultPlan)>, Option<(usize, usize)>)> = Vec::new();
        {
            let bw = bworld.borrow();
            if self.mode != SweepMode::Cancels {
                let mut k = 0usize;
                for c in &bw.conns {
                    for i in 0..=c.n_io {
                        let mut kind = FAULT_MENU[k % FAULT_MENU.len()];
                        // ... and a transport that accepts nothing (`Ok(0)`): the call reports
                        // WriteZero, the handle stays up (disconnect() excepted) and the rest of
                        // the program runs on the same connection
                        if k % 9 == 8 {
                            kind = FaultKind::WriteZero;
                        }
                        k += 1;
                        points.push((Some((c.idx, FaultPlan { at: FaultAt::Io(i), kind })), None));
                    }
                }
            }
            if self.mode != SweepMode::Faults {
                for op in &blog.ops {
                    for j in 1..=op.pendings.min(40) {
                        points.push((None, Some((op.step, j))));
                    }
                }
            }
        }
        let cap = if tier == Tier::Quick { self.cap.0 } else { self.cap.1 };
        if points.len() > cap {
            let mut r = Rng::new(seed ^ 0x5eed);
            r.shuffle(&mut points);
            points.truncate(cap);
        }
        out.count("base_programs", 1);
        out.count("injection_points", points.len() as u64);
        let mut shown = false;
        for (ff, fc) in points {
            let (log, world) = self.exec(&profile, &rng0, seed, ff, fc);
            let w = world.borrow();
            let t = Trace::new(&log, &w);
            let before = out.violations.len();
            let nt = (self.monitor)(&t, &mut out);
            if let Some((c, f)) = &ff {
                let _ = c;
                out.key(format!("fault-kind/{:?}", f.kind));
            }
            let show = verbose && !shown && out.violations.len() > before;
            if show {
                shown = true;
                println!("--- injection point fault={:?} cancel={:?}", ff, fc);
            }
            finish_case(self.id, &log, &w, &mut out, nt, show);
        }
        if verbose && !shown {
            println!("(no violation in any of the injection points of this base program)");
        }
        out
    }
}

/// Scripted cases: a builder turns the case seed into a configuration and a fixed step list.
pub type ScriptFn = fn(&mut Rng, u64, Tier) -> (CaseCfg, Vec<Step>);

pub fn run_script(cfg: &CaseCfg, steps: Vec<Step>, seed: u64) -> (RunLog, crate::world::Shared) {
    let n = steps.len();
    let mut d = Script::new(steps);
    run_case(cfg, seed, &mut d, n + 4)
}

/// Either generated (profile) or scripted workloads feeding one monitor.
/// cases of the pooled scripted scenarios per run (quick, thorough)
pub const POOLED: (u64, u64) = (1200, 120_000);

pub enum Source {
    Gen(ProfileFn),
    Script(ScriptFn),
}

pub struct MixCheck {
    pub id: &'static str,
    pub level: &'static str,
    pub rule: &'static str,
    pub assumptions: Vec<&'static str>,
    pub workloads: Vec<(&'static str, u64, u64, Source)>,
    pub monitor: MonitorFn,
    pub max_steps: usize,
    pub epilogue_polls: usize,
    pub min_nt: (usize, usize),
    pub required: Vec<&'static str>,
    pub exhaustive: bool,
}

impl Check for MixCheck {
    fn id(&self) -> &'static str {
        self.id
    }
    fn level(&self) -> &'static str {
        self.level
    }
    fn rule(&self) -> String {
        self.rule.to_string()
    }
    fn assumptions(&self) -> Vec<String> {
        self.assumptions.iter().map(|s| s.to_string()).collect()
    }
    fn workloads(&self) -> Vec<Workload> {
        let mut v: Vec<Workload> = self.workloads.iter().map(|(n, q, t, _)| Workload { name: n, quick: *q, thorough: *t }).collect();
        v.push(Workload { name: "pooled-scripts", quick: POOLED.0, thorough: POOLED.1 });
        v
    }
    fn min_nontrivial(&self, tier: Tier) -> usize {
        if tier == Tier::Quick { self.min_nt.0 } else { self.min_nt.1 }
    }
    fn required_counters(&self) -> Vec<&'static str> {
        self.required.clone()
    }
    fn exhaustive(&self) -> bool {
        self.exhaustive
    }
    fn run(&self, workload: usize, seed: u64, index: u64, tier: Tier, verbose: bool) -> CaseOut {
        let mut rng = Rng::new(seed);
        let pooled = Source::Script(crate::scripts::pooled_script);
        let (log, world) = match self.workloads.get(workload).map(|w| &w.3).unwrap_or(&pooled) {
            Source::Gen(pf) => {
                let profile = pf(&mut rng);
                if self.epilogue_polls > 0 {
                    run_generated_epilogue(profile, &mut rng, seed, self.max_steps, self.epilogue_polls)
                } else {
                    run_generated(profile, &mut rng, seed, self.max_steps)
                }
            }
            Source::Script(sf) => {
                let (cfg, steps) = sf(&mut rng, index, tier);
                run_script(&cfg, steps, seed)
            }
        };
        let w = world.borrow();
        let t = Trace::new(&log, &w);
        let mut out = CaseOut::default();
        let nt = (self.monitor)(&t, &mut out);
        if w.watchdog_tripped {
            out.count("watchdog_truncated_runs", 1);
        }
        finish_case(self.id, &log, &w, &mut out, nt, verbose);
        out
    }
}

pub fn pub1(topic: &str, tag: u32, len: usize) -> Step {
    Step::Publish(PubSpec { topic: topic.into(), payload: PayloadSpec::Fill { len, tag, ascii: false }, qos: 1, retain: false, props: vec![], correlate: None, cancel_at: None })
}
pub fn pubq(qos: u8, topic: &str, tag: u32, len: usize) -> Step {
    Step::Publish(PubSpec { topic: topic.into(), payload: PayloadSpec::Fill { len, tag, ascii: false }, qos, retain: false, props: vec![], correlate: None, cancel_at: None })
}
pub fn poll0() -> Step {
    Step::Poll { max_wait: 0, cancel_at: None }
}
pub fn connect_with(sp: SpMode, acks: AckMode, props: Vec<crate::refcodec::Prop>) -> Step {
    Step::Connect(ConnectSpec {
        policy: IoPolicy::default(),
        faults: vec![],
        connack: ConnackSpec::Normal { sp, reason: 0, props },
        broker: BrokerPolicy { acks, ping: AckMode::Immediate, fail_pct: 0, longform_pct: 0 },
        cancel_at: None,
    })
}

/// C07 workload: long-lived operations whose identifiers sit right behind the 65535 -> 1 wrap.
pub fn wrap_script(r: &mut Rng, _index: u64, _tier: Tier) -> (CaseCfg, Vec<Step>) {
    let cfg = CaseCfg { rx: 128, tx: 2048, keepalive: 0, ..CaseCfg::default() };
    let mut s = vec![connect_with(SpMode::Force(false), AckMode::Hold, vec![]), Step::DropConn];
    // long-lived requests get the identifiers `base`, `base+1`, ...
    let base: u16 = *r.pick(&[1u16, 1, 2, 5, 65535, 65534]);
    s.push(Step::SetNextPid(base));
    s.push(connect_with(SpMode::Force(true), AckMode::Hold, vec![]));
    let n_long = r.range(1, 3);
    let mut tag = 0;
    // one case in three: the long-lived operations are QoS 2 exchanges in their release phase
    // (PUBREC answered with PUBREL, PUBCOMP withheld): their identifiers live in the release
    // list only, and nothing else is retained when the counter comes round
    let release_phase = r.chance(1, 3);
    // one case in five: crowded - eight QoS 2 exchanges in the release phase plus 1..7 unanswered
    // SUBSCRIBE/UNSUBSCRIBE, i.e. 9..15 consecutive identifiers in use when the counter comes round
    let crowded = !release_phase && r.chance(1, 4);
    let n_long = if crowded { 8 } else { n_long };
    let release_phase = release_phase || crowded;
    for _ in 0..n_long {
        tag += 1;
        // (long-lived operations that straddle the wrap are QoS 1 publishes more often than not)
        s.push(match if release_phase { 2 } else if base >= 65534 && r.chance(1, 2) { 3 } else { r.below(4) } {
            0 => Step::Subscribe(SubSpec { filters: vec![FilterSpec { filter: "w/#".into(), max_qos: 1, no_local: false, rap: false, rh: 0 }], props: vec![], cancel_at: None }),
            1 => Step::Unsubscribe(UnsubSpec { filters: vec!["w".into()], props: vec![], cancel_at: None }),
            2 => pubq(2, "long", tag, 5),
            _ => pub1("long", tag, 5),
        });
    }
    if release_phase {
        // the broker answers with PUBREC: plain, or (half of the time) the long form with the
        // success code 0x10 "No matching subscribers" - the exchange goes on either way
        if r.chance(1, 2) {
            for k in 0..n_long {
                let pid = ((base as u32 - 1 + k as u32) % 65535 + 1) as u16;
                s.push(Step::Broker(BrokerAct::Send(crate::refcodec::SPacket::PubRec { pid, reason: Some(0x10), props: None })));
            }
        } else {
            s.push(Step::Broker(BrokerAct::Release { n: 99, order: Order::Fifo }));
        }
        for _ in 0..2 * n_long + 1 {
            s.push(poll0());
        }
        // one case in three: the broker repeats a PUBREC after the PUBREL went out, this time
        // with a failure code (the call that reads it reports the rejection, the connection
        // stays up): the exchange still waits for its PUBCOMP and its identifier stays in use
        if r.chance(1, 3) {
            for k in 0..n_long {
                if r.chance(2, 3) {
                    let pid = ((base as u32 - 1 + k as u32) % 65535 + 1) as u16;
                    s.push(Step::Broker(BrokerAct::Send(crate::refcodec::SPacket::PubRec { pid, reason: Some(*r.pick(&[0x80u8, 0x87, 0x97, 0x99])), props: None })));
                    s.push(poll0());
                    s.push(poll0());
                }
            }
        }
    }
    if crowded {
        for k in 0..r.range(1, 7) {
            s.push(if k % 2 == 0 {
                Step::Subscribe(SubSpec { filters: vec![FilterSpec { filter: "w/#".into(), max_qos: 1, no_local: false, rap: false, rh: 0 }], props: vec![], cancel_at: None })
            } else {
                Step::Unsubscribe(UnsubSpec { filters: vec!["w".into()], props: vec![], cancel_at: None })
            });
        }
    }
    s.push(Step::DropConn);
    // position the counter shortly before the wrap, either directly or by really burning identifiers
    let before: u16 = 65535 - r.below(4) as u16;
    let burn = r.chance(1, 3) && !crowded;
    if !burn {
        s.push(Step::SetNextPid(before));
    }
    // (one time in three the connection on which the counter comes round has a broker that
    // caps publishes at QoS 1 or QoS 0: what is in flight from before is in flight all the same)
    let cap = match r.below(6) {
        0 => vec![crate::refcodec::Prop::MaximumQoS(1)],
        1 => vec![crate::refcodec::Prop::MaximumQoS(0)],
        _ => vec![],
    };
    s.push(connect_with(SpMode::Force(true), AckMode::Hold, cap));
    s.push(poll0());
    if burn {
        let cur = base as usize + n_long;
        let n = (before as usize + 65535 - cur) % 65535;
        s.push(Step::BurnIds(n));
    }
    // short-lived publishes across the wrap: each one is acknowledged at once (newest held ack first)
    for _ in 0..r.range(6, 12) {
        tag += 1;
        // (with the send window used up by the exchanges in release, only SUBSCRIBE/UNSUBSCRIBE get through)
        s.push(match if crowded { 1 + r.below(2) * 4 } else { r.below(5) } {
            0 => pubq(2, "short", tag, 3),
            5 => Step::Unsubscribe(UnsubSpec { filters: vec!["s".into()], props: vec![], cancel_at: None }),
            1 => Step::Subscribe(SubSpec { filters: vec![FilterSpec { filter: "s".into(), max_qos: 0, no_local: false, rap: false, rh: 0 }], props: vec![], cancel_at: None }),
            _ => pub1("short", tag, 3),
        });
        s.push(Step::Broker(BrokerAct::Release { n: 1, order: Order::Lifo }));
        s.push(poll0());
        s.push(poll0());
        if r.chance(1, 4) {
            // identifiers burnt by refused requests
            s.push(Step::BurnIds(r.range(1, 3)));
        }
    }
    // half of the time one of the operations around the wrap is acknowledged on its own first
    if r.chance(1, 2) {
        s.push(Step::Broker(BrokerAct::Release { n: 1, order: Order::Fifo }));
        s.push(poll0());
        s.push(poll0());
    }
    // ... and half of the time the session is resumed once more before everything is acknowledged,
    // so that whatever is still retained shows on the wire
    if r.chance(1, 2) {
        s.push(Step::DropConn);
        s.push(connect_with(SpMode::Force(true), AckMode::Hold, vec![]));
        s.push(poll0());
        s.push(poll0());
    }
    s.push(Step::Broker(BrokerAct::Release { n: 99, order: Order::Fifo }));
    for _ in 0..12 {
        s.push(poll0());
    }
    (cfg, s)
}

pub fn general(_r: &mut Rng) -> Profile {
    let mut p = Profile::default();
    p.w_gate = 1;
    p
}

fn c01_cancel_heavy(r: &mut Rng) -> Profile {
    let mut p = Profile::default();
    p.name = "cancel-heavy";
    p.cancel_pct = 45;
    p.hostile_io_pct = 95;
    p.conn_fault_pct = 10;
    p.bad_connack_pct = 4;
    p.w_disconnect = 4;
    p.max_conns = 4;
    p.payload_max = *r.pick(&[8usize, 40, 200]);
    // keep-alive traffic takes part in the stream: PINGREQs fall due while packets are half written
    if r.chance(1, 2) {
        p.keepalive_choices = vec![1, 2, 10, 60];
        p.w_advance = 8;
        p.w_gate = 2;
    }
    p
}


pub fn replay_heavy(r: &mut Rng) -> Profile {
    let mut p = Profile::default();
    p.name = "replay-heavy";
    p.w_pub = [2, 14, 14];
    p.w_sub = 3;
    p.w_unsub = 2;
    p.w_drop = 5;
    p.w_forget = 1;
    p.w_bclose = 3;
    p.w_bdisc = 2;
    p.w_fault = 5;
    p.w_drive = 10;
    p.w_poll = 20;
    p.w_release = 14;
    p.w_bstale = 1;
    p.ack_modes = vec![AckMode::Hold, AckMode::Hold, AckMode::Hold, AckMode::Immediate, AckMode::Never, AckMode::Delay(500)];
    p.sp_w = [2, 10, 1];
    p.bad_connack_pct = 6;
    p.conn_fault_pct = 40;
    p.max_conns = 8;
    p.rm_choices = vec![None, None, Some(8), Some(9), Some(3)];
    // the limit may differ from connection to connection (a packet above it waits for a later one)
    p.mps_choices = vec![None, None, None, Some(40), Some(120)];
    p.maxqos_choices = vec![None];
    p.tx_choices = vec![256, 512, 2048];
    p.cancel_pct = *r.pick(&[0u32, 10, 30]);
    p
}

fn qos2_heavy(r: &mut Rng) -> Profile {
    let mut p = replay_heavy(r);
    p.name = "qos2-heavy";
    p.w_pub = [1, 3, 24];
    p.fail_pcts = vec![0, 0, 15];
    p
}

pub fn session_mix(r: &mut Rng) -> Profile {
    let mut p = replay_heavy(r);
    p.name = "session-mix";
    p.w_disconnect = 5;
    p.sp_w = [3, 4, 4];
    p.bad_connack_pct = 25;
    p.connect_cancel_pct = 15;
    p.assigned_id_pct = 25;
    p.w_pub = [2, 8, 8];
    p.w_sub = 6;
    p.w_unsub = 5;
    p.w_bpublish = 10;
    p
}

pub fn window_heavy(r: &mut Rng) -> Profile {
    let mut p = replay_heavy(r);
    p.name = "window-heavy";
    p.rm_choices = vec![Some(1), Some(2), Some(3), Some(7), Some(8), Some(9), Some(16), Some(65535), None];
    p.w_pub = [1, 16, 16];
    p.w_release = 8;
    p.tx_choices = vec![1024, 4096];
    p.payload_max = 16;
    p
}

fn acks_heavy(r: &mut Rng) -> Profile {
    let mut p = replay_heavy(r);
    p.name = "acks-heavy";
    p.fail_pcts = vec![0, 20, 50];
    p.longform_pcts = vec![0, 50, 100];
    p.w_sub = 8;
    p.w_unsub = 6;
    p.sp_w = [3, 5, 3];
    p
}

fn inbound_heavy(r: &mut Rng) -> Profile {
    let mut p = Profile::default();
    p.name = "inbound-heavy";
    p.w_gate = 4;
    p.w_bpublish = 40;
    p.w_bpubrel = 6;
    p.w_bstale = 0;
    p.w_pub = [2, 8, 8];
    p.w_poll = 30;
    p.w_drive = 8;
    p.w_recv = 4;
    p.w_release = 4;
    p.ack_modes = vec![AckMode::Hold, AckMode::Hold, AckMode::Immediate, AckMode::Never];
    p.tx_choices = vec![48, 64, 96, 128, 512];
    p.rx_choices = vec![64, 128, 256, 1024, 64, 128, 256, 1024, 64, 128, 256, 1024, 70_000];
    p.mps_choices = vec![None, None, Some(100_000), Some(65_536), Some(131_072 + 3), Some(1 << 20), Some(1 << 24)];
    p.sp_w = [4, 6, 2];
    p.bad_connack_pct = 5;
    p.conn_fault_pct = 25;
    p.props_pct = 50;
    p.payload_max = *r.pick(&[8usize, 64, 1000]);
    p.max_conns = 6;
    p
}

/// Inbound QoS 2 exchanges pile up (PUBRELs withheld) until the client's table is full, then the connection changes.
fn inbound_qos2_full(r: &mut Rng) -> Profile {
    let mut p = inbound_heavy(r);
    p.name = "inbound-qos2-full";
    p.min_steps = 80;
    p.w_poll = 50;
    p.bpub_qos_w = [1, 1, 10];
    p.w_bpublish = 60;
    p.w_bpubrel = 1;
    p.w_release = 1;
    p.w_pub = [1, 2, 2];
    p.ack_modes = vec![AckMode::Hold, AckMode::Never];
    p.rx_choices = vec![128, 256];
    p.tx_choices = vec![128, 512];
    p.payload_max = 8;
    p.props_pct = 10;
    p.sp_w = [2, 10, 1];
    p.w_bclose = 3;
    p.w_drop = 3;
    p.max_conns = 4;
    p
}

fn inbound_hostile(r: &mut Rng) -> Profile {
    let mut p = inbound_heavy(r);
    p.name = "inbound-hostile";
    p.hostile_broker = true;
    p.w_bstale = 6;
    p
}

fn tiny_arena(r: &mut Rng) -> Profile {
    let mut p = replay_heavy(r);
    p.name = "tiny-arena";
    p.tx_choices = vec![48, 56, 64, 80, 96, 128];
    p.rx_choices = vec![32, 64, 128];
    p.payload_max = 40;
    p.topic_max = 6;
    p.will_pct = 0;
    p.auth_pct = 0;
    p.ack_modes = vec![AckMode::Hold, AckMode::Never];
    p.w_pub = [1, 16, 12];
    p.w_sub = 6;
    p.props_pct = 5;
    p.assigned_id_pct = 0;
    // packets on both sides of the one-byte / two-byte length form share the arena (QoS 0
    // publishes and the CONNECT itself are encoded in the space behind the retained packets)
    p.payload_max = *r.pick(&[20usize, 64, 200]);
    p.will_pct = 30;
    p.auth_pct = 30;
    p
}

fn keepalive_mix(r: &mut Rng) -> Profile {
    let mut p = Profile::default();
    p.name = "keepalive-mix";
    p.w_gate = 3;
    p.keepalive_choices = vec![1, 2, 3, 9, 10, 60];
    p.ska_choices = vec![None, None, Some(1), Some(5)];
    p.ping_modes = vec![AckMode::Immediate, AckMode::Delay(3_000_000), AckMode::Delay(4_999_999), AckMode::Never];
    p.poll_waits = vec![0, 1_000_000, 6_000_000, 20_000_000];
    p.w_poll = 40;
    p.w_advance = 0;
    p.bad_connack_pct = 3;
    p.max_conns = 4;
    let _ = r;
    p
}

pub fn dead_handle(r: &mut Rng) -> Profile {
    let mut p = Profile::default();
    p.name = "dead-handle";
    // limits on both sides of the 16-bit boundary (none of them restricts anything here)
    p.mps_choices = vec![None, None, Some(65535), Some(65536), Some(65537), Some(131072), Some(1 << 20), Some(u32::MAX)];
    p.inbound_near_rx = r.chance(1, 3);
    p.w_pub = [6, 6, 6];
    p.w_sub = 6;
    p.w_unsub = 6;
    p.w_poll = 10;
    p.w_recv = 6;
    p.w_drive = 8;
    p.w_disconnect = 5;
    p.w_drop = 1;
    p.w_forget = 0;
    p.w_into_inner = 0;
    p.w_bclose = 2;
    p.w_bdisc = 2;
    p.w_braw = 2;
    p.w_bpublish = 6;
    p.dead_ops_max = 8;
    p.dead_invalid_pct = 25;
    p.bad_connack_pct = 3;
    p.max_conns = 3;
    p.cancel_pct = *r.pick(&[0u32, 10]);
    p.keepalive_choices = vec![0, 0, 2, 10];
    p.ska_choices = vec![None, None, Some(1)];
    p.ping_modes = vec![AckMode::Immediate, AckMode::Never];
    p.poll_waits = vec![0, 1_000_000, 20_000_000, 100_000_000];
    p
}

fn mps_edges(r: &mut Rng) -> Profile {
    let mut p = Profile::default();
    p.name = "mps-edges";
    let mut mps: Vec<Option<u32>> = (2..=64).map(Some).collect();
    mps.extend([Some(127), Some(128), Some(129), None, Some(65_535), Some(65_536), Some(65_537), Some(u32::MAX)]);
    p.mps_choices = mps;
    p.near_mps = true;
    p.inbound_near_rx = r.chance(1, 2);
    p.rx_choices = vec![24, 32, 48, 64, 128, 256];
    p.tx_choices = vec![128, 256, 1024];
    p.w_pub = [10, 10, 10];
    p.w_sub = 6;
    p.w_unsub = 6;
    p.w_disconnect = 4;
    p.w_bpublish = 14;
    p.w_bpubrel = 4;
    p.topic_max = 6;
    p.props_pct = 15;
    p.sp_w = [3, 6, 2];
    p.fail_pcts = vec![0, 30];
    p.longform_pcts = vec![0, 100];
    p.bad_connack_pct = 3;
    p.conn_fault_pct = 10;
    p.max_conns = 5;
    p.extra_connack_props_pct = 0;
    p
}

macro_rules! gen_check {
    ($id:expr, $level:expr, $rule:expr, $assume:expr, $wl:expr, $mon:expr, $steps:expr, $epi:expr, $min:expr, $req:expr) => {
        Box::new(GenCheck {
            id: $id,
            level: $level,
            rule: $rule,
            assumptions: $assume,
            workloads: $wl,
            monitor: $mon,
            max_steps: $steps,
            epilogue_polls: $epi,
            min_nt: $min,
            required: $req,
        }) as Box<dyn Check>
    };
}

pub const COMMON_ASSUME: [&str; 3] = [
    "harness (SimIo, virtual time, executor, reference broker) and refcodec are correct",
    "acceptance of a cancelled/failed request is read from the verif snapshot hook (retained list grew by one entry)",
    "an inbound packet counts as processed by the client from the moment its last byte was read (processing is synchronous after the read)",
];

pub fn all() -> Vec<Box<dyn Check>> {
    vec![Box::new(SweepCheck {
        id: "C01",
        level: "exploration",
        rule: "every connection's outbound bytes are decoded by the independent strict MQTT 5 decoder. Workloads: (sweep) generated base programs re-executed with one operation dropped at each of its await indices under a transport that pends before every read/write/flush and accepts 1 byte / a random count / all per write, so that 'cancelled with exactly n bytes of the packet on the wire' takes every n, followed by whatever operations the program issues next (the cancel-X-after-n-bytes-then-call-Y matrix); (plain) random adaptive programs with all chunkings, random cancellations, transport faults, inbound traffic, resumed/fresh reconnects. A case is non-trivial iff some write call ended inside a packet or a cancellation left 0<n<len bytes of a packet on the wire; distinct = distinct abstract traces; keys = (cancelled operation kind) x (next writer kind).",
        assumptions: vec![
            "refcodec strict decoder implements the MQTT 5.0 client-packet rules correctly",
            "QoS 0 publish is documented as not cancel-safe: the stream after a cancelled QoS 0 publish is not judged",
            "a write answered Ok(0) is an ordinary fault (the call reports WriteZero, the handle stays up, the stream must stay whole); only a CONNECT cut short that way is not judged further (the handshake has failed)",
            "user inputs are valid (topics without wildcards, legal reason codes, legal properties)",
        ],
        workloads: vec![("cancel-matrix", 120, 30_000, c01_cancel_heavy as ProfileFn), ("general", 3000, 600_000, general), ("cancel-heavy", 3000, 900_000, c01_cancel_heavy), ("inbound-qos2-full", 300, 30_000, inbound_qos2_full)],
        monitor: m::c01::check,
        max_steps: 50,
        epilogue_polls: 0,
        round_trip: false,
        cap: (50, 400),
        mode: SweepMode::Cancels,
        plain_from: 1,
        min_nt: (200, 2000),
        required: vec!["writes_ending_mid_packet", "cancelled_mid_packet", "injection_points"],
    }),
    Box::new(SweepCheck {
        id: "C02",
        level: "fault_enumeration",
        rule: "per accepted QoS 1 message the recorded history is checked for: at most one transmission per connection, byte identity except DUP, DUP clear on the accepting and set on later connections, acceptance order on the wire, no transmission after its PUBACK was consumed, exactly one replay on every resumed connection on which the client went idle, completion after the benign continuation. Workloads: (sweep) generated base programs with withheld/reordered/failed acks re-executed once per I/O call index of every connection with the connection killed there (ConnectionReset, EOF, TimedOut, BrokenPipe, Interrupted, Other in rotation), each followed by the program's own resumed/fresh reconnects and the benign continuation; (plain) random histories with random faults, broker DISCONNECT/close, handle drop/forget/into_inner, cancellations. Non-trivial iff at least one retransmission on a later connection was observed; keys = fault kinds.",
        assumptions: COMMON_ASSUME.to_vec(),
        workloads: vec![("crash-sweep", 120, 12_000, replay_heavy as ProfileFn), ("replay-heavy", 4000, 400_000, replay_heavy), ("general", 2000, 200_000, general), ("keepalive-mix", 1500, 150_000, keepalive_mix)],
        monitor: m::c02::check,
        max_steps: 50,
        epilogue_polls: 40,
        round_trip: false,
        cap: (50, 400),
        mode: SweepMode::Faults,
        plain_from: 1,
        min_nt: (200, 2000),
        required: vec!["retransmissions", "replays_verified", "completed_in_the_end", "injection_points"],
    }),
    Box::new(SweepCheck {
        id: "C03",
        level: "fault_enumeration",
        rule: "as C02 for QoS 2: several exchanges in different phases, PUBREC/PUBCOMP released in arbitrary order, failure codes; (sweep) the connection is killed at every I/O call index of QoS 2-heavy base programs, i.e. between any two of the four steps of every exchange; PUBREL only after a successful PUBREC, never PUBLISH after PUBREC, failing PUBREC ends the exchange and is surfaced, exactly one PUBREL replay per resumed drained connection, replay order = PUBREC arrival order. Non-trivial iff a resumed connection started with at least one exchange in the release phase.",
        assumptions: COMMON_ASSUME.to_vec(),
        workloads: vec![("crash-sweep", 120, 12_000, qos2_heavy as ProfileFn), ("qos2-heavy", 4000, 400_000, qos2_heavy), ("general", 2000, 200_000, general), ("keepalive-mix", 1500, 150_000, keepalive_mix)],
        monitor: m::c03::check,
        max_steps: 50,
        epilogue_polls: 40,
        round_trip: false,
        cap: (50, 400),
        mode: SweepMode::Faults,
        plain_from: 1,
        min_nt: (200, 2000),
        required: vec!["resumes_with_release_phase", "pubrel_replays_verified", "replays_with_2plus_pubrel", "injection_points"],
    }),
    Box::new(MixCheck {
        id: "C04",
        level: "exploration",
        rule: concat!("the reference broker originates bursts of PUBLISH packets (all QoS, identifiers incl. 1/255/256/65535, random property sets, payloads up to the receive buffer, retain/DUP), retransmissions of unreleased QoS 2 identifiers, PUBRELs for known and unknown ids, interleaved with client traffic, small transmit arenas kept full by withheld acks, reconnects between PUBLISH and PUBREL; a 40-line reference receiver predicts deliveries and the exact acknowledgement sequence; a call that reports WriteZero although every write that was offered a byte took one, while acknowledgements are owed, is a violation. Non-trivial iff a duplicate was suppressed, an ack was owed with a full arena, or >=3 QoS 2 ids were pending. The hostile workload (broker exceeding limits/reusing ids) is judged only for: no panic, acks carry ids that were received.", " Scripted workload `full-table-redelivery`: seven or eight inbound QoS 2 exchanges open (PUBRELs withheld), the connection lost before the PUBREC of the last one was written, the broker redelivers it on the resumed (or fresh) connection."),
        assumptions: COMMON_ASSUME.to_vec(),
        workloads: vec![("inbound-heavy", 5000, 2_000_000, Source::Gen(inbound_heavy)), ("inbound-hostile", 1000, 400_000, Source::Gen(inbound_hostile)), ("general", 1000, 400_000, Source::Gen(general)), ("full-table-redelivery", 300, 30_000, Source::Script(crate::scripts::c04_script)), ("refused-request-while-half-read", 600, 60_000, Source::Script(crate::scripts::refused_request_while_half_read_script)), ("redelivery-under-a-tiny-limit", 300, 30_000, Source::Script(crate::scripts::redelivery_under_a_tiny_limit_script))],
        monitor: m::c04::check,
        max_steps: 80,
        epilogue_polls: 0,
        min_nt: (200, 2000),
        required: vec!["duplicates_suppressed", "acks_owed_with_full_arena", "pubrel_unknown", "deliveries_with_properties", "redeliveries_with_a_full_table"],
        exhaustive: false,
    }),
    Box::new(SweepCheck {
        id: "C05",
        level: "exploration",
        rule: "sequences of up to 8 connections with arbitrary session-present answers, rejected / garbled / EOF / silent handshakes, CONNACKs with reason 0 whose properties must be refused, and arbitrary in-flight state at each loss; (sweep) base programs re-executed with every operation - connect() included - dropped at each of its await indices and with a transport fault at every I/O call index; the monitor judges CONNECT flags and client id, connect event, invalidation of earlier handles, absence of stale transmissions (requests, PUBRELs and owed acks of a discarded session) and complete in-order replay before anything new. Non-trivial iff a resumed connection began with in-flight state or at least two connections were established.",
        assumptions: COMMON_ASSUME.to_vec(),
        workloads: vec![("handshake-sweep", 100, 10_000, session_mix as ProfileFn), ("session-mix", 4000, 400_000, session_mix), ("general", 2000, 200_000, general)],
        monitor: m::c05::check,
        max_steps: 40,
        epilogue_polls: 0,
        round_trip: false,
        cap: (50, 400),
        mode: SweepMode::Both,
        plain_from: 1,
        min_nt: (200, 2000),
        required: vec!["resumes_with_inflight", "handles_checked_after_fresh_session", "replays_verified", "injection_points"],
    }),
    Box::new(MixCheck {
        id: "C06",
        level: "exploration",
        rule: concat!("programs with Receive Maximum in {1,2,3,7,8,9,16,65535,absent}, mixed QoS 1/2, held/reordered acks, cancellations and resumed reconnects; conservation monitor in the broker's view (PUBLISH completed on the wire minus acks the broker has sent, plus exchanges entering the connection in the release phase). Non-trivial iff a publish was refused NotReady or a resumed connection began with publishes in flight.", " Scripted workload `window-saturation`: eight QoS 2 exchanges waiting for PUBCOMP under a broker window of 8, 9, 20 or 65535, then more requests than the local window holds."),
        assumptions: COMMON_ASSUME.to_vec(),
        workloads: vec![("window-heavy", 4000, 2_000_000, Source::Gen(window_heavy)), ("general", 2000, 1_000_000, Source::Gen(general)), ("window-saturation", 500, 100_000, Source::Script(crate::scripts::saturation_script)), ("flush-fault-then-resume", 400, 40_000, Source::Script(crate::scripts::c06_flush_fault_script)), ("limits-across-connections", 600, 60_000, Source::Script(crate::scripts::limits_across_connections_script))],
        monitor: m::c06::check,
        max_steps: 80,
        epilogue_polls: 0,
        min_nt: (200, 2000),
        required: vec!["not_ready_refusals", "resumes_with_inflight", "window_filled"],
        exhaustive: false,
    }),
    Box::new(MixCheck {
        id: "C07",
        level: "exploration",
        rule: "every accepted PUBLISH(QoS>0)/SUBSCRIBE/UNSUBSCRIBE must get an identifier that is non-zero and not used by any request still awaiting its final acknowledgement (reference in-use set rebuilt from consumed acks). Workloads: scripted wrap histories (1-3 long-lived requests whose acknowledgement is withheld, the 16-bit counter brought to 65532..65535 either through the verif setter or by really burning up to 65535 identifiers through refused publishes, then 6-12 further allocations across the wrap with identifiers burnt in between) and random histories. Non-trivial iff an allocation happened next to the wrap point (counter < 8 or > 65000) while at least one identifier was in use.",
        assumptions: COMMON_ASSUME.to_vec(),
        workloads: vec![("wrap", 1500, 600_000, Source::Script(wrap_script)), ("replay-heavy", 2000, 600_000, Source::Gen(replay_heavy)), ("general", 2000, 600_000, Source::Gen(general)), ("window-saturation", 500, 100_000, Source::Script(crate::scripts::saturation_script)), ("flush-fault-then-wrap", 300, 30_000, Source::Script(crate::scripts::c07_flush_fault_script)), ("smaller-limit-then-wrap", 300, 30_000, Source::Script(crate::scripts::c07_smaller_limit_script))],
        monitor: m::c07::check,
        max_steps: 70,
        epilogue_polls: 0,
        min_nt: (200, 2000),
        required: vec!["allocations_with_ids_in_use", "wraps_observed", "allocations_with_only_released_ids_in_use", "allocations_stepping_over_nine_or_more_ids"],
        exhaustive: false,
    }),
    Box::new(MixCheck {
        id: "C09",
        level: "exploration",
        rule: "the request kept by the harness is compared structurally with the independent decoding of the bytes that operation put on the wire (CONNECT incl. will/auth/keep-alive/expiry/limits, PUBLISH, SUBSCRIBE, UNSUBSCRIBE, DISCONNECT); refused requests must leave nothing on the wire or in the arena. Workloads: scripted boundary cases (13 will x auth x QoS x retain configurations, keep-alive/expiry extremes, remaining lengths 126..129, 16382..16385, 2097150..2097153, property strings of 0/1/127/128/65535 bytes, all 36 subscription-option combinations, transmit arenas from 0 to just enough, 65536-byte fields, lying/failing payload closures) plus random programs; scripted workload `limits-across-connections`: two to five connections of one session whose CONNACKs announce different selections of Maximum QoS / Receive Maximum / Maximum Packet Size / Server Keep Alive / Topic Alias Maximum / Assigned Client Identifier (present on some, absent on others), the same battery of requests on each: what goes out obeys the announcements of its own connection only. Non-trivial iff a packet with properties / will / auth / at a remaining-length boundary was compared or a request was refused.",
        assumptions: COMMON_ASSUME.to_vec(),
        workloads: vec![("boundaries", 3000, 1_200_000, Source::Script(crate::scripts::c09_script)), ("general", 2000, 1_000_000, Source::Gen(general)), ("ping-between-pieces", 300, 30_000, Source::Script(crate::scripts::ping_between_pieces_script)), ("partial-then-disconnect", 300, 30_000, Source::Script(crate::scripts::c11_script)), ("inbound-qos2-full", 300, 30_000, Source::Gen(inbound_qos2_full)), ("limits-across-connections", 600, 60_000, Source::Script(crate::scripts::limits_across_connections_script)), ("disconnect-asked-again", 400, 40_000, Source::Script(crate::scripts::disconnect_asked_again_script))],
        monitor: m::c09::check,
        max_steps: 60,
        epilogue_polls: 0,
        min_nt: (200, 2000),
        required: vec!["connects_compared", "publishes_compared", "subscribes_compared", "disconnects_compared", "refused_requests"],
        exhaustive: false,
    }),
    Box::new(MixCheck {
        id: "C10",
        level: "exploration",
        rule: "virtual-time executions in which the application waits in poll() all the time: keep-alive in {0,1,2,3,9,10,11,60,65535} s x Server Keep Alive override {none,0,1,5,30,65535} s; outbound publishes, inbound publishes and PINGRESP placed at deadline-1 tick, deadline, deadline+1 tick and random instants; PINGRESP immediate / delayed by 4999999, 5000000, 5000001 us, KA/2+-1 tick, random / never. The monitor measures the gap between consecutive completed client packets against the effective keep-alive, the absence of pings at keep-alive 0, the instant at which an unanswered PINGREQ ends the wait (exactly 5 s after its flush), no disconnect when the PINGRESP came in time, never two outstanding pings. Further schedules: earlier connections of the same session with a different Server Keep Alive; a broker Maximum Packet Size of 24 (publishes refused locally are not client packets) or of 64 KiB / 1 MiB / 16 MiB; a slow transport (one byte per write, busy for 1 to 4.9 s after a partial write); a PINGREQ given up by the caller after its first byte; a sluggish executor that polls the task woken by arriving data 1 ms to 7 s late (a PINGRESP counts as received when it reached the transport while the call that then read it, or gave the connection up, was waiting). Gaps and late reports that span a busy transport or a late wake-up are counted, not judged; never-too-early and no-spurious-timeout are judged on every connection whose stream stayed in sync. Non-trivial iff a PINGREQ was sent or a timeout fired.",
        assumptions: {
            let mut v = COMMON_ASSUME.to_vec();
            v.push("the documented round-trip bound is ROUND_TRIP_TIMEOUT_MS = 5000 ms, counted from the completion of the PINGREQ flush");
            v.push("virtual time advances only while the application waits; transport calls take no time");
            v
        },
        workloads: vec![("keepalive", 4000, 8_000_000, Source::Script(crate::scripts::c10_script))],
        monitor: m::c10::check,
        max_steps: 60,
        epilogue_polls: 0,
        min_nt: (200, 2000),
        required: vec!["pingreq_seen", "dead_peer_detected", "pingresp_in_time", "connections_with_keepalive_zero"],
        exhaustive: false,
    }),
    Box::new(SweepCheck {
        id: "C11",
        level: "fault_enumeration",
        rule: "for generated base programs covering every operation kind with queued work, a transport fault (ConnectionReset, EOF, TimedOut, BrokenPipe, Interrupted, Other) is injected at every I/O call index of every connection (one re-execution per index); broker DISCONNECT / stream close / garbage and graceful disconnect come from the programs themselves; after the first latching result on a handle every further operation must fail fast without any read/write/flush. Non-trivial iff a latch was observed; distinct keys = (operation, await index, fault kind) triples.",
        assumptions: COMMON_ASSUME.to_vec(),
        workloads: vec![("dead-handle", 300, 30_000, dead_handle as ProfileFn), ("general", 100, 10_000, general)],
        monitor: m::c11::check,
        max_steps: 40,
        epilogue_polls: 0,
        round_trip: false,
        cap: (40, 400),
        mode: SweepMode::Faults,
        plain_from: usize::MAX,
        min_nt: (200, 2000),
        required: vec!["latches_observed", "ops_after_latch", "probes_after_latch"],
    }),
    Box::new(SweepCheck {
        id: "C12",
        level: "fault_enumeration",
        rule: "generated prior histories (rejected / garbled / EOF / silent / cancelled handshakes, transport failures, broker DISCONNECT, handle dropped / forgotten / into_inner, malformed broker data, arenas from 48 bytes up with up to 8 retained packets) are re-executed with a transport fault at every I/O call index and with a cancellation at every await index of every operation; each ends with connect() over a healthy whole-buffer transport to the conformant reference broker, which must succeed, start with one complete CONNECT, carry nothing over, and then complete a subscribe + QoS 1 publish + inbound QoS 1 publish round trip. Non-trivial iff the prior history ended in a failure/cancellation or left in-flight state; configurations whose empty arena cannot hold a CONNECT are excluded.",
        assumptions: COMMON_ASSUME.to_vec(),
        workloads: vec![("session-mix", 150, 15_000, session_mix as ProfileFn), ("tiny-arena", 150, 15_000, tiny_arena), ("general", 100, 10_000, general), ("inbound-qos2-full", 60, 6_000, inbound_qos2_full), ("keepalive-mix", 100, 10_000, keepalive_mix)],
        monitor: m::c12::check,
        max_steps: 30,
        epilogue_polls: 60,
        round_trip: true,
        cap: (40, 300),
        mode: SweepMode::Both,
        plain_from: usize::MAX,
        min_nt: (200, 2000),
        required: vec!["reconnects_judged", "reconnects_with_inflight_state", "round_trips_completed", "reconnects_with_full_inbound_qos2_table", "reconnects_with_inflight_state_on_a_broker_that_lost_the_session"],
    }),
    Box::new(SweepCheck {
        id: "C16",
        level: "fault_enumeration",
        rule: "liveness restated as bounded progress: the end state of every explored history (random programs re-executed with a transport fault at every I/O call index and a cancellation at every await index; saturated queues, crashes in the middle of a replay) is continued benignly (reconnect with the session present if the client asks for it, whole-buffer transport, broker acknowledging everything at once; one continuation in three announces the smallest Maximum Packet Size - at least 5 - under which every packet the session still holds fits, the others no limits) and poll() is called until the client goes idle; it must do so within N = 208 + 8 x inbound backlog calls, be publish-quiescent with every non-invalidated handle complete and no owed control packet left, never exceed the per-call watchdog budget (4096 transport calls), and poll() may return Ok(None) only after a byte moved or a flush completed. Every other continuation begins on the connection the history ended on, if that is still up: planned faults, stalls and delays are dropped, withheld acknowledgements go out, the application polls there up to twelve times and only then drops the handle and reconnects as above; on that stretch poll() must never answer InflightExhausted nor WriteZero when every write that was offered a byte took one (what may legitimately end that connection - a parked DISCONNECT, an unanswered PINGREQ, an owed packet above the limit, bytes that are not MQTT - is counted, not judged). Scripted workload probe-due-on-a-full-send-buffer: a PINGREQ falls due while the transport accepts nothing and the wait is given up 1..12 times in a row. Non-trivial iff the continuation started with queued entries or after a failed operation; distinct keys = end-state shapes (retained/release/control/inbound-QoS2 counts).",
        assumptions: COMMON_ASSUME.to_vec(),
        workloads: vec![("replay-heavy", 150, 15_000, replay_heavy as ProfileFn), ("inbound-heavy", 100, 10_000, inbound_heavy), ("general", 100, 10_000, general), ("keepalive-mix", 100, 10_000, keepalive_mix)],
        monitor: m::c16::check,
        max_steps: 40,
        epilogue_polls: 260,
        round_trip: false,
        cap: (40, 300),
        mode: SweepMode::Both,
        plain_from: usize::MAX,
        min_nt: (200, 2000),
        required: vec!["continuations_judged", "quiescent_in_the_end", "continuations_with_tight_packet_size_limit"],
    }),
    Box::new(crate::inbound::C08),
    Box::new(crate::leak::C17),
    Box::new(crate::requests::C19),
    Box::new(crate::requests::C20),
    Box::new(crate::twins::C13),
    Box::new(crate::twins::C15),
    Box::new(MixCheck {
        id: "C14",
        level: "exploration",
        rule: concat!("scripted workload `requests-around-every-limit`: for every broker limit from 8 to 300 bytes and the limits around the places where the Remaining Length grows by a byte (130, 16387, 2097156 and their neighbours) one request - QoS 0/1/2 publish, SUBSCRIBE, UNSUBSCRIBE - whose packet is exactly limit-2 .. limit+2 bytes long, then a small request on the same connection; ", "programs against brokers announcing Maximum Packet Size in {2..64,127,128,129,absent} with requests sized so that the encoded packet lands within +-3 bytes of the limit (publish at every QoS, subscribe, unsubscribe, disconnect), owed acknowledgements in 4- and 5-byte forms, retained packets replayed under a smaller limit, receive buffers 24..256 bytes with inbound packets of rx-2..rx+2 bytes. Non-trivial iff a packet within +-3 bytes of the limit was sent, a request was refused as too large, a mandatory packet did not fit or an oversize inbound packet arrived.", " Scripted workload `mandatory-acks`: Maximum Packet Size 2..8 on a fresh or resumed connection x the packet the client owes {PUBACK, PUBREC for a first delivery, PUBREC for a redelivery of an exchange left open by the previous connection, PUBCOMP, PUBREL of an outbound exchange}: whenever the owed packet does not fit, the call reports it and the handle is dead afterwards."),
        assumptions: COMMON_ASSUME.to_vec(),
        workloads: vec![("mps-edges", 5000, 3_000_000, Source::Gen(mps_edges)), ("general", 1000, 500_000, Source::Gen(general)), ("mandatory-acks", 600, 200_000, Source::Script(crate::scripts::c14_script)), ("requests-around-every-limit", 3000, 300_000, Source::Script(crate::scripts::around_every_limit_script)), ("limits-across-connections", 600, 60_000, Source::Script(crate::scripts::limits_across_connections_script))],
        monitor: m::c14::check,
        max_steps: 70,
        epilogue_polls: 0,
        min_nt: (200, 2000),
        required: vec!["too_large_refusals", "mandatory_packet_did_not_fit", "oversize_inbound_rejected", "acks_owed_under_tiny_limit", "connects_with_receive_buffer_above_64k"],
        exhaustive: false,
    }),
    Box::new(MixCheck {
        id: "C18",
        level: "exploration",
        rule: concat!("status of every operation handle is queried after every step and compared with a reference model (pending until the final ack was consumed in the issuing session, invalidated once a fresh-session CONNACK was consumed); failure codes must surface as Rejected from the consuming call. Non-trivial iff a status transition was observed.", " Workload `wrap`: the identifier counter wraps with older operations outstanding (C07's script), so that handles are queried while the in-flight lists are not in identifier order."),
        assumptions: COMMON_ASSUME.to_vec(),
        workloads: vec![("acks-heavy", 4000, 2_000_000, Source::Gen(acks_heavy)), ("general", 2000, 1_000_000, Source::Gen(general)), ("long-lived-among-many", 300, 30_000, Source::Script(crate::scripts::long_lived_among_many_script)), ("wrap", 600, 300_000, Source::Script(wrap_script)), ("window-saturation", 400, 40_000, Source::Script(crate::scripts::saturation_script)), ("tiny-limit", 200, 20_000, Source::Script(crate::scripts::c18_script)), ("many-fresh-sessions", 24, 600, Source::Script(crate::scripts::fresh_sessions_script))],
        monitor: m::c18::check,
        max_steps: 70,
        epilogue_polls: 0,
        min_nt: (200, 2000),
        required: vec!["probes_compared", "rejections_surfaced", "probes_after_identifier_wrap"],
        exhaustive: false,
    }),
    ]
}
