//! Registry of checks: which workloads feed which monitor.

use crate::exec::*;
use crate::genr::*;
use crate::monitors as m;
use crate::rng::Rng;
use crate::runner::*;
use crate::trace::*;
use serde_json::json;

pub type MonitorFn = fn(&Trace<'_>, &mut CaseOut) -> bool;
pub type ProfileFn = fn(&mut Rng) -> Profile;

pub struct GenCheck {
    pub id: &'static str,
    pub level: &'static str,
    pub rule: &'static str,
    pub assumptions: Vec<&'static str>,
    pub workloads: Vec<(&'static str, u64, u64, ProfileFn)>,
    pub monitor: MonitorFn,
    pub max_steps: usize,
    pub min_nt: (usize, usize),
    pub required: Vec<&'static str>,
}

pub fn sample_of(log: &RunLog, w: &crate::world::World) -> serde_json::Value {
    let steps: Vec<String> = log
        .steps
        .iter()
        .take(40)
        .map(|s| {
            let d = format!("{:?}", s);
            trunc(&d, 160)
        })
        .collect();
    let ops: Vec<String> = log.ops.iter().take(60).map(|o| format!("{}->{:?}", o.kind, o.outcome)).collect();
    let pkts: Vec<String> = w
        .conns
        .iter()
        .flat_map(|c| c.out.packets.iter().map(move |p| format!("c{}:{}{}", c.idx, p.pkt.type_name(), p.pkt.pid().map(|i| format!("#{}", i)).unwrap_or_default())))
        .take(60)
        .collect();
    json!({"cfg": log.cfg, "steps": steps, "ops": ops, "client_packets": pkts, "events": w.events.len()})
}

/// Run a generated case and return everything a monitor needs.
pub fn run_generated(profile: Profile, rng: &mut Rng, seed: u64, max_steps: usize) -> (RunLog, crate::world::Shared) {
    let cfg = gen_cfg(rng, &profile);
    let mut g = Gen::new(rng.next(), profile);
    run_case(&cfg, seed, &mut g, max_steps)
}

pub fn finish_case(id: &str, log: &RunLog, w: &crate::world::World, out: &mut CaseOut, nontrivial: bool, verbose: bool) {
    out.evaluations += 1;
    if let Some(e) = &log.setup_error {
        out.inconclusive = Some(format!("setup error: {}", e));
    }
    if nontrivial {
        out.nontrivial.push(abstract_trace(log, w));
        if out.sample.is_none() {
            out.sample = Some(sample_of(log, w));
        }
    }
    for p in &log.probes {
        if let Some(s) = &p.snap {
            out.states.push(abstract_state(s));
        }
    }
    out.states.sort_unstable();
    out.states.dedup();
    if verbose {
        for l in render(log, w, 4000) {
            println!("{}", l);
        }
        println!("--- {} violations for {}", out.violations.len(), id);
        for v in &out.violations {
            println!("VIOLATION-DETAIL {} :: {}", v.sig, v.msg);
        }
    }
}

impl Check for GenCheck {
    fn id(&self) -> &'static str {
        self.id
    }
    fn level(&self) -> &'static str {
        self.level
    }
    fn rule(&self) -> String {
        self.rule.to_string()
    }
    fn assumptions(&self) -> Vec<String> {
        self.assumptions.iter().map(|s| s.to_string()).collect()
    }
    fn workloads(&self) -> Vec<Workload> {
        self.workloads.iter().map(|(n, q, t, _)| Workload { name: n, quick: *q, thorough: *t }).collect()
    }
    fn min_nontrivial(&self, tier: Tier) -> usize {
        if tier == Tier::Quick { self.min_nt.0 } else { self.min_nt.1 }
    }
    fn required_counters(&self) -> Vec<&'static str> {
        self.required.clone()
    }
    fn run(&self, workload: usize, seed: u64, _index: u64, _tier: Tier, verbose: bool) -> CaseOut {
        let mut rng = Rng::new(seed);
        let profile = (self.workloads[workload].3)(&mut rng);
        let (log, world) = run_generated(profile, &mut rng, seed, self.max_steps);
        let w = world.borrow();
        let t = Trace::new(&log, &w);
        let mut out = CaseOut::default();
        let nt = (self.monitor)(&t, &mut out);
        if w.watchdog_tripped {
            out.count("watchdog_truncated_runs", 1);
        }
        finish_case(self.id, &log, &w, &mut out, nt, verbose);
        out
    }
}

fn general(_r: &mut Rng) -> Profile {
    Profile::default()
}

fn c01_cancel_heavy(r: &mut Rng) -> Profile {
    let mut p = Profile::default();
    p.name = "cancel-heavy";
    p.cancel_pct = 45;
    p.hostile_io_pct = 95;
    p.conn_fault_pct = 10;
    p.bad_connack_pct = 4;
    p.w_disconnect = 4;
    p.max_conns = 4;
    p.payload_max = *r.pick(&[8usize, 40, 200]);
    p
}

pub fn all() -> Vec<Box<dyn Check>> {
    vec![Box::new(GenCheck {
        id: "C01",
        level: "exploration",
        rule: "random adaptive programs (all write/read chunkings, injected Pending before I/O calls, cancellation of cancel-safe operations at random await indices, transport faults, resumed/fresh reconnects); every connection's outbound bytes are decoded by the independent strict MQTT 5 decoder. A case is non-trivial iff some write call ended inside a packet or a cancellation left 0<n<len bytes of a packet on the wire; distinct = distinct abstract traces (op kinds/outcomes, packet types, length buckets, fault kinds).",
        assumptions: vec![
            "refcodec strict decoder implements the MQTT 5.0 client-packet rules correctly",
            "QoS 0 publish is documented as not cancel-safe: the stream after a cancelled QoS 0 publish is not judged",
            "a transport whose write returns Ok(0) violates embedded-io and is not judged",
            "user inputs are valid (topics without wildcards, legal reason codes, legal properties)",
        ],
        workloads: vec![("general", 3000, 300_000, general), ("cancel-heavy", 3000, 300_000, c01_cancel_heavy)],
        monitor: m::c01::check,
        max_steps: 60,
        min_nt: (200, 2000),
        required: vec!["writes_ending_mid_packet", "cancelled_mid_packet"],
    })]
}
