//! Derived views over one execution, shared by the monitors.

use crate::exec::*;
use crate::refcodec::{CPacket, Prop, SPacket};
use crate::steps::*;
use crate::world::*;
use std::collections::hash_map::DefaultHasher;
use std::hash::{Hash, Hasher};

#[derive(Clone, Debug)]
pub struct Violation {
    pub prop: &'static str,
    pub sig: String,
    pub msg: String,
}

pub fn viol(prop: &'static str, sig: impl Into<String>, msg: impl Into<String>) -> Violation {
    Violation { prop, sig: sig.into(), msg: msg.into() }
}

#[derive(Clone, Debug)]
pub struct ConnInfo {
    pub idx: usize,
    pub connect_op: Option<usize>,
    pub established: bool,
    /// CONNACK the broker produced (sp, reason, props); None for raw/none answers
    pub connack: Option<(bool, u8, Vec<Prop>)>,
    /// the client read the CONNACK completely
    pub connack_consumed: bool,
    pub ev_connack_consumed: Option<usize>,
    pub rm: u32,
    pub mps: Option<u32>,
    pub maxqos: Option<u8>,
    pub ska: Option<u16>,
    pub assigned: Option<String>,
    pub clean_start: Option<bool>,
    pub ev_begin: usize,
    pub ev_end: usize,
    /// a QoS 0 publish was cancelled on this connection at this outbound offset
    pub qos0_cancel_at: Option<usize>,
    /// some operation on this connection returned a transport/protocol error or it was faulted
    pub had_error: bool,
    /// a write of the CONNECT was answered Ok(0)
    pub write_zero: bool,
    /// some write was answered Ok(0)
    pub zero_seen: bool,
    /// the outbound stream of this connection could be parsed to its end: no framing error, no
    /// cancelled QoS 0 publish that left bytes behind, no Ok(0) write
    pub stream_ok: bool,
}

pub struct Trace<'a> {
    pub log: &'a RunLog,
    pub w: &'a World,
    pub conns: Vec<ConnInfo>,
    /// for every event index: the client session epoch (number of fresh-session CONNACKs consumed so far)
    pub epoch_at: Vec<u32>,
}

/// The operation left bytes on the wire that no later call completes: it was given up (or ran
/// away) after part of what it wrote, or a write it made straight from scratch space (QoS 0
/// PUBLISH, CONNECT, a reply) was answered `Ok(0)` part-way. (A queue-based packet hit by `Ok(0)`
/// keeps its progress and is carried on by the next call.)
pub fn left_bytes_behind(log: &RunLog, o: &OpRec) -> bool {
    if o.out_after <= o.out_before {
        return false;
    }
    match &o.outcome {
        Outcome::Cancelled | Outcome::Watchdog => true,
        Outcome::Err(ErrRepr::WriteZero) => o.kind == "connect" || o.kind == "publish0" || o.kind == "pollreply" || matches!(&log.steps[o.step], Step::Publish(p) if p.qos == 0 || log.cfg.downgrade),
        _ => false,
    }
}

impl<'a> Trace<'a> {
    pub fn new(log: &'a RunLog, w: &'a World) -> Self {
        let mut conns: Vec<ConnInfo> = w
            .conns
            .iter()
            .map(|c| {
                let connack = c.connack_sent.clone();
                let (mut rm, mut mps, mut maxqos, mut ska, mut assigned) = (65535u32, None, None, None, None);
                if let Some((_, 0, props)) = &connack {
                    for p in props {
                        match p {
                            Prop::ReceiveMaximum(v) => rm = *v as u32,
                            Prop::MaximumPacketSize(v) => mps = Some(*v),
                            Prop::MaximumQoS(v) => maxqos = Some(*v),
                            Prop::ServerKeepAlive(v) => ska = Some(*v),
                            Prop::AssignedClientId(s) => assigned = Some(s.clone()),
                            _ => {}
                        }
                    }
                }
                let connack_pkt = c.in_pkts.iter().find(|p| matches!(p.pkt, Some(SPacket::ConnAck { .. })));
                ConnInfo {
                    idx: c.idx,
                    connect_op: None,
                    established: false,
                    connack,
                    connack_consumed: connack_pkt.is_some_and(|p| p.t_consumed.is_some()),
                    ev_connack_consumed: connack_pkt.and_then(|p| p.ev_consumed),
                    rm,
                    mps,
                    maxqos,
                    ska,
                    assigned,
                    clean_start: c.out.packets.first().and_then(|p| match &p.pkt {
                        CPacket::Connect { clean_start, .. } => Some(*clean_start),
                        _ => None,
                    }),
                    ev_begin: 0,
                    ev_end: w.events.len(),
                    qos0_cancel_at: None,
                    had_error: c.faulted,
                    write_zero: false,
                    zero_seen: false,
                    stream_ok: true,
                }
            })
            .collect();
        for (i, e) in w.events.iter().enumerate() {
            match e {
                Ev::ConnBegin { conn } => conns[*conn].ev_begin = i,
                Ev::ConnEnd { conn } => conns[*conn].ev_end = i,
                Ev::Io { conn, ans: IoAns::Zero, .. } => {
                    // a write answered Ok(0): queue-based packets keep their progress and are
                    // carried on by the next call (the handle stays up); a QoS 0 PUBLISH cut
                    // short that way ends the connection like a transport error does; a CONNECT
                    // cut short that way is the end of that handshake
                    let op = log.ops.iter().find(|o| o.ev_call <= i && i <= o.ev_ret);
                    let direct = op.is_none_or(|o| o.kind == "connect");
                    conns[*conn].zero_seen = true;
                    if direct {
                        conns[*conn].write_zero = true;
                    }
                }
                _ => {}
            }
        }
        for (i, op) in log.ops.iter().enumerate() {
            let Some(c) = op.conn else { continue };
            if op.kind == "connect" {
                conns[c].connect_op = Some(i);
                conns[c].established = matches!(op.outcome, Outcome::Ok(_));
            }
            let eff0 = match &log.steps[op.step] {
                Step::Publish(p) => {
                    p.qos == 0 || (log.cfg.downgrade && conns[c].maxqos.is_some_and(|m| m == 0) && conns[c].established)
                }
                _ => false,
            };
            if eff0 && op.outcome == Outcome::Cancelled && conns[c].qos0_cancel_at.is_none() {
                conns[c].qos0_cancel_at = Some(op.out_before);
            }
            if matches!(
                op.outcome,
                Outcome::Err(ErrRepr::Transport(_) | ErrRepr::Disconnected | ErrRepr::InvalidPacket | ErrRepr::WriteZero | ErrRepr::PacketTooLarge)
            ) {
                conns[c].had_error = true;
            }
        }
        for (i, op) in log.ops.iter().enumerate() {
            let _ = i;
            let _ = op;
        }
        for c in conns.iter_mut() {
            if w.conns[c.idx].out.error.is_some() || c.write_zero || c.qos0_cancel_at.is_some() {
                c.stream_ok = false;
            }
        }
        let mut epoch_at = Vec::with_capacity(w.events.len() + 1);
        let mut epoch = 0u32;
        for e in w.events.iter() {
            if let Ev::Consumed { conn, idx } = e {
                if let Some(SPacket::ConnAck { sp: false, reason: 0, .. }) = &w.conns[*conn].in_pkts[*idx].pkt {
                    epoch += 1;
                }
            }
            epoch_at.push(epoch);
        }
        epoch_at.push(epoch);
        Trace { log, w, conns, epoch_at }
    }

    pub fn op_epoch(&self, op: usize) -> u32 {
        self.epoch_at[self.log.ops[op].ev_call]
    }

    /// QoS actually used by a publish operation (auto-downgrade applied).
    pub fn eff_qos(&self, op: usize) -> Option<u8> {
        let o = &self.log.ops[op];
        match &self.log.steps[o.step] {
            Step::Publish(p) => {
                let mut q = p.qos;
                if self.log.cfg.downgrade {
                    if let Some(m) = o.conn.and_then(|c| self.conns[c].maxqos) {
                        q = q.min(m);
                    }
                }
                Some(q)
            }
            _ => None,
        }
    }

    pub fn spec_of(&self, op: usize) -> &Step {
        &self.log.steps[self.log.ops[op].step]
    }

    /// All client packets of all connections in wire order: (conn, idx, event index).
    pub fn client_packets(&self) -> Vec<(usize, usize, usize)> {
        self.w
            .events
            .iter()
            .enumerate()
            .filter_map(|(i, e)| match e {
                Ev::CPkt { conn, idx } => Some((*conn, *idx, i)),
                _ => None,
            })
            .collect()
    }

    pub fn cpkt(&self, conn: usize, idx: usize) -> &crate::refcodec::CRec {
        &self.w.conns[conn].out.packets[idx]
    }

    pub fn spkt(&self, conn: usize, idx: usize) -> &InPkt {
        &self.w.conns[conn].in_pkts[idx]
    }

    /// The operation (index) during which event `ev` happened, if any.
    pub fn op_at(&self, ev: usize) -> Option<usize> {
        // ops are sequential and non-overlapping
        let ops = &self.log.ops;
        let i = ops.partition_point(|o| o.ev_ret < ev);
        ops.get(i).filter(|o| o.ev_call <= ev && ev <= o.ev_ret).map(|_| i)
    }
}

/// Truncate for display without splitting a UTF-8 character.
pub fn trunc(s: &str, n: usize) -> String {
    if s.len() <= n {
        return s.to_string();
    }
    let mut e = n;
    while !s.is_char_boundary(e) {
        e -= 1;
    }
    format!("{}…", &s[..e])
}

pub fn hash_of<T: Hash>(t: &T) -> u64 {
    let mut h = DefaultHasher::new();
    t.hash(&mut h);
    h.finish()
}

pub fn bucket_len(n: usize) -> u8 {
    match n {
        0 => 0,
        1 => 1,
        2..=127 => 2,
        128..=16383 => 3,
        _ => 4,
    }
}

/// Abstraction of a session snapshot used as the "distinct states seen" metric.
pub fn abstract_state(s: &Snap) -> u64 {
    let send = |x: &minimq::verif::VerifSend| match x {
        minimq::verif::VerifSend::Write(0) => 0u8,
        minimq::verif::VerifSend::Write(_) => 1,
        minimq::verif::VerifSend::Flush => 2,
        minimq::verif::VerifSend::Sent => 3,
    };
    let t = (
        s.send_quota.min(9),
        s.max_send_quota.min(9),
        s.maximum_packet_size.is_some(),
        s.max_qos,
        s.session_present,
        s.pending_server_packet_ids.len(),
        s.reader_read_bytes.min(3),
        s.tx.retained.iter().map(|e| send(&e.state)).collect::<Vec<_>>(),
        s.tx.release.iter().map(|e| send(&e.state)).collect::<Vec<_>>(),
        s.tx.control.iter().map(|e| (e.kind, send(&e.state))).collect::<Vec<_>>(),
        bucket_len(s.tx.capacity - s.tx.used.min(s.tx.capacity)),
        s.ping_timeout.is_some(),
    );
    hash_of(&t)
}

/// Abstract trace: sequence of step kinds, outcomes and packet types with bucketed numbers.
pub fn abstract_trace(log: &RunLog, w: &World) -> u64 {
    let mut h = DefaultHasher::new();
    for e in &w.events {
        match e {
            Ev::OpCall { op } => (0u8, log.ops[*op].kind).hash(&mut h),
            Ev::OpRet { op } => {
                let o = &log.ops[*op];
                let oc: u8 = match &o.outcome {
                    Outcome::Ok(_) => 0,
                    Outcome::Err(e) => 10 + (hash_of(e) % 50) as u8,
                    Outcome::Cancelled => 1,
                    Outcome::CallerTimeout => 2,
                    Outcome::Watchdog => 3,
                    Outcome::Skipped => 4,
                };
                (1u8, oc, o.pendings.min(4)).hash(&mut h)
            }
            Ev::CPkt { conn, idx } => {
                let p = &w.conns[*conn].out.packets[*idx];
                (2u8, p.b0, bucket_len(p.end - p.start)).hash(&mut h)
            }
            Ev::Consumed { conn, idx } => {
                let p = &w.conns[*conn].in_pkts[*idx];
                (3u8, p.raw.first().copied(), bucket_len(p.raw_len)).hash(&mut h)
            }
            Ev::Io { kind, ans, .. } => match ans {
                IoAns::Err(k) => (4u8, *kind, *k).hash(&mut h),
                IoAns::Eof => (5u8, *kind).hash(&mut h),
                IoAns::Pending(PendWhy::Injected) => (6u8, *kind).hash(&mut h),
                _ => {}
            },
            Ev::ConnBegin { .. } => 7u8.hash(&mut h),
            Ev::ConnEnd { .. } => 8u8.hash(&mut h),
            _ => {}
        }
    }
    h.finish()
}

pub fn step_kinds(log: &RunLog) -> Vec<&'static str> {
    log.steps.iter().map(|s| s.kind()).collect()
}

/// Short human-readable rendering of a run, for samples and replays.
pub fn render(log: &RunLog, w: &World, max_events: usize) -> Vec<String> {
    let mut out = Vec::new();
    let start = w.events.len().saturating_sub(max_events);
    for (i, e) in w.events.iter().enumerate().skip(start) {
        let line = match e {
            Ev::Step { idx } => {
                let s = format!("{:?}", log.steps[*idx]);
                format!("step {} {}", idx, trunc(&s, 300))
            }
            Ev::OpCall { op } => format!("  call {} #{}", log.ops[*op].kind, op),
            Ev::OpRet { op } => {
                let o = &log.ops[*op];
                format!("  ret  {} #{} -> {:?} (pendings {}, t={})", o.kind, op, o.outcome, o.pendings, o.t_ret)
            }
            Ev::Io { conn, kind, req, ans, t } => format!("    io c{} {:?}({}) -> {:?} @{}", conn, kind, req, ans, t),
            Ev::CPkt { conn, idx } => {
                let p = &w.conns[*conn].out.packets[*idx];
                let s = format!("{:?}", p.pkt);
                format!("    >> c{} [{}..{}] b0={:#04x} {}", conn, p.start, p.end, p.b0, trunc(&s, 200))
            }
            Ev::Flushed { conn } => format!("    flushed c{}", conn),
            Ev::SPkt { conn, idx } => {
                let p = &w.conns[*conn].in_pkts[*idx];
                let s = match &p.pkt {
                    Some(p) => format!("{:?}", p),
                    None => format!("raw {:02x?}", &p.raw[..p.raw.len().min(32)]),
                };
                format!("    << c{} enq {}", conn, trunc(&s, 200))
            }
            Ev::Consumed { conn, idx } => format!("    consumed c{} #{}", conn, idx),
            Ev::Delivered { msg } => {
                let m = &log.msgs[*msg];
                format!("    delivered topic={:?} qos={} len={}", m.topic, m.qos, m.payload.len())
            }
            Ev::Probe { idx } => {
                let p = &log.probes[*idx];
                let tx = p.snap.as_ref().map(|s| {
                    format!(
                        "quota={}/{} used={}/{} ret={:?} rel={:?} ctl={:?} in2={:?} nextpid={}",
                        s.send_quota,
                        s.max_send_quota,
                        s.tx.used,
                        s.tx.capacity,
                        s.tx.retained.iter().map(|e| (e.packet_id, e.len, e.state)).collect::<Vec<_>>(),
                        s.tx.release.iter().map(|e| (e.packet_id, e.state)).collect::<Vec<_>>(),
                        s.tx.control.iter().map(|e| (e.kind, e.packet_id, e.state)).collect::<Vec<_>>(),
                        s.pending_server_packet_ids.as_slice(),
                        s.next_packet_id
                    )
                });
                format!("    probe connected={} can={:?} quiescent={} status={:?} {}", p.is_connected, p.can_publish, p.quiescent, p.status, tx.unwrap_or_default())
            }
            Ev::Time { from, to } => format!("    time {} -> {}", from, to),
            Ev::ConnBegin { conn } => format!("conn {} begin", conn),
            Ev::ConnEnd { conn } => format!("conn {} end", conn),
            Ev::Watchdog => "WATCHDOG".to_string(),
            Ev::ClockSpin => "CLOCK-SPIN (future busy-waited on the clock)".to_string(),
            Ev::SlowWrite { conn, from, to } => format!("  conn {} transport busy {} -> {}", conn, from, to),
            Ev::LateWake { conn, from, to } => format!("  conn {} data arrived at {}, task polled at {}", conn, from, to),
            Ev::GateHit { conn, offset } => format!("  conn {} inbound stream stalled at byte {}", conn, offset),
        };
        out.push(format!("{:5} {}", i, line));
    }
    out
}
