//! C19 — invalid requests are refused locally and leave no trace; QoS is capped when asked.
//! C20 — reply helpers address exactly the requester.

use crate::checks::*;
use crate::exec::*;
use crate::refcodec::{ALL_PROP_IDS, CPacket, Prop, SPacket};
use crate::rng::Rng;
use crate::runner::*;
use crate::scripts::str_of;
use crate::steps::*;
use crate::trace::*;

#[derive(Clone, Copy, Debug, PartialEq, Eq)]
pub enum Ctx {
    Publish,
    Will,
    Subscribe,
    Unsubscribe,
    Disconnect,
    /// a publish built with `correlate()` that also carries caller properties
    PublishCorrelated,
    /// the publication offered by `reply()` / `reply_owned()` with caller properties added
    Reply,
}
pub const CTXS: [Ctx; 7] = [Ctx::Publish, Ctx::Will, Ctx::Subscribe, Ctx::Unsubscribe, Ctx::Disconnect, Ctx::PublishCorrelated, Ctx::Reply];

#[derive(Clone, Copy, Debug, PartialEq, Eq)]
pub enum V {
    Accept,
    Reject,
    DontCare,
}

pub struct Env {
    pub topic_alias_max: u16,
    pub connect_expiry: u32,
}

/// Reference table written from MQTT 5.0 Table 2-4 and sections 3.1.3.2, 3.3.2.3, 3.8.2.1,
/// 3.10.2.1, 3.14.2.2 (DESIGN.md appendix A). Independent of minimq's `is_valid_for`.
pub fn verdict(p: &Prop, ctx: Ctx, env: &Env) -> V {
    use Prop::*;
    use V::*;
    // the request/response builders produce ordinary PUBLISH packets: same table, except that a
    // second Correlation Data next to the one the builder adds is a protocol error either way
    // a string or binary value longer than 65535 bytes cannot be encoded: refused wherever it is
    // attached to a request (a will is judged when the CONNECT is built: C09)
    if too_long(p) {
        return if ctx == Ctx::Will { DontCare } else { Reject };
    }
    let ctx = match (ctx, p) {
        (Ctx::PublishCorrelated | Ctx::Reply, CorrelationData(_)) => return DontCare,
        (Ctx::PublishCorrelated | Ctx::Reply, _) => Ctx::Publish,
        (c, _) => c,
    };
    match (ctx, p) {
        (Ctx::Publish | Ctx::Will, PayloadFormat(v)) => if *v <= 1 { Accept } else { Reject },
        (Ctx::Publish | Ctx::Will, MessageExpiry(_) | ContentType(_) | ResponseTopic(_) | CorrelationData(_)) => Accept,
        (Ctx::Will, WillDelay(_)) => Accept,
        (Ctx::Publish, TopicAlias(0)) => Reject,
        (Ctx::Publish, TopicAlias(v)) => if *v <= env.topic_alias_max { Accept } else { DontCare },
        (Ctx::Subscribe, SubscriptionId(v)) => if (1..=268_435_455).contains(v) { Accept } else { Reject },
        (Ctx::Disconnect, SessionExpiry(v)) => if *v == 0 || env.connect_expiry != 0 { Accept } else { DontCare },
        (Ctx::Disconnect, ReasonString(_)) => Accept,
        (Ctx::Disconnect, ServerReference(_)) => DontCare,
        (_, UserProperty(..)) => Accept,
        _ => Reject,
    }
}

/// A string / binary value that cannot be encoded (longer than 65535 bytes). Such a request is
/// refused when it is encoded, not when its properties are validated: after the identifier was
/// allocated (C07 counts on refused requests consuming identifiers) and after the admission checks.
pub fn too_long(p: &Prop) -> bool {
    use Prop::*;
    match p {
        ContentType(s) | ResponseTopic(s) | ReasonString(s) | ServerReference(s) | AssignedClientId(s) | AuthMethod(s) | ResponseInfo(s) => s.len() > 65535,
        UserProperty(k, v) => k.len() > 65535 || v.len() > 65535,
        CorrelationData(d) | AuthData(d) => d.len() > 65535,
        _ => false,
    }
}

/// Value variants exercised for one property kind (legal, boundary and illegal values).
pub fn variants(id: u8, r: &mut Rng) -> Vec<Prop> {
    use Prop::*;
    let s = |r: &mut Rng| str_of(*r.pick(&[0usize, 1, 3]), r);
    match id {
        0x01 => vec![PayloadFormat(0), PayloadFormat(1), PayloadFormat(2), PayloadFormat(255)],
        0x02 => vec![MessageExpiry(0), MessageExpiry(u32::MAX)],
        0x03 => vec![ContentType(s(r)), ContentType("c".repeat(65536))],
        0x08 => vec![ResponseTopic("r/t".into()), ResponseTopic("r".repeat(65536))],
        0x09 => vec![CorrelationData(vec![]), CorrelationData(vec![1, 2]), CorrelationData(vec![9; 65536])],
        0x0B => vec![SubscriptionId(0), SubscriptionId(1), SubscriptionId(268_435_455), SubscriptionId(268_435_456), SubscriptionId(u32::MAX)],
        0x11 => vec![SessionExpiry(0), SessionExpiry(1), SessionExpiry(u32::MAX)],
        0x12 => vec![AssignedClientId(s(r))],
        0x13 => vec![ServerKeepAlive(5)],
        0x15 => vec![AuthMethod(s(r))],
        0x16 => vec![AuthData(vec![1])],
        0x17 => vec![RequestProblemInfo(0), RequestProblemInfo(1), RequestProblemInfo(2)],
        0x18 => vec![WillDelay(0), WillDelay(30), WillDelay(u32::MAX)],
        0x19 => vec![RequestResponseInfo(0), RequestResponseInfo(1), RequestResponseInfo(2)],
        0x1A => vec![ResponseInfo(s(r))],
        0x1C => vec![ServerReference(s(r))],
        0x1F => vec![ReasonString(String::new()), ReasonString("x".into()), ReasonString("x".repeat(65537))],
        0x21 => vec![ReceiveMaximum(0), ReceiveMaximum(5)],
        0x22 => vec![TopicAliasMaximum(0), TopicAliasMaximum(5)],
        0x23 => vec![TopicAlias(0), TopicAlias(1), TopicAlias(10), TopicAlias(11), TopicAlias(65535)],
        0x24 => vec![MaximumQoS(0), MaximumQoS(1), MaximumQoS(2), MaximumQoS(3)],
        0x25 => vec![RetainAvailable(0), RetainAvailable(1), RetainAvailable(2)],
        0x26 => vec![UserProperty(String::new(), String::new()), UserProperty("k".into(), "v".into()), UserProperty("k".repeat(65536), "v".into()), UserProperty("k".into(), "v".repeat(65536))],
        0x27 => vec![MaximumPacketSize(0), MaximumPacketSize(100)],
        0x28 => vec![WildcardSubAvailable(0), WildcardSubAvailable(1), WildcardSubAvailable(2)],
        0x29 => vec![SubIdAvailable(0), SubIdAvailable(1), SubIdAvailable(2)],
        _ => vec![SharedSubAvailable(0), SharedSubAvailable(1), SharedSubAvailable(2)],
    }
}

pub struct C19;

const ENV: Env = Env { topic_alias_max: 10, connect_expiry: 3600 };

fn request_step(ctx: Ctx, p: &Prop) -> Step {
    match ctx {
        Ctx::Publish | Ctx::Will => Step::Publish(PubSpec { topic: "c19".into(), payload: PayloadSpec::Bytes(b"ab".to_vec()), qos: 1, retain: false, props: vec![p.clone()], correlate: None, cancel_at: None }),
        Ctx::Subscribe => Step::Subscribe(SubSpec { filters: vec![FilterSpec { filter: "c19/#".into(), max_qos: 1, no_local: false, rap: false, rh: 0 }], props: vec![p.clone()], cancel_at: None }),
        Ctx::Unsubscribe => Step::Unsubscribe(UnsubSpec { filters: vec!["c19".into()], props: vec![p.clone()], cancel_at: None }),
        // built like an application would: `Disconnect::success().with_properties(..)` (no explicit
        // reason code) for user properties and reason strings, an explicit code for the rest
        Ctx::Disconnect => Step::Disconnect(DiscSpec { reason: if matches!(p, Prop::UserProperty(..) | Prop::ReasonString(_)) { None } else { Some(0) }, props: Some(vec![p.clone()]), cancel_at: None }),
        Ctx::PublishCorrelated => Step::Publish(PubSpec { topic: "c19".into(), payload: PayloadSpec::Bytes(b"ab".to_vec()), qos: 1, retain: false, props: vec![p.clone()], correlate: Some(vec![0xC0, 0xDE]), cancel_at: None }),
        Ctx::Reply => unreachable!(),
    }
}

fn no_trace(op: &OpRec, probes: (&ProbeRec, &ProbeRec), identifier_too: bool) -> Option<String> {
    let (b, a) = (op.snap_before.as_ref()?, op.snap_after.as_ref()?);
    let ids = |s: &Snap| s.tx.retained.iter().map(|e| (e.packet_id, e.len)).collect::<Vec<_>>();
    if ids(b) != ids(a) {
        return Some(format!("retained {:?} -> {:?}", ids(b), ids(a)));
    }
    if b.send_quota != a.send_quota {
        return Some(format!("send quota {} -> {}", b.send_quota, a.send_quota));
    }
    if b.tx.release.len() != a.tx.release.len() || b.tx.control.len() != a.tx.control.len() {
        return Some("release/control queues changed".into());
    }
    if probes.0.status != probes.1.status {
        return Some(format!("handle statuses {:?} -> {:?}", probes.0.status, probes.1.status));
    }
    if probes.0.quiescent != probes.1.quiescent || probes.0.can_publish != probes.1.can_publish {
        return Some("quiescence / can_publish changed".into());
    }
    if identifier_too && b.next_packet_id != a.next_packet_id {
        return Some(format!("a packet identifier was consumed ({} -> {}): the next request carries a different identifier on the wire", b.next_packet_id, a.next_packet_id));
    }
    None
}

const PARKED_REASON: &str = "parked in the arena by the first call";

impl Check for C19 {
    fn id(&self) -> &'static str {
        "C19"
    }
    fn level(&self) -> &'static str {
        "exploration"
    }
    fn rule(&self) -> String {
        "EXHAUSTIVE enumeration of 27 property kinds x {publish, will, subscribe, unsubscribe, disconnect, publish built with correlate(), reply()/reply_owned() publication with caller properties} x value variants (legal, boundary, illegal) x session states {idle, in-flight work with withheld acks, handle dead after a broker DISCONNECT, send window used up, all eight in-flight slots used, handle dead after a keep-alive timeout, an earlier disconnect() given up before any byte went out (a request refused there also leaves retained table, quota, identifier counter and handle statuses as they were), an earlier disconnect_with() with properties - parked in the transmit arena - given up after a few of its bytes went out (whatever the next request is and returns, the wire then carries exactly the DISCONNECT the first call asked for)} against a reference table written from the MQTT 5.0 text (Accept / Reject / DontCare): Reject => documented error (InvalidRequest also when the request could not have been admitted anyway) and no trace (no byte of the request written, snapshot incl. the identifier counter, handle statuses, quiescence and can_publish unchanged); Accept => the request succeeds with ample buffers and the property is decoded from the wire with the same value; plus empty SUBSCRIBE/UNSUBSCRIBE lists, sets of several legal properties on one request (repeated User Properties, one of every legal kind together) in each of the five base contexts, and Maximum QoS {absent,0,1} x requested {0,1,2} x auto-downgrade {on,off} x {idle, in-flight work, dead handle, resumed reconnect after a different Maximum QoS, fresh reconnect after a different Maximum QoS}: no PUBLISH above the maximum on the wire, returned handle kind (none / completed by PUBACK / completed by PUBCOMP) matches the QoS sent. Every cell is a distinct non-trivial case. Plus requests-after-random-histories (400 quick / 600 000 thorough): a generated history from one of five profiles, then a request in one of five contexts with one to three properties drawn from the same variants: an illegal one never returns Ok, nothing of it (marker topic / filter) ever reaches the wire, InvalidRequest leaves retained table, quota, PUBREL table and identifier counter unchanged; a legal one is never answered InvalidRequest and what reaches the wire carries exactly the requested properties.".into()
    }
    fn assumptions(&self) -> Vec<String> {
        vec!["the reference table (requests.rs::verdict, DESIGN.md appendix A) is a correct reading of MQTT 5.0".into(), "string content rules (wildcards in a response topic, U+0000) are invalid user input and not generated".into()]
    }
    fn workloads(&self) -> Vec<Workload> {
        vec![Workload { name: "property-cells", quick: 27 * 8 * 7, thorough: 27 * 8 * 7 }, Workload { name: "qos-cap-cells", quick: 5 * 3 * 2 * 3, thorough: 5 * 3 * 2 * 3 }, Workload { name: "empty-lists", quick: 6, thorough: 6 }, Workload { name: "legal-sets", quick: 15, thorough: 15 }, Workload { name: "requests-after-random-histories", quick: 400, thorough: 600_000 }, Workload { name: "long-property-blocks", quick: 124, thorough: 124 }]
    }
    fn min_nontrivial(&self, _tier: Tier) -> usize {
        400
    }
    fn required_counters(&self) -> Vec<&'static str> {
        vec!["cells_accept", "cells_reject", "no_trace_comparisons", "downgrade_cells", "dead_handle_cells", "blocked_state_cells", "qos_cap_cells_after_reconnect", "reply_cells", "legal_set_cells", "dead_by_keepalive_timeout_cells", "random_history_requests", "random_history_rejects_judged", "random_history_rejects_reported_invalid", "closing_handle_cells", "long_property_block_cells", "parked_disconnects_partly_sent_when_the_next_request_came"]
    }
    fn exhaustive(&self) -> bool {
        true
    }
    fn run(&self, workload: usize, seed: u64, index: u64, _tier: Tier, verbose: bool) -> CaseOut {
        let mut out = CaseOut::default();
        let mut rng = Rng::new(seed);
        let inflight_ctx = |s: &mut Vec<Step>| {
            s.push(pubq(1, "bg/1", 1, 3));
            s.push(pubq(2, "bg/2", 2, 3));
            s.push(Step::Subscribe(SubSpec { filters: vec![FilterSpec { filter: "bg/#".into(), max_qos: 1, no_local: false, rap: false, rh: 0 }], props: vec![], cancel_at: None }));
        };
        let mut judge_run = |cfg: &CaseCfg, steps: Vec<Step>, label: String, out: &mut CaseOut, f: &mut dyn FnMut(&Trace<'_>, &mut CaseOut)| {
            let (log, world) = run_script(cfg, steps, seed);
            let w = world.borrow();
            let t = Trace::new(&log, &w);
            let before = out.violations.len();
            f(&t, out);
            out.evaluations += 1;
            out.nontrivial.push(hash_of(&label));
            if out.sample.is_none() {
                out.sample = Some(serde_json::json!({"cell": label, "ops": log.ops.iter().map(|o| format!("{}->{:?}", o.kind, o.outcome)).collect::<Vec<_>>()}));
            }
            if verbose && out.violations.len() > before {
                println!("--- cell {}", label);
                for l in render(&log, &w, 300) {
                    println!("{}", l);
                }
            }
        };
        match workload {
            0 => {
                // 0 idle, 1 in-flight, 2 dead handle, 3 send window used up (Receive Maximum 1, one
                // publish unacknowledged), 4 all eight in-flight slots used
                // ... 5 handle dead because a PINGREQ went unanswered
                // ... 6 an earlier disconnect() was given up before any byte went out (it is parked
                // and the next operation completes it)
                // ... 7 an earlier disconnect_with() carrying properties (its DISCONNECT is parked in
                // the free part of the transmit arena) was given up after a few of its bytes went out
                let state = (index % 8) as u8;
                let ctx = CTXS[((index / 8) % 7) as usize];
                let id = ALL_PROP_IDS[(index / 56) as usize];
                if ctx == Ctx::Reply {
                    // the reply is encoded on an auxiliary, freshly connected session: one state only
                    if state != 0 {
                        return out;
                    }
                    for (k, p) in variants(id, &mut rng).into_iter().enumerate() {
                        let env = Env { topic_alias_max: 0, connect_expiry: 0 };
                        let v = verdict(&p, ctx, &env);
                        let mode = if k % 2 == 0 { ReplyMode::Borrowed } else { ReplyMode::Owned { topic_cap: 64, corr_cap: 64 } };
                        let label = format!("{}/{:?}/Reply/{:?}", Prop::name(id), p, mode);
                        out.key(format!("cell/{}/Reply/{:?}/state0", Prop::name(id), v));
                        let cfg = CaseCfg { rx: 256, tx: 2048, keepalive: 0, ..CaseCfg::default() };
                        let steps = vec![
                            connect_with(SpMode::Force(false), AckMode::Immediate, vec![]),
                            Step::Broker(BrokerAct::Send(SPacket::Publish { dup: false, qos: 0, retain: false, topic: "req".into(), pid: None, props: vec![Prop::ResponseTopic("resp/t".into()), Prop::CorrelationData(vec![7, 0xFF, 7])], payload: vec![1] })),
                            Step::PollReply { mode, payload: b"ok".to_vec(), user_props: Some(vec![p.clone()]), qos: 1 },
                        ];
                        let pc = p.clone();
                        judge_run(&cfg, steps, label.clone(), &mut out, &mut |t, out| {
                            match v {
                                V::Accept => out.count("cells_accept", 1),
                                V::Reject => out.count("cells_reject", 1),
                                V::DontCare => out.count("cells_dontcare", 1),
                            }
                            out.count("reply_cells", 1);
                            let Some(rep) = t.log.replies.first() else {
                                out.violations.push(viol("C19", "C19/reply/no-reply-offered", format!("{}: the request carried a response topic but no reply was produced", label)));
                                return;
                            };
                            match (v, &rep.sent) {
                                (V::Reject, Some(k)) => out.violations.push(viol("C19", format!("C19/reply/{}={}/accepted", Prop::name(id), value_class(&pc)), format!("reply with the illegal property {:?} was accepted and sent as {:?}", pc, k))),
                                (V::Accept, None) => out.violations.push(viol("C19", format!("C19/reply/{}/refused", Prop::name(id)), format!("reply with the legal property {:?} was refused", pc))),
                                (V::Accept, Some(CPacket::Publish { props, topic, .. })) => {
                                    if topic != "resp/t" || !props.contains(&pc) || !props.contains(&Prop::CorrelationData(vec![7, 0xFF, 7])) {
                                        out.violations.push(viol("C19", format!("C19/reply/{}/not-on-wire", Prop::name(id)), format!("reply with {:?} went out to {:?} with properties {:?}", pc, topic, props)));
                                    }
                                }
                                _ => {}
                            }
                        });
                    }
                    return out;
                }
                for p in variants(id, &mut rng) {
                    let v = verdict(&p, ctx, &ENV);
                    let label = format!("{}/{:?}/{:?}/state{}", Prop::name(id), p, ctx, state);
                    out.key(format!("cell/{}/{:?}/{:?}/state{}", Prop::name(id), ctx, v, state));
                    if state >= 3 && state != 6 {
                        out.count("blocked_state_cells", 1);
                    }
                    let mut cfg = CaseCfg { rx: 256, tx: 2048, keepalive: 0, session_expiry: ENV.connect_expiry, ..CaseCfg::default() };
                    if ctx == Ctx::Will {
                        cfg.will = Some(WillSpec { topic: "w".into(), payload: vec![1], qos: 1, retain: false, props: vec![p.clone()] });
                    }
                    let mut cprops = vec![Prop::TopicAliasMaximum(ENV.topic_alias_max)];
                    if state == 3 {
                        cprops.push(Prop::ReceiveMaximum(1));
                    }
                    let mut steps = vec![connect_with(SpMode::Force(false), if matches!(state, 1 | 3 | 4) { AckMode::Hold } else { AckMode::Immediate }, cprops)];
                    if state == 5 {
                        cfg.keepalive = 1;
                        if let Some(Step::Connect(c)) = steps.last_mut() {
                            c.broker.ping = AckMode::Never;
                        }
                        steps.push(Step::Poll { max_wait: 20_000_000, cancel_at: None });
                        steps.push(Step::Poll { max_wait: 20_000_000, cancel_at: None });
                    }
                    if state == 1 {
                        inflight_ctx(&mut steps);
                    }
                    if state == 3 {
                        steps.push(pubq(1, "bg/1", 1, 3));
                    }
                    if state == 4 {
                        for k in 0..8 {
                            steps.push(pubq(1 + (k % 2) as u8, "bg/n", 10 + k, 1));
                        }
                    }
                    if state == 2 {
                        steps.push(Step::Broker(BrokerAct::Send(SPacket::Disconnect { reason: Some(0x8B), props: None })));
                        steps.push(poll0());
                    }
                    if state == 6 {
                        if let Some(Step::Connect(c)) = steps.first_mut() {
                            c.policy = IoPolicy { pend_write: Pend::Always, ..IoPolicy::default() };
                        }
                        steps.push(Step::Disconnect(DiscSpec { reason: Some(4), props: None, cancel_at: Some(1) }));
                    }
                    if state == 7 {
                        if let Some(Step::Connect(c)) = steps.first_mut() {
                            c.policy = IoPolicy { write: Chunk::One, pend_write: Pend::Always, ..IoPolicy::default() };
                        }
                        steps.push(Step::Disconnect(DiscSpec { reason: Some(4), props: Some(vec![Prop::ReasonString(PARKED_REASON.into())]), cancel_at: Some(4) }));
                    }
                    let req_at = steps.len();
                    if ctx != Ctx::Will {
                        steps.push(request_step(ctx, &p));
                    } else {
                        steps.push(pub1("after-will", 5, 2));
                    }
                    steps.push(poll0());
                    let pc = p.clone();
                    judge_run(&cfg, steps, label.clone(), &mut out, &mut |t, out| {
                        match v {
                            V::Accept => out.count("cells_accept", 1),
                            V::Reject => out.count("cells_reject", 1),
                            V::DontCare => out.count("cells_dontcare", 1),
                        }
                        if ctx == Ctx::Will {
                            // judged at configuration time and on the CONNECT
                            match (v, &t.log.setup_error) {
                                (V::Reject, None) => out.violations.push(viol("C19", format!("C19/will/{}/accepted", Prop::name(id)), format!("Will::new accepted {:?}, which MQTT 5 does not allow on a will", pc))),
                                (V::Accept, Some(e)) => out.violations.push(viol("C19", format!("C19/will/{}/rejected", Prop::name(id)), format!("Will::new rejected the legal will property {:?}: {}", pc, e))),
                                (V::Accept, None) => {
                                    let ok = t.w.conns.first().and_then(|c| c.out.packets.first()).is_some_and(|k| matches!(&k.pkt, CPacket::Connect { will: Some(wr), .. } if wr.props == vec![pc.clone()]));
                                    if !ok {
                                        out.violations.push(viol("C19", format!("C19/will/{}/not-on-wire", Prop::name(id)), format!("will property {:?} accepted but not found in the CONNECT", pc)));
                                    }
                                }
                                _ => {}
                            }
                            return;
                        }
                        let Some(op) = t.log.ops.iter().find(|o| o.step == req_at) else { return };
                        let pb = t.log.probes.iter().rev().find(|q| q.ev < op.ev_call);
                        let pa = t.log.probes.iter().find(|q| q.ev > op.ev_ret);
                        let wrote = op.out_after != op.out_before;
                        if state == 7 {
                            // whatever this call was and whatever it returned: what goes out is the
                            // DISCONNECT the first call asked for, whole, and nothing of this request
                            out.count("closing_handle_cells_with_a_parked_disconnect_partly_sent", 1);
                            let c = &t.w.conns[0];
                            let first_call = t.log.ops.iter().find(|o| o.kind == "disconnect" && o.step < req_at);
                            let partly = first_call.is_some_and(|o| o.outcome == Outcome::Cancelled && o.out_after > o.out_before);
                            if partly {
                                out.count("parked_disconnects_partly_sent_when_the_next_request_came", 1);
                                let discs: Vec<&CPacket> = c.out.packets.iter().map(|k| &k.pkt).filter(|k| matches!(k, CPacket::Disconnect { .. })).collect();
                                let want = vec![Prop::ReasonString(PARKED_REASON.into())];
                                let ok = c.out.error.is_none() && c.out.dangling() == 0 && discs.len() == 1 && matches!(discs[0], CPacket::Disconnect { reason: 4, props } if *props == want);
                                if !ok {
                                    out.violations.push(viol("C19", format!("C19/closing-handle/{:?}/parked-disconnect-altered", ctx), format!("disconnect_with(reason 4, Reason String) given up after {} bytes, then {:?} with {:?} (returned {:?}), then poll(): the wire carries {:?} (stream error {:?}, {} dangling bytes)", first_call.map(|o| o.out_after - o.out_before).unwrap_or(0), ctx, pc, op.outcome, discs, c.out.error, c.out.dangling())));
                                }
                            }
                        }
                        if state == 6 || state == 7 {
                            // the handle is closing: a DISCONNECT request is still judged on its own
                            // (refused if illegal, otherwise it completes the pending one); every
                            // other request is refused one way or the other
                            out.count("closing_handle_cells", 1);
                            if too_long(&pc) && ctx == Ctx::Disconnect {
                                // never encoded: the call only completes the DISCONNECT already begun
                                return;
                            }
                            let good = match (&op.outcome, ctx, v) {
                                (Outcome::Err(ErrRepr::InvalidRequest), _, V::Reject) => true,
                                (_, Ctx::Disconnect, V::Reject) => false,
                                (Outcome::Ok(OkKind::Unit), Ctx::Disconnect, _) => true,
                                (Outcome::Err(ErrRepr::Disconnected), _, _) => true,
                                (Outcome::Err(_), _, V::DontCare) => true,
                                _ => false,
                            };
                            if !good {
                                out.violations.push(viol("C19", format!("C19/closing-handle/{:?}/{:?}", ctx, v).to_lowercase(), format!("{:?} with {:?} ({:?}) while an earlier disconnect() is pending returned {:?}", ctx, pc, v, op.outcome)));
                            }
                            if v == V::Reject && ctx == Ctx::Disconnect && wrote && state == 6 {
                                out.violations.push(viol("C19", "C19/closing-handle/disconnect/refused-but-wrote", format!("disconnect with the illegal property {:?} returned {:?} but wrote {} bytes", pc, op.outcome, op.out_after - op.out_before)));
                            }
                            // ... and a request refused here is not kept by the session either
                            // (it would go out on the next connection): retained table, send
                            // quota, identifier counter and operation handles as before
                            if ctx != Ctx::Disconnect && matches!(op.outcome, Outcome::Err(_)) {
                                if let (Some(b), Some(a)) = (op.snap_before.as_ref(), op.snap_after.as_ref()) {
                                    out.count("no_trace_comparisons", 1);
                                    let ids = |s: &Snap| s.tx.retained.iter().map(|e| (e.packet_id, e.len)).collect::<Vec<_>>();
                                    let statuses = pb.zip(pa).map(|(x, y)| (x.status.clone(), y.status.clone()));
                                    if ids(b) != ids(a) || b.send_quota != a.send_quota || b.next_packet_id != a.next_packet_id || statuses.is_some_and(|(x, y)| x != y) {
                                        out.violations.push(viol("C19", format!("C19/closing-handle/{:?}/left-trace", ctx), format!("{:?} with {:?} while an earlier disconnect() is pending returned {:?} but left a trace: retained {:?} -> {:?}, quota {} -> {}, next identifier {} -> {}", ctx, pc, op.outcome, ids(b), ids(a), b.send_quota, a.send_quota, b.next_packet_id, a.next_packet_id)));
                                    }
                                }
                            }
                            // nothing of the request reaches the wire
                            let c = &t.w.conns[0];
                            if c.out.packets.iter().any(|k| matches!(&k.pkt, CPacket::Publish { topic, .. } if topic == "c19") || matches!(&k.pkt, CPacket::Subscribe { .. } | CPacket::Unsubscribe { .. }) || matches!(&k.pkt, CPacket::Disconnect { props, .. } if !props.is_empty() && state == 6)) {
                                out.violations.push(viol("C19", "C19/closing-handle/request-on-wire", format!("{:?} with {:?} while an earlier disconnect() is pending: the request reached the wire", ctx, pc)));
                            }
                            return;
                        }
                        if state == 2 || state == 5 {
                            out.count("dead_handle_cells", 1);
                            if state == 5 {
                                out.count("dead_by_keepalive_timeout_cells", 1);
                            }
                            let good = match (&op.outcome, ctx) {
                                (Outcome::Ok(OkKind::Unit), Ctx::Disconnect) => true,
                                (Outcome::Err(ErrRepr::Disconnected), _) => true,
                                (Outcome::Err(ErrRepr::InvalidRequest), _) if v == V::Reject => true,
                                _ => false,
                            };
                            if !good || op.touches_after != op.touches_before {
                                out.violations.push(viol("C19", format!("C19/dead-handle/{:?}", ctx), format!("{:?} with {:?} on a dead handle returned {:?} and performed {} transport calls", ctx, pc, op.outcome, op.touches_after - op.touches_before)));
                            }
                            // ... and the session is as it was: nothing retained, no slot, no handle
                            if let (Some(pb), Some(pa)) = (pb, pa) {
                                out.count("no_trace_comparisons", 1);
                                if matches!(op.outcome, Outcome::Err(_)) {
                                    if let Some(d) = no_trace(op, (pb, pa), false) {
                                        out.violations.push(viol("C19", format!("C19/dead-handle/{:?}/left-trace", ctx), format!("{:?} with {:?} on a dead handle returned {:?} but left a trace: {}", ctx, pc, op.outcome, d)));
                                    }
                                }
                            }
                            return;
                        }
                        match v {
                            V::DontCare => {}
                            V::Reject => {
                                let admission_first = too_long(&pc) && state >= 3 && matches!(op.outcome, Outcome::Err(_));
                                if op.outcome != Outcome::Err(ErrRepr::InvalidRequest) && !admission_first {
                                    out.violations.push(viol("C19", format!("C19/{:?}/{}={}/accepted", ctx, Prop::name(id), value_class(&pc)).to_lowercase_ctx(), format!("{:?} with the illegal property {:?} returned {:?}", ctx, pc, op.outcome)));
                                }
                                out.count("no_trace_comparisons", 1);
                                if wrote && state == 0 {
                                    out.violations.push(viol("C19", format!("C19/{:?}/{}/refused-but-wrote", ctx, Prop::name(id)).to_lowercase_ctx(), format!("{:?} with {:?} returned {:?} but wrote {} bytes", ctx, pc, op.outcome, op.out_after - op.out_before)));
                                }
                                if let (Some(pb), Some(pa)) = (pb, pa) {
                                    if matches!(op.outcome, Outcome::Err(_)) {
                                        if let Some(d) = no_trace(op, (pb, pa), !too_long(&pc)) {
                                            out.violations.push(viol("C19", format!("C19/{:?}/{}/refused-but-left-trace", ctx, Prop::name(id)).to_lowercase_ctx(), format!("{:?} with {:?} returned {:?} but {}", ctx, pc, op.outcome, d)));
                                        }
                                    }
                                }
                            }
                            V::Accept if state >= 3 && ctx != Ctx::Disconnect => {
                                // a legal request may well be refused for lack of window / slots here
                            }
                            V::Accept => {
                                if !matches!(op.outcome, Outcome::Ok(_)) {
                                    let e = match &op.outcome {
                                        Outcome::Err(e) => format!("{:?}", e),
                                        o => format!("{:?}", o),
                                    };
                                    out.violations.push(viol("C19", format!("C19/{:?}/{}/{}", ctx, Prop::name(id), e).to_lowercase_ctx(), format!("{:?} with the legal property {:?} returned {:?}", ctx, pc, op.outcome)));
                                    return;
                                }
                                // and it arrives
                                let c = &t.w.conns[0];
                                let found = c.out.packets.iter().any(|k| match (&k.pkt, ctx) {
                                    (CPacket::Publish { props, topic, .. }, Ctx::Publish) => topic == "c19" && props == &vec![pc.clone()],
                                    (CPacket::Publish { props, topic, .. }, Ctx::PublishCorrelated) => topic == "c19" && props.len() == 2 && props.contains(&pc) && props.contains(&Prop::CorrelationData(vec![0xC0, 0xDE])),
                                    (CPacket::Subscribe { props, .. }, Ctx::Subscribe) => props == &vec![pc.clone()],
                                    (CPacket::Unsubscribe { props, .. }, Ctx::Unsubscribe) => props == &vec![pc.clone()],
                                    (CPacket::Disconnect { props, .. }, Ctx::Disconnect) => props == &vec![pc.clone()],
                                    _ => false,
                                });
                                if !found {
                                    out.violations.push(viol("C19", format!("C19/{:?}/{}/not-on-wire", ctx, Prop::name(id)).to_lowercase_ctx(), format!("{:?} with {:?} succeeded but the property was not decoded from the wire", ctx, pc)));
                                }
                            }
                        }
                    });
                }
            }
            1 => {
                // Maximum QoS x requested QoS x downgrade x session state
                // states: 0 idle, 1 in-flight work, 2 dead handle, 3 resumed / 4 fresh reconnect after a
                // connection whose CONNACK carried a different Maximum QoS
                let state = (index % 5) as u8;
                let req = ((index / 5) % 3) as u8;
                let down = (index / 15) % 2 == 1;
                let maxq: Option<u8> = match (index / 30) % 3 {
                    0 => None,
                    1 => Some(0),
                    _ => Some(1),
                };
                let label = format!("maxqos={:?}/req={}/downgrade={}/state{}", maxq, req, down, state);
                out.key(format!("qoscap/{}", label));
                let cfg = CaseCfg { rx: 256, tx: 2048, keepalive: 0, downgrade: down, ..CaseCfg::default() };
                let mut props = vec![];
                if let Some(m) = maxq {
                    props.push(Prop::MaximumQoS(m));
                }
                let mut steps = vec![];
                if state >= 3 {
                    let prior = match maxq {
                        None => vec![Prop::MaximumQoS(0)],
                        Some(0) => vec![],
                        Some(_) => vec![Prop::MaximumQoS(0)],
                    };
                    // half of these: the broker assigns a client identifier on the first
                    // connection and repeats it, in front of the other properties, on the
                    // second one (unusual, not forbidden); other properties surround the cap
                    let (mut prior, mut props) = (prior, props);
                    if rng.chance(1, 2) {
                        prior.push(Prop::AssignedClientId("srv-assigned-7".into()));
                        props.insert(0, Prop::AssignedClientId("srv-assigned-7".into()));
                        if rng.chance(1, 2) {
                            props.insert(0, Prop::ReceiveMaximum(5));
                            props.push(Prop::ServerKeepAlive(0));
                        }
                        out.count("qos_cap_cells_with_repeated_assigned_identifier", 1);
                    }
                    steps.push(connect_with(SpMode::Force(false), AckMode::Immediate, prior));
                    steps.push(Step::DropConn);
                    steps.push(connect_with(SpMode::Force(state == 3), AckMode::Immediate, props));
                    out.count("qos_cap_cells_after_reconnect", 1);
                } else {
                    steps.push(connect_with(SpMode::Force(false), AckMode::Immediate, props));
                }
                if state == 1 {
                    steps.push(Step::Broker(BrokerAct::Policy(BrokerPolicy { acks: AckMode::Hold, ping: AckMode::Immediate, fail_pct: 0, longform_pct: 0 })));
                    inflight_ctx(&mut steps);
                    steps.push(Step::Broker(BrokerAct::Policy(BrokerPolicy::default())));
                }
                if state == 2 {
                    steps.push(Step::Broker(BrokerAct::Send(SPacket::Disconnect { reason: None, props: None })));
                    steps.push(poll0());
                }
                let req_at = steps.len();
                steps.push(pubq(req, "cap", 9, 4));
                for _ in 0..4 {
                    steps.push(poll0());
                }
                judge_run(&cfg, steps, label.clone(), &mut out, &mut |t, out| {
                    out.count("downgrade_cells", 1);
                    let Some(op) = t.log.ops.iter().find(|o| o.step == req_at) else { return };
                    if state == 2 {
                        if op.outcome != Outcome::Err(ErrRepr::Disconnected) || op.touches_after != op.touches_before {
                            out.violations.push(viol("C19", "C19/dead-handle/Publish", format!("publish on a dead handle returned {:?}", op.outcome)));
                        }
                        return;
                    }
                    let eff = match (down, maxq) {
                        (true, Some(m)) => req.min(m),
                        _ => req,
                    };
                    let c = t.w.conns.last().unwrap();
                    let sent: Vec<u8> = c.out.packets.iter().filter_map(|k| match &k.pkt {
                        CPacket::Publish { topic, qos, .. } if topic == "cap" => Some(*qos),
                        _ => None,
                    }).collect();
                    if down {
                        if let Some(m) = maxq {
                            if sent.iter().any(|q| *q > m) {
                                out.violations.push(viol("C19", "C19/downgrade/qos-above-maximum-sent", format!("{}: PUBLISH with QoS {:?} sent although the broker's Maximum QoS is {}", label, sent, m)));
                            }
                        }
                        if sent != vec![eff] {
                            out.violations.push(viol("C19", "C19/downgrade/wrong-qos-sent", format!("{}: PUBLISH QoS on the wire {:?}, expected [{}]", label, sent, eff)));
                        }
                        // handle kind matches the QoS actually used
                        let handle = match &op.outcome {
                            Outcome::Ok(OkKind::Handle(h)) => Some(*h),
                            Outcome::Ok(OkKind::NoHandle) => None,
                            o => {
                                out.violations.push(viol("C19", "C19/downgrade/request-failed", format!("{}: publish returned {:?}", label, o)));
                                return;
                            }
                        };
                        if handle.is_some() != (eff > 0) {
                            out.violations.push(viol("C19", "C19/downgrade/handle-kind", format!("{}: effective QoS {} but handle {:?}", label, eff, handle)));
                        }
                        if let Some(h) = handle {
                            // completed by PUBACK (QoS 1) resp. PUBCOMP (QoS 2): status after the first ack vs. in the end
                            let acks: Vec<(usize, &SPacket)> = c.in_pkts.iter().filter_map(|k| Some((k.ev_consumed?, k.pkt.as_ref()?))).filter(|(_, k)| matches!(k, SPacket::PubAck { .. } | SPacket::PubRec { .. } | SPacket::PubComp { .. })).filter(|(e, _)| *e > op.ev_ret).collect();
                            let status_after = |ev: usize| t.log.probes.iter().find(|q| q.ev > ev).and_then(|q| q.status.get(h).copied());
                            match eff {
                                1 => {
                                    let ok = acks.first().is_some_and(|(e, k)| matches!(k, SPacket::PubAck { .. }) && status_after(*e) == Some(2));
                                    if !ok {
                                        out.violations.push(viol("C19", "C19/downgrade/handle-kind", format!("{}: QoS 1 handle not completed by the PUBACK (acks {:?})", label, acks.iter().map(|a| a.1.type_name()).collect::<Vec<_>>())));
                                    }
                                }
                                _ => {
                                    let rec = acks.iter().find(|(_, k)| matches!(k, SPacket::PubRec { .. }));
                                    let comp = acks.iter().find(|(_, k)| matches!(k, SPacket::PubComp { .. }));
                                    let ok = rec.is_some_and(|(e, _)| status_after(*e) == Some(1)) && comp.is_some_and(|(e, _)| status_after(*e) == Some(2));
                                    if !ok {
                                        out.violations.push(viol("C19", "C19/downgrade/handle-kind", format!("{}: QoS 2 handle must stay pending after PUBREC and complete on PUBCOMP (acks {:?})", label, acks.iter().map(|a| a.1.type_name()).collect::<Vec<_>>())));
                                    }
                                }
                            }
                        }
                    }
                });
            }
            4 => {
                // a request with one to three properties (legal, boundary, illegal) issued after a
                // generated history: whatever state the session is in, an illegal one is refused
                // without trace, and a legal one is never classed as an invalid request
                use crate::exec::{Driver, View, run_case};
                use crate::genr::{Gen, benign_connect, gen_cfg};
                let profile = match rng.below(5) {
                    0 => crate::checks::general(&mut rng),
                    1 => crate::checks::window_heavy(&mut rng),
                    2 => crate::checks::dead_handle(&mut rng),
                    3 => crate::checks::replay_heavy(&mut rng),
                    _ => crate::checks::session_mix(&mut rng),
                };
                let cfg = gen_cfg(&mut rng, &profile);
                let env = Env { topic_alias_max: 0, connect_expiry: cfg.session_expiry };
                let ctx = *rng.pick(&[Ctx::Publish, Ctx::Subscribe, Ctx::Unsubscribe, Ctx::Disconnect, Ctx::PublishCorrelated]);
                let n = 1 + rng.below(3);
                let mut set: Vec<Prop> = Vec::new();
                let mut ids: Vec<u8> = Vec::new();
                for _ in 0..n {
                    // half of the picks come from the kinds that are legal somewhere on a request
                    let id = if rng.chance(1, 2) { *rng.pick(&[0x01u8, 0x02, 0x03, 0x08, 0x09, 0x0B, 0x11, 0x1F, 0x23, 0x26, 0x26]) } else { *rng.pick(&ALL_PROP_IDS) };
                    if id != 0x26 && ids.contains(&id) {
                        continue;
                    }
                    ids.push(id);
                    let vs = variants(id, &mut rng);
                    set.push(rng.pick(&vs).clone());
                }
                let vs: Vec<V> = set.iter().map(|p| verdict(p, ctx, &env)).collect();
                let v = if vs.contains(&V::Reject) { V::Reject } else if vs.contains(&V::DontCare) { V::DontCare } else { V::Accept };
                let qos = rng.below(3) as u8;
                let request = match ctx {
                    Ctx::Publish => Step::Publish(PubSpec { topic: "c19".into(), payload: PayloadSpec::Bytes(b"ab".to_vec()), qos, retain: false, props: set.clone(), correlate: None, cancel_at: None }),
                    Ctx::PublishCorrelated => Step::Publish(PubSpec { topic: "c19".into(), payload: PayloadSpec::Bytes(b"ab".to_vec()), qos, retain: false, props: set.clone(), correlate: Some(vec![0xC0, 0xDE]), cancel_at: None }),
                    Ctx::Subscribe => Step::Subscribe(SubSpec { filters: vec![FilterSpec { filter: "c19/#".into(), max_qos: 1, no_local: false, rap: false, rh: 0 }], props: set.clone(), cancel_at: None }),
                    Ctx::Unsubscribe => Step::Unsubscribe(UnsubSpec { filters: vec!["c19".into()], props: set.clone(), cancel_at: None }),
                    _ => Step::Disconnect(DiscSpec { reason: Some(0), props: Some(set.clone()), cancel_at: None }),
                };
                struct ThenRequest {
                    g: Gen,
                    left: usize,
                    request: Option<Step>,
                    req_op: Option<usize>,
                    tail: usize,
                    reconnect: bool,
                }
                impl Driver for ThenRequest {
                    fn next(&mut self, v: &View<'_>) -> Option<Step> {
                        if self.left > 0 {
                            self.left -= 1;
                            if let Some(s) = self.g.next(v) {
                                return Some(s);
                            }
                            self.left = 0;
                        }
                        if self.request.is_some() {
                            if !v.has_handle {
                                if self.reconnect {
                                    return None;
                                }
                                self.reconnect = true;
                                return Some(Step::Connect(benign_connect(v.snap.session_present)));
                            }
                            self.req_op = Some(v.log.ops.len());
                            return self.request.take();
                        }
                        if self.tail > 0 && v.has_handle {
                            self.tail -= 1;
                            return Some(Step::Poll { max_wait: 0, cancel_at: None });
                        }
                        None
                    }
                }
                let mut g = Gen::new(rng.next(), profile.clone());
                g.steps_left = rng.range(1, 25);
                let left = g.steps_left + 2;
                let mut d = ThenRequest { g, left, request: Some(request), req_op: None, tail: 3, reconnect: false };
                let (log, world) = run_case(&cfg, seed, &mut d, 80);
                let w = world.borrow();
                out.evaluations += 1;
                let Some(op) = d.req_op.and_then(|i| log.ops.get(i)) else { return out };
                out.count("random_history_requests", 1);
                let state = if !op.live_before { "dead" } else if op.snap_before.as_ref().is_some_and(|s| !s.tx.retained.is_empty() || !s.tx.release.is_empty()) { "inflight" } else { "idle" };
                out.key(format!("random-history/{:?}/{:?}/{}", ctx, v, state));
                out.nontrivial.push(hash_of(&(format!("{:?}{:?}", ctx, set), op.snap_before.as_ref().map(|s| (s.tx.retained.len(), s.tx.release.len(), s.tx.control.len(), s.send_quota)), op.live_before)));
                let before = out.violations.len();
                let lc = format!("{:?}", ctx).to_lowercase();
                // nothing of a refused request is ever sent: the marker topic / filter never shows up
                let marked = |k: &CPacket| match k {
                    CPacket::Publish { topic, .. } => topic == "c19",
                    CPacket::Subscribe { filters, .. } => filters.iter().any(|f| f.0 == "c19/#"),
                    CPacket::Unsubscribe { filters, .. } => filters.iter().any(|f| f == "c19"),
                    _ => false,
                };
                let on_wire: Vec<&CPacket> = w.conns.iter().flat_map(|c| c.out.packets.iter()).map(|k| &k.pkt).filter(|k| marked(k)).collect();
                // a disconnect() after one that was given up only completes the DISCONNECT already
                // begun: its own packet is never encoded, so a value that fails at encoding (longer
                // than 65535 bytes) is not looked at (same exemption as in the cell workload)
                let closing = ctx == Ctx::Disconnect && log.ops.iter().take(d.req_op.unwrap_or(0)).any(|o| o.kind == "disconnect" && o.conn == op.conn && !matches!(o.outcome, Outcome::Err(ErrRepr::InvalidRequest)));
                let v = if closing && v == V::Reject && set.iter().zip(&vs).all(|(p, x)| *x != V::Reject || too_long(p)) {
                    out.count("random_history_oversize_disconnects_on_a_closing_handle", 1);
                    V::DontCare
                } else {
                    v
                };
                match v {
                    V::Reject => {
                        out.count("random_history_rejects_judged", 1);
                        // (publish() first flushes what earlier calls queued: an error of that step -
                        // transport failure, a retained packet above the broker's limit - comes
                        // before the request is looked at and is as good a refusal)
                        let want_ok = matches!(&op.outcome, Outcome::Err(_)) || (!op.live_before && ctx == Ctx::Disconnect && matches!(&op.outcome, Outcome::Ok(_)));
                        if matches!(&op.outcome, Outcome::Err(ErrRepr::InvalidRequest)) {
                            out.count("random_history_rejects_reported_invalid", 1);
                        }
                        if !want_ok {
                            out.violations.push(viol("C19", format!("C19/random-history/{}/illegal-accepted", lc), format!("{:?} with properties {:?} (illegal: {:?}) after a generated history returned {:?} (handle live before: {})", ctx, set, set.iter().zip(&vs).filter(|(_, x)| **x == V::Reject).map(|(p, _)| p).collect::<Vec<_>>(), op.outcome, op.live_before)));
                        }
                        if !on_wire.is_empty() {
                            out.violations.push(viol("C19", format!("C19/random-history/{}/refused-but-sent", lc), format!("{:?} with illegal properties {:?} returned {:?}, but the request is on the wire", ctx, set, op.outcome)));
                        }
                        if matches!(op.outcome, Outcome::Err(ErrRepr::InvalidRequest)) {
                            if let (Some(b), Some(a)) = (&op.snap_before, &op.snap_after) {
                                let idl = |s: &Snap| s.tx.retained.iter().map(|e| (e.packet_id, e.len)).collect::<Vec<_>>();
                                if idl(b) != idl(a) || b.send_quota != a.send_quota || (b.next_packet_id != a.next_packet_id && !set.iter().any(too_long)) || b.tx.release.len() != a.tx.release.len() {
                                    out.violations.push(viol("C19", format!("C19/random-history/{}/refused-but-left-trace", lc), format!("{:?} with {:?} returned InvalidRequest but retained {:?} -> {:?}, quota {} -> {}, next identifier {} -> {}", ctx, set, idl(b), idl(a), b.send_quota, a.send_quota, b.next_packet_id, a.next_packet_id)));
                                }
                            }
                            if !op.live_before && op.touches_after != op.touches_before {
                                out.violations.push(viol("C19", format!("C19/dead-handle/{:?}", ctx), format!("{:?} on a dead handle performed {} transport calls", ctx, op.touches_after - op.touches_before)));
                            }
                        }
                    }
                    V::Accept => {
                        if matches!(op.outcome, Outcome::Err(ErrRepr::InvalidRequest)) {
                            out.violations.push(viol("C19", format!("C19/random-history/{}/legal-refused-as-invalid", lc), format!("{:?} with the legal properties {:?} returned InvalidRequest (handle live before: {})", ctx, set, op.live_before)));
                        }
                        // what reached the wire carries exactly the requested properties
                        let mut want = set.clone();
                        if ctx == Ctx::PublishCorrelated {
                            want.push(Prop::CorrelationData(vec![0xC0, 0xDE]));
                        }
                        want.sort_by_key(|p| format!("{:?}", p));
                        for k in &on_wire {
                            let props = match k {
                                CPacket::Publish { props, .. } | CPacket::Subscribe { props, .. } | CPacket::Unsubscribe { props, .. } => props.clone(),
                                _ => continue,
                            };
                            let mut got = props;
                            got.sort_by_key(|p| format!("{:?}", p));
                            if got != want {
                                out.violations.push(viol("C19", format!("C19/random-history/{}/not-on-wire", lc), format!("{:?} accepted with {:?}, decoded from the wire with {:?}", ctx, want, got)));
                                break;
                            }
                            out.count("random_history_accepts_decoded", 1);
                        }
                    }
                    V::DontCare => {}
                }
                if verbose && out.violations.len() > before {
                    for l in render(&log, &w, 400) {
                        println!("{}", l);
                    }
                }
                if out.sample.is_none() {
                    out.sample = Some(serde_json::json!({"request": format!("{:?} {:?}", ctx, set), "verdict": format!("{:?}", v), "outcome": format!("{:?}", op.outcome), "ops_before": d.req_op}));
                }
            }
            5 => {
                // legal properties whose block is long: its length needs one, two or three bytes
                // (127/128, 16383/16384); every request kind, a transmit arena with ample room;
                // a User Property whose name and value are each up to 65 535 bytes long
                let ctx = [Ctx::Publish, Ctx::Subscribe, Ctx::Unsubscribe, Ctx::Disconnect][(index % 4) as usize];
                let block = [100usize, 127, 128, 129, 1000, 16_382, 16_383, 16_384, 16_385, 16_390, 20_000, 40_000][((index / 4) % 12) as usize];
                let two = (index / 48) % 2 == 1;
                // ReasonString / UserProperty: identifier 1 byte + 2-byte length(s) + text
                // ... and a single User Property whose name and value are both long: each of the two
                // strings may be 65 535 bytes, together they exceed what one length prefix counts
                let pair = if index >= 96 { Some([(32_766usize, 32_767usize), (32_767, 32_767), (32_768, 32_768), (40_000, 40_000), (65_535, 100), (100, 65_535), (65_535, 65_535)][((index - 96) / 4) as usize]) } else { None };
                let block = if let Some((a, b)) = pair { 5 + a + b } else { block };
                let props = if let Some((a, b)) = pair { vec![Prop::UserProperty("n".repeat(a), "v".repeat(b))] } else if ctx == Ctx::Disconnect && !two { vec![Prop::ReasonString("r".repeat(block - 3))] } else if two { vec![Prop::UserProperty("k".into(), "v".repeat(block / 2 - 6)), Prop::UserProperty("kk".into(), "w".repeat(block - block / 2 - 6))] } else { vec![Prop::UserProperty("key".into(), "v".repeat(block - 8))] };
                let cfg = CaseCfg { rx: 256, tx: if pair.is_some() { 300_000 } else { 100_000 }, keepalive: 0, ..CaseCfg::default() };
                let label = format!("long-block/{:?}/{}/{}", ctx, block, if pair.is_some() { "long-name-and-value" } else if two { "two" } else { "one" });
                out.key(format!("long-block/{:?}/{}", ctx, block));
                let mut steps = vec![connect_with(SpMode::Force(false), AckMode::Immediate, vec![])];
                let req_at = steps.len();
                steps.push(match ctx {
                    Ctx::Publish => Step::Publish(PubSpec { topic: "c19".into(), payload: PayloadSpec::Fill { len: 3, tag: 5, ascii: false }, qos: 1, retain: false, props: props.clone(), correlate: None, cancel_at: None }),
                    Ctx::Subscribe => Step::Subscribe(SubSpec { filters: vec![FilterSpec { filter: "c19/#".into(), max_qos: 1, no_local: false, rap: false, rh: 0 }], props: props.clone(), cancel_at: None }),
                    Ctx::Unsubscribe => Step::Unsubscribe(UnsubSpec { filters: vec!["c19".into()], props: props.clone(), cancel_at: None }),
                    _ => Step::Disconnect(DiscSpec { reason: Some(0), props: Some(props.clone()), cancel_at: None }),
                });
                steps.push(poll0());
                let want = props.clone();
                judge_run(&cfg, steps, label.clone(), &mut out, &mut |t, out| {
                    out.count("long_property_block_cells", 1);
                    let Some(op) = t.log.ops.iter().find(|o| o.step == req_at) else { return };
                    if !matches!(op.outcome, Outcome::Ok(_)) {
                        out.violations.push(viol("C19", format!("C19/long-property-block/{:?}/refused", ctx).to_lowercase(), format!("{}: a legal request with a property block of {} bytes returned {:?}", label, block, op.outcome)));
                        return;
                    }
                    let on_wire = t.w.conns[0].out.packets.iter().any(|k| match &k.pkt {
                        CPacket::Publish { props, .. } | CPacket::Subscribe { props, .. } | CPacket::Unsubscribe { props, .. } => *props == want,
                        CPacket::Disconnect { props, .. } => *props == want,
                        _ => false,
                    });
                    if !on_wire {
                        out.violations.push(viol("C19", format!("C19/long-property-block/{:?}/not-on-wire", ctx).to_lowercase(), format!("{}: accepted, but no packet with these properties is on the wire", label)));
                    }
                });
            }
            3 => {
                // several legal properties on one request: repeated User Properties (the one kind
                // MQTT 5 allows to repeat) and one of every legal kind together
                let ctx = CTXS[(index % 5) as usize];
                let shape = index / 5;
                let up = |k: &str, v: &str| Prop::UserProperty(k.into(), v.into());
                let set: Vec<Prop> = match shape {
                    0 => vec![up("k", "v"), up("k", "v")],
                    1 => vec![up("a", "1"), up("b", "2"), up("a", "3")],
                    _ => {
                        let mut v: Vec<Prop> = match ctx {
                            Ctx::Publish => vec![Prop::PayloadFormat(1), Prop::MessageExpiry(60), Prop::ContentType("t".into()), Prop::ResponseTopic("r/t".into()), Prop::CorrelationData(vec![1, 2])],
                            Ctx::Will => vec![Prop::WillDelay(5), Prop::PayloadFormat(1), Prop::MessageExpiry(60), Prop::ContentType("t".into()), Prop::ResponseTopic("r/t".into()), Prop::CorrelationData(vec![1, 2])],
                            Ctx::Subscribe => vec![Prop::SubscriptionId(7)],
                            Ctx::Disconnect => vec![Prop::SessionExpiry(0), Prop::ReasonString("bye".into())],
                            _ => vec![],
                        };
                        v.push(up("x", "y"));
                        v.push(up("x", "z"));
                        v
                    }
                };
                let label = format!("legal-set/{:?}/shape{}", ctx, shape);
                out.key(label.clone());
                let mut cfg = CaseCfg { rx: 256, tx: 2048, keepalive: 0, session_expiry: ENV.connect_expiry, ..CaseCfg::default() };
                if ctx == Ctx::Will {
                    cfg.will = Some(WillSpec { topic: "w".into(), payload: vec![1], qos: 1, retain: false, props: set.clone() });
                }
                let mut steps = vec![connect_with(SpMode::Force(false), AckMode::Immediate, vec![])];
                let req_at = steps.len();
                steps.push(match ctx {
                    Ctx::Publish => Step::Publish(PubSpec { topic: "c19".into(), payload: PayloadSpec::Bytes(b"ab".to_vec()), qos: 1, retain: false, props: set.clone(), correlate: None, cancel_at: None }),
                    Ctx::Will => pub1("after-will", 5, 2),
                    Ctx::Subscribe => Step::Subscribe(SubSpec { filters: vec![FilterSpec { filter: "c19/#".into(), max_qos: 1, no_local: false, rap: false, rh: 0 }], props: set.clone(), cancel_at: None }),
                    Ctx::Unsubscribe => Step::Unsubscribe(UnsubSpec { filters: vec!["c19".into()], props: set.clone(), cancel_at: None }),
                    _ => Step::Disconnect(DiscSpec { reason: Some(0), props: Some(set.clone()), cancel_at: None }),
                });
                steps.push(poll0());
                let want = set.clone();
                judge_run(&cfg, steps, label.clone(), &mut out, &mut |t, out| {
                    out.count("legal_set_cells", 1);
                    if let Some(e) = &t.log.setup_error {
                        out.violations.push(viol("C19", format!("C19/legal-set/{}/refused", format!("{:?}", ctx).to_lowercase()), format!("{}: configuration with the legal properties {:?} was refused: {}", label, want, e)));
                        return;
                    }
                    let Some(op) = t.log.ops.iter().find(|o| o.step == req_at) else { return };
                    if !matches!(op.outcome, Outcome::Ok(_)) {
                        out.violations.push(viol("C19", format!("C19/legal-set/{}/refused", format!("{:?}", ctx).to_lowercase()), format!("{}: request with the legal properties {:?} returned {:?}", label, want, op.outcome)));
                        return;
                    }
                    let c = &t.w.conns[0];
                    let same = |got: &Vec<Prop>| {
                        let mut a = got.clone();
                        let mut b = want.clone();
                        a.sort_by_key(|p| format!("{:?}", p));
                        b.sort_by_key(|p| format!("{:?}", p));
                        a == b
                    };
                    let found = c.out.packets.iter().any(|k| match (&k.pkt, ctx) {
                        (CPacket::Publish { props, topic, .. }, Ctx::Publish) => topic == "c19" && same(props),
                        (CPacket::Connect { will: Some(wr), .. }, Ctx::Will) => same(&wr.props),
                        (CPacket::Subscribe { props, .. }, Ctx::Subscribe) => same(props),
                        (CPacket::Unsubscribe { props, .. }, Ctx::Unsubscribe) => same(props),
                        (CPacket::Disconnect { props, .. }, Ctx::Disconnect) => same(props),
                        _ => false,
                    });
                    if !found {
                        out.violations.push(viol("C19", format!("C19/legal-set/{}/not-on-wire", format!("{:?}", ctx).to_lowercase()), format!("{}: accepted, but the properties {:?} were not decoded from the wire", label, want)));
                    }
                });
            }
            _ => {
                // empty topic lists are refused without trace, in every session state
                let state = (index % 3) as u8;
                let sub = index / 3 == 0;
                let label = format!("empty-{}-list/state{}", if sub { "subscribe" } else { "unsubscribe" }, state);
                out.key(label.clone());
                let cfg = CaseCfg { rx: 256, tx: 2048, keepalive: 0, ..CaseCfg::default() };
                let mut steps = vec![connect_with(SpMode::Force(false), if state == 1 { AckMode::Hold } else { AckMode::Immediate }, vec![])];
                if state == 1 {
                    inflight_ctx(&mut steps);
                }
                if state == 2 {
                    steps.push(Step::Broker(BrokerAct::Send(SPacket::Disconnect { reason: None, props: None })));
                    steps.push(poll0());
                }
                let req_at = steps.len();
                steps.push(if sub { Step::Subscribe(SubSpec { filters: vec![], props: vec![], cancel_at: None }) } else { Step::Unsubscribe(UnsubSpec { filters: vec![], props: vec![], cancel_at: None }) });
                steps.push(poll0());
                judge_run(&cfg, steps, label.clone(), &mut out, &mut |t, out| {
                    let Some(op) = t.log.ops.iter().find(|o| o.step == req_at) else { return };
                    out.count("no_trace_comparisons", 1);
                    let want = if state == 2 { vec![ErrRepr::Disconnected, ErrRepr::InvalidRequest] } else { vec![ErrRepr::InvalidRequest] };
                    if !matches!(&op.outcome, Outcome::Err(e) if want.contains(e)) {
                        out.violations.push(viol("C19", "C19/empty-list/accepted", format!("{}: returned {:?}", label, op.outcome)));
                    }
                    if op.out_after != op.out_before || !op.new_retained.is_empty() {
                        out.violations.push(viol("C19", "C19/empty-list/left-trace", format!("{}: wrote {} bytes / retained {:?}", label, op.out_after - op.out_before, op.new_retained)));
                    }
                });
            }
        }
        out
    }
}

fn value_class(p: &Prop) -> String {
    match p {
        Prop::TopicAlias(0) => "0".into(),
        Prop::SubscriptionId(0) => "0".into(),
        Prop::SubscriptionId(v) if *v > 268_435_455 => "too-large".into(),
        Prop::PayloadFormat(v) if *v > 1 => "above-1".into(),
        _ => "any".into(),
    }
}

trait LowerCtx {
    fn to_lowercase_ctx(self) -> String;
}
impl LowerCtx for String {
    fn to_lowercase_ctx(self) -> String {
        // "C19/Publish/..." -> "C19/publish/..."
        let mut parts: Vec<String> = self.split('/').map(|s| s.to_string()).collect();
        if parts.len() > 1 {
            parts[1] = parts[1].to_lowercase();
        }
        parts.join("/")
    }
}

// ---------------------------------------------------------------------------------------------
// C20

pub struct C20;

const CAPS: [usize; 6] = crate::reply::CAP_MENU;

impl Check for C20 {
    fn id(&self) -> &'static str {
        "C20"
    }
    fn level(&self) -> &'static str {
        "exploration"
    }
    fn rule(&self) -> String {
        "the reference broker sends PUBLISH packets carrying a Response Topic (1..65535 bytes incl. multi-byte UTF-8) and optionally Correlation Data (0..65535 arbitrary bytes) at a random position among other properties (or none of them); the application answers through reply(payload) [optionally .properties(user props)] or through reply_owned::<T,C>() -> publication() with capacities from {0,1,8,64,1024,65535} chosen around the actual sizes, and publishes the result on an auxiliary session; the decoded outbound PUBLISH must go to exactly that topic with exactly one Correlation Data equal to the one received (none if none), user properties preserved; without a Response Topic no reply is offered; an owned target that does not fit reports BufferTooSmall exactly when it does not fit. Non-trivial iff a reply was published and decoded, or a capacity boundary was hit; distinct keys = (|T|, |D|, position, capacity relation) buckets.".into()
    }
    fn assumptions(&self) -> Vec<String> {
        vec!["const-generic capacities are instantiated from a fixed menu {0,1,8,64,1024,65535}; inputs are sized around them".into(), "the reply publication is sent on an auxiliary session (the inbound message keeps the receiving connection borrowed)".into()]
    }
    fn workloads(&self) -> Vec<Workload> {
        vec![Workload { name: "reply", quick: 2500, thorough: 3_000_000 }]
    }
    fn min_nontrivial(&self, tier: Tier) -> usize {
        if tier == Tier::Quick { 200 } else { 2000 }
    }
    fn required_counters(&self) -> Vec<&'static str> {
        vec!["replies_decoded", "no_reply_offered", "owned_too_small", "owned_exact_fit", "replies_with_user_properties", "requests_whose_response_topic_is_their_own_topic"]
    }
    fn run(&self, _workload: usize, seed: u64, _index: u64, _tier: Tier, verbose: bool) -> CaseOut {
        let mut out = CaseOut::default();
        let mut r = Rng::new(seed);
        // sizes around the capacity menu
        let around = |r: &mut Rng, allow_zero: bool| -> usize {
            let c = *r.pick(&CAPS);
            let v = (c as i64 + r.range(0, 2) as i64 - 1).clamp(if allow_zero { 0 } else { 1 }, 65535) as usize;
            if r.chance(1, 5) { r.range(if allow_zero { 0 } else { 1 }, 40) } else { v }
        };
        let has_rt = !r.chance(1, 6);
        let has_cd = r.chance(2, 3);
        let tlen = around(&mut r, false);
        let dlen = around(&mut r, true);
        let topic = str_of(tlen, &mut r);
        let corr = r.bytes(dlen);
        let mut props: Vec<Prop> = Vec::new();
        // (one request in six carries many other properties - User Property and Subscription
        // Identifier may repeat - so that the two that matter can sit far into the block)
        let n_other = if r.chance(1, 6) { r.range(6, 24) } else { r.below(4) };
        for _ in 0..n_other {
            props.push(match r.below(4) {
                0 => Prop::UserProperty(str_of(r.below(5), &mut r), str_of(r.below(5), &mut r)),
                1 => Prop::SubscriptionId(1 + r.below(1000) as u32),
                2 => Prop::MessageExpiry(r.below(100) as u32),
                _ => Prop::UserProperty("u".into(), "v".into()),
            });
        }
        if has_rt {
            let at = r.below(props.len() + 1);
            props.insert(at, Prop::ResponseTopic(topic.clone()));
        }
        if has_cd {
            let at = r.below(props.len() + 1);
            props.insert(at, Prop::CorrelationData(corr.clone()));
        }
        let pos_rt = props.iter().position(|p| matches!(p, Prop::ResponseTopic(_)));
        let rx = 2 * 65536 + 4096;
        let cfg = CaseCfg { rx, tx: 4096, keepalive: 0, ..CaseCfg::default() };
        let mode = if r.chance(1, 3) {
            ReplyMode::Borrowed
        } else {
            // capacities just below, at and above the actual sizes
            let pick_cap = |r: &mut Rng, n: usize| -> usize {
                let mut opts: Vec<usize> = CAPS.iter().copied().filter(|c| *c + 1 >= n || *c >= n).collect();
                if let Some(below) = CAPS.iter().copied().filter(|c| *c < n).max() {
                    opts.push(below);
                }
                *r.pick(&opts)
            };
            ReplyMode::Owned { topic_cap: pick_cap(&mut r, tlen), corr_cap: pick_cap(&mut r, dlen) }
        };
        // no `.properties()` call, an empty list, one property, or several
        let user_props = match r.below(6) {
            0 => Some(vec![]),
            1 => Some(vec![Prop::UserProperty("rk".into(), str_of(r.below(6), &mut r)), Prop::ContentType("ct".into())]),
            2 => Some(vec![Prop::UserProperty("only".into(), "one".into())]),
            _ => None,
        };
        let plen = r.below(10);
        let payload = r.bytes(plen);
        let qos = r.below(3) as u8;
        // the request's own topic is usually unrelated to the response topic, now and then the
        // very same string (a requester may listen where it publishes), or an extension of it
        let req_topic: String = match r.below(16) {
            0 | 1 if has_rt && tlen < 60_000 => {
                out.count("requests_whose_response_topic_is_their_own_topic", 1);
                topic.clone()
            }
            2 if has_rt && tlen < 60_000 => format!("{}/x", topic),
            _ => "req".into(),
        };
        let inbound = SPacket::Publish { dup: false, qos: r.below(2) as u8, retain: false, topic: req_topic, pid: Some(7), props: props.clone(), payload: vec![9] };
        let inbound = match inbound {
            SPacket::Publish { qos: 0, dup, retain, topic, props, payload, .. } => SPacket::Publish { dup, qos: 0, retain, topic, pid: None, props, payload },
            p => p,
        };
        let steps = vec![connect_with(SpMode::Force(false), AckMode::Immediate, vec![]), Step::Broker(BrokerAct::Send(inbound)), Step::PollReply { mode: mode.clone(), payload: payload.clone(), user_props: user_props.clone(), qos }, poll0()];
        let (log, world) = run_script(&cfg, steps, seed);
        let w = world.borrow();
        out.evaluations = 1;
        let Some(rep) = log.replies.first() else {
            out.inconclusive = Some("the inbound publish was not delivered".into());
            return out;
        };
        let before = out.violations.len();
        let msg = &log.msgs[rep.msg];
        // accessors return exactly what was sent
        if msg.response_topic != has_rt.then(|| topic.clone()) || msg.correlation != has_cd.then(|| corr.clone()) {
            out.violations.push(viol("C20", "C20/accessors", format!("response_topic()/correlation_data() returned {:?}/{:?} bytes, sent {:?}/{:?} bytes", msg.response_topic.as_ref().map(|s| s.len()), msg.correlation.as_ref().map(|d| d.len()), has_rt.then_some(tlen), has_cd.then_some(dlen))));
        }
        out.key(format!("shape/t{}-d{}-pos{:?}-{}", bucket_len(tlen), if has_cd { bucket_len(dlen) as i32 } else { -1 }, pos_rt.map(|p| p.min(3)), match &mode { ReplyMode::Borrowed => "borrowed", _ => "owned" }));
        let mut nontrivial = false;
        if !has_rt {
            out.count("no_reply_offered", 1);
            if rep.offered.is_some() {
                out.violations.push(viol("C20", "C20/reply-without-response-topic", format!("a reply was offered ({:?}) although the request carried no Response Topic", rep.offered)));
            }
        } else {
            let fits = match &mode {
                ReplyMode::Borrowed => true,
                ReplyMode::Owned { topic_cap, corr_cap } => {
                    let f = tlen <= *topic_cap && (!has_cd || dlen <= *corr_cap);
                    if tlen == *topic_cap || (has_cd && dlen == *corr_cap) {
                        out.count("owned_exact_fit", 1);
                        nontrivial = true;
                    }
                    f
                }
            };
            match (&rep.offered, fits) {
                (Some(Ok(())), true) => {
                    if rep.helper_topic.as_deref() != Some(topic.as_str()) || rep.helper_corr != has_cd.then(|| corr.clone()) {
                        out.violations.push(viol("C20", "C20/owned-copy-differs", format!("owned target holds topic of {:?} bytes / correlation of {:?} bytes, request had {} / {:?}", rep.helper_topic.as_ref().map(|s| s.len()), rep.helper_corr.as_ref().map(|d| d.len()), tlen, has_cd.then_some(dlen))));
                    }
                    match &rep.sent {
                        Some(CPacket::Publish { topic: t2, props: p2, payload: pl, qos: q2, .. }) => {
                            out.count("replies_decoded", 1);
                            nontrivial = true;
                            let cds: Vec<&Vec<u8>> = p2.iter().filter_map(|p| if let Prop::CorrelationData(d) = p { Some(d) } else { None }).collect();
                            let want_cd: Vec<&Vec<u8>> = if has_cd { vec![&corr] } else { vec![] };
                            if *t2 != topic {
                                out.violations.push(viol("C20", "C20/reply-topic", format!("reply went to a topic of {} bytes, Response Topic had {} bytes (equal prefix {})", t2.len(), topic.len(), t2.bytes().zip(topic.bytes()).take_while(|(a, b)| a == b).count())));
                            }
                            if cds != want_cd {
                                out.violations.push(viol("C20", "C20/reply-correlation", format!("reply carries {} Correlation Data propert(ies) of lengths {:?}; the request had {:?}", cds.len(), cds.iter().map(|d| d.len()).collect::<Vec<_>>(), has_cd.then_some(dlen))));
                            }
                            let others: Vec<&Prop> = p2.iter().filter(|p| !matches!(p, Prop::CorrelationData(_))).collect();
                            let want_others: Vec<&Prop> = user_props.iter().flatten().collect();
                            if others != want_others {
                                out.violations.push(viol("C20", "C20/reply-user-properties", format!("reply properties {:?}, application attached {:?}", others, want_others)));
                            }
                            if user_props.is_some() {
                                out.count("replies_with_user_properties", 1);
                            }
                            if *pl != payload || *q2 != qos {
                                out.violations.push(viol("C20", "C20/reply-payload", format!("reply payload/qos {:?}/{} differs from {:?}/{}", pl, q2, payload, qos)));
                            }
                        }
                        other => out.violations.push(viol("C20", "C20/reply-not-publishable", format!("the reply publication could not be published and decoded: {:?}", other.as_ref().map(|p| p.type_name())))),
                    }
                }
                (Some(Err(ErrRepr::BufferTooSmall)), false) => {
                    out.count("owned_too_small", 1);
                    nontrivial = true;
                }
                (o, f) => out.violations.push(viol("C20", format!("C20/owned-capacity/{}", if f { "fits-but-refused" } else { "does-not-fit-but-accepted" }), format!("mode {:?}: topic {} bytes, correlation {:?} bytes -> {:?}", mode, tlen, has_cd.then_some(dlen), o))),
            }
        }
        if nontrivial {
            out.nontrivial.push(hash_of(&(tlen, dlen, has_cd, pos_rt, format!("{:?}", mode), user_props.is_some())));
            if out.sample.is_none() {
                out.sample = Some(serde_json::json!({"response_topic_len": tlen, "correlation_len": has_cd.then_some(dlen), "position": pos_rt, "mode": format!("{:?}", mode), "offered": format!("{:?}", rep.offered), "reply_decoded": rep.sent.as_ref().map(|p| trunc(&format!("{:?}", p), 160))}));
            }
        }
        if verbose && out.violations.len() > before {
            for l in render(&log, &w, 200) {
                println!("{}", l);
            }
        }
        out
    }
}

#[cfg(test)]
mod tests {
    use super::*;

    /// The C19 reference table and the strict decoder's per-packet property sets are written
    /// independently of each other; they must agree on which kinds a client packet may carry.
    #[test]
    fn table_agrees_with_decoder_property_sets() {
        let env = Env { topic_alias_max: 65535, connect_expiry: 1 };
        let mut r = Rng::new(1);
        for (ci, ctx) in CTXS.iter().enumerate() {
            // decoder contexts: 0 publish, 1 will, 2 subscribe, 3 unsubscribe, 4 disconnect
            let dctx = match ctx {
                Ctx::Publish => 0,
                Ctx::Will => 1,
                Ctx::Subscribe => 2,
                Ctx::Unsubscribe => 3,
                Ctx::Disconnect => 4,
                // the request/response builders produce PUBLISH packets (judged through the Publish row)
                Ctx::PublishCorrelated | Ctx::Reply => continue,
            };
            let _ = ci;
            for id in ALL_PROP_IDS {
                let vs: Vec<V> = variants(id, &mut r).iter().map(|p| verdict(p, *ctx, &env)).collect();
                let any_accept = vs.iter().any(|v| *v == V::Accept);
                let all_reject = vs.iter().all(|v| *v == V::Reject);
                let dec = crate::refcodec::client_allows(dctx, id);
                if any_accept {
                    assert!(dec, "table accepts {} in {:?} but the decoder forbids it", Prop::name(id), ctx);
                }
                if all_reject {
                    assert!(!dec, "table rejects {} in {:?} but the decoder allows it", Prop::name(id), ctx);
                }
            }
        }
    }
}
