mod exec;
mod refcodec;
mod reply;
mod rng;
mod steps;
mod vtime;
mod world;

use exec::*;
use steps::*;

fn main() {
    // smoke: connect, publish q1, poll
    let cfg = CaseCfg::default();
    let steps = vec![
        Step::Connect(ConnectSpec::default()),
        Step::Publish(PubSpec {
            topic: "a/b".into(),
            payload: PayloadSpec::Bytes(b"hello".to_vec()),
            qos: 1,
            retain: false,
            props: vec![],
            correlate: None,
            cancel_at: None,
        }),
        Step::Poll { max_wait: 1_000_000, cancel_at: None },
        Step::Poll { max_wait: 1_000_000, cancel_at: None },
    ];
    let mut d = Script::new(steps);
    let (log, world) = run_case(&cfg, 1, &mut d, 100);
    for o in &log.ops {
        println!("{} -> {:?} pend={}", o.kind, o.outcome, o.pendings);
    }
    let w = world.borrow();
    for c in &w.conns {
        for p in &c.out.packets {
            println!("conn{} {:?}", c.idx, p.pkt);
        }
        println!("err={:?}", c.out.error);
    }
    println!("{}", serde_json::to_string(&w.events).unwrap().len());
}
