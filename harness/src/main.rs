mod checks;
mod exec;
mod genr;
mod inbound;
mod leak;
mod model;
mod monitors;
mod refcodec;
mod reply;
mod requests;
mod rng;
mod runner;
mod scripts;
mod steps;
mod trace;
mod twins;
mod vtime;
mod world;

use runner::*;
use std::time::Duration;

fn usage() -> ! {
    eprintln!("usage: mqverif check <ID> <quick|thorough> | replay <file> | list");
    std::process::exit(64);
}

fn main() {
    let args: Vec<String> = std::env::args().collect();
    install_panic_hook();
    let verif_dir = std::env::var("VERIF_DIR").unwrap_or_else(|_| "/verif".to_string());
    let all = checks::all();
    match args.get(1).map(|s| s.as_str()) {
        Some("list") => {
            for c in &all {
                println!("{} {}", c.id(), c.level());
            }
        }
        Some("check") => {
            let id = args.get(2).unwrap_or_else(|| usage());
            let tier = match std::env::var("VERIF_TIER").ok().as_deref().or(args.get(3).map(|s| s.as_str())) {
                Some("thorough") => Tier::Thorough,
                _ => Tier::Quick,
            };
            let seed = std::env::var("VERIF_SEED").ok().and_then(|s| s.parse::<u64>().ok()).unwrap_or(1);
            let threads = std::env::var("VERIF_THREADS").ok().and_then(|s| s.parse().ok()).unwrap_or(16);
            let Some(check) = all.iter().find(|c| c.id() == id) else {
                eprintln!("unknown check {}", id);
                std::process::exit(64);
            };
            let cfg = RunCfg {
                tier,
                seed,
                threads,
                verif_dir,
                wall_cap: Duration::from_secs(if tier == Tier::Quick { 150 } else { 3000 }),
            };
            let code = run_check(check.as_ref(), &cfg);
            std::process::exit(code);
        }
        Some("template") => {
            // a sample history in the JSON form `script` reads
            use steps::*;
            let pol = IoPolicy { pend_write: Pend::Always, ..IoPolicy::default() };
            let mut c = genr::benign_connect(false);
            c.policy = pol;
            let st = vec![
                Step::Connect(c),
                Step::Disconnect(DiscSpec { reason: None, props: None, cancel_at: Some(1) }),
                Step::Subscribe(SubSpec { filters: vec![FilterSpec { filter: "a/b".into(), max_qos: 1, no_local: false, rap: false, rh: 0 }], props: vec![], cancel_at: None }),
                checks::pubq(1, "t", 1, 3),
                Step::DropConn,
                Step::Connect(genr::benign_connect(true)),
                checks::poll0(),
                Step::Broker(BrokerAct::Close),
                Step::Advance(1_000_000),
            ];
            println!("{}", serde_json::to_string_pretty(&serde_json::json!({"cfg": CaseCfg::default(), "steps": st})).unwrap());
        }
        Some("dumpscript") => {
            // the JSON form of one scripted history: dumpscript <name> <seed>
            let name = args.get(2).map(|s| s.as_str()).unwrap_or("");
            let seed: u64 = args.get(3).and_then(|s| s.parse().ok()).unwrap_or(1);
            let mut r = rng::Rng::new(seed);
            let (cfg, st) = match name {
                "stalled-probe" => scripts::stalled_probe_script(&mut r, 0, runner::Tier::Quick),
                "ping-between-pieces" => scripts::ping_between_pieces_script(&mut r, 0, runner::Tier::Quick),
                "replay-blocked" => scripts::replay_blocked_by_a_smaller_limit_script(&mut r, 0, runner::Tier::Quick),
                "c11" => scripts::c11_script(&mut r, 0, runner::Tier::Quick),
                "c14" => scripts::c14_script(&mut r, 0, runner::Tier::Quick),
                _ => usage(),
            };
            println!("{}", serde_json::to_string_pretty(&serde_json::json!({"cfg": cfg, "steps": st})).unwrap());
        }
        Some("script") => {
            // run one hand-written history and print it: script <file.json> ({"cfg": CaseCfg, "steps": [Step..]})
            let f = args.get(2).unwrap_or_else(|| usage());
            let v: serde_json::Value = serde_json::from_str(&std::fs::read_to_string(f).expect("read")).expect("json");
            let cfg: steps::CaseCfg = serde_json::from_value(v["cfg"].clone()).expect("cfg");
            let st: Vec<steps::Step> = serde_json::from_value(v["steps"].clone()).expect("steps");
            let (log, world) = checks::run_script(&cfg, st, 1);
            for l in trace::render(&log, &world.borrow(), 2000) {
                println!("{}", l);
            }
        }
        Some("shard") => {
            // single-threaded slice of one workload (used under Miri): shard <ID> <workload> <start> <count> [seed]
            let id = args.get(2).unwrap_or_else(|| usage());
            let wl: usize = args.get(3).and_then(|s| s.parse().ok()).unwrap_or_else(|| usage());
            let start: u64 = args.get(4).and_then(|s| s.parse().ok()).unwrap_or(0);
            let count: u64 = args.get(5).and_then(|s| s.parse().ok()).unwrap_or(10);
            let seed: u64 = args.get(6).and_then(|s| s.parse().ok()).unwrap_or(1);
            let check = all.iter().find(|c| c.id() == id).expect("unknown check");
            let mut evals = 0u64;
            let mut bad = 0u64;
            for i in start..start + count {
                let out = run_guarded(check.as_ref(), wl, seed, i, Tier::Quick, false);
                evals += out.evaluations;
                for v in &out.violations {
                    println!("SHARD-VIOLATION {} :: {}", v.sig, v.msg);
                    bad += 1;
                }
                if let Some(m) = &out.inconclusive {
                    println!("SHARD-INCONCLUSIVE {}", m);
                }
            }
            println!("SHARD-DONE id={} workload={} cases={}..{} evaluations={} violations={}", id, wl, start, start + count, evals, bad);
            std::process::exit(if bad == 0 { 0 } else { 1 });
        }
        Some("replay") => {
            let path = args.get(2).unwrap_or_else(|| usage());
            let text = std::fs::read_to_string(path).expect("read replay file");
            let v: serde_json::Value = serde_json::from_str(&text).expect("parse replay file");
            let id = v["property"].as_str().unwrap();
            let tier = if v["tier"].as_str() == Some("thorough") { Tier::Thorough } else { Tier::Quick };
            let seed = v["seed"].as_u64().unwrap();
            let wl = v["workload"].as_u64().unwrap() as usize;
            let index = v["index"].as_u64().unwrap();
            let check = all.iter().find(|c| c.id() == id).expect("unknown check");
            println!("replaying {} workload {} index {} seed {} ({})", id, wl, index, seed, v["signature"]);
            let out = run_guarded(check.as_ref(), wl, seed, index, tier, true);
            for vi in &out.violations {
                println!("VIOLATION-DETAIL {} :: {}", vi.sig, vi.msg);
            }
            std::process::exit(if out.violations.is_empty() { 0 } else { 1 });
        }
        _ => usage(),
    }
}
