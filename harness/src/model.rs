//! Reconstruction of the outbound exchange history from boundary events:
//! which request was accepted when, every transmission of it, and the acknowledgements the
//! client consumed for it.  Shared by C02, C03, C05, C06, C07, C16, C17, C18.

use crate::exec::*;
use crate::refcodec::{CPacket, SPacket};
use crate::trace::*;
use crate::world::*;

#[derive(Clone, Copy, Debug, PartialEq, Eq)]
pub struct Tx {
    pub conn: usize,
    pub idx: usize,
    pub ev: usize,
}

#[derive(Clone, Debug)]
pub struct Ack {
    pub conn: usize,
    pub idx: usize,
    /// event index at which the client read the last byte
    pub ev: usize,
    /// first failing code if any, else the (first) success code
    pub code: u8,
}

#[derive(Clone, Debug)]
pub struct OutMsg {
    pub op: usize,
    /// "publish1" | "publish2" | "subscribe" | "unsubscribe"
    pub kind: &'static str,
    pub pid: u16,
    pub epoch: u32,
    pub conn0: usize,
    /// event index at which the accepting call returned
    pub ev_accept: usize,
    pub ev_call: usize,
    pub handle: Option<usize>,
    /// PUBLISH / SUBSCRIBE / UNSUBSCRIBE transmissions
    pub txs: Vec<Tx>,
    /// PUBACK / SUBACK / UNSUBACK, or PUBREC for QoS 2
    pub ack: Option<Ack>,
    pub rels: Vec<Tx>,
    pub comp: Option<Ack>,
    /// final acknowledgement consumed (or failing PUBREC)
    pub ended_ev: Option<usize>,
    /// a fresh broker session replaced the one this request lived in
    pub invalidated_ev: Option<usize>,
    /// the call that consumed the successful PUBREC failed with InflightExhausted: the client
    /// forgot the exchange (C06 finding "qos2-dropped/release-full")
    pub dropped_ev: Option<usize>,
}

impl OutMsg {
    pub fn is_publish(&self) -> bool {
        self.kind == "publish1" || self.kind == "publish2"
    }
    /// still owed to the broker at event `ev`
    pub fn outstanding_at(&self, ev: usize) -> bool {
        self.ev_accept <= ev
            && self.ended_ev.is_none_or(|e| e > ev)
            && self.invalidated_ev.is_none_or(|e| e > ev)
    }
    /// QoS 2 exchange in the release phase at `ev`
    pub fn releasing_at(&self, ev: usize) -> bool {
        self.kind == "publish2"
            && self.ack.as_ref().is_some_and(|a| a.ev <= ev && a.code < 0x80)
            && self.outstanding_at(ev)
    }
}

#[derive(Clone, Debug)]
pub struct Orphan {
    pub tx: Tx,
    pub what: String,
}

pub struct Model {
    pub msgs: Vec<OutMsg>,
    /// identifier-bearing client packets that belong to no request of the current broker session
    pub orphans: Vec<Orphan>,
    /// acknowledgements consumed by the client that matched no outstanding request
    pub stale_acks: usize,
    /// packets completed by bytes of a DISCONNECT (see C01 known finding); ignored
    pub tainted: usize,
}

fn ack_code(p: &SPacket) -> u8 {
    match p {
        SPacket::PubAck { reason, .. }
        | SPacket::PubRec { reason, .. }
        | SPacket::PubRel { reason, .. }
        | SPacket::PubComp { reason, .. } => reason.unwrap_or(0),
        SPacket::SubAck { codes, .. } | SPacket::UnsubAck { codes, .. } => {
            codes.iter().copied().find(|c| *c >= 0x80).unwrap_or_else(|| codes.first().copied().unwrap_or(0))
        }
        _ => 0,
    }
}

impl Model {
    pub fn build(t: &Trace<'_>) -> Model {
        let log = t.log;
        let w = t.w;
        let mut msgs: Vec<OutMsg> = Vec::new();
        for (i, op) in log.ops.iter().enumerate() {
            let kind = match op.kind {
                "publish1" | "publish2" => match t.eff_qos(i) {
                    Some(1) => "publish1",
                    Some(2) => "publish2",
                    _ => continue,
                },
                "subscribe" => "subscribe",
                "unsubscribe" => "unsubscribe",
                _ => continue,
            };
            let handle = match &op.outcome {
                Outcome::Ok(OkKind::Handle(h)) => Some(*h),
                _ => None,
            };
            let pid = op
                .new_retained
                .first()
                .copied()
                .or_else(|| handle.and_then(|h| log.handles[h].pid));
            let Some(pid) = pid else { continue };
            msgs.push(OutMsg {
                op: i,
                kind,
                pid,
                epoch: t.epoch_at[op.ev_ret],
                conn0: op.conn.unwrap_or(0),
                ev_accept: op.ev_ret,
                ev_call: op.ev_call,
                handle,
                txs: vec![],
                ack: None,
                rels: vec![],
                comp: None,
                ended_ev: None,
                invalidated_ev: None,
                dropped_ev: None,
            });
        }
        let mut orphans = Vec::new();
        let mut stale_acks = 0usize;
        let mut tainted = 0usize;
        for (ev, e) in w.events.iter().enumerate() {
            let epoch = t.epoch_at[ev];
            match e {
                Ev::CPkt { conn, idx } => {
                    let rec = &w.conns[*conn].out.packets[*idx];
                    let tx = Tx { conn: *conn, idx: *idx, ev };
                    // disconnect() writes nothing but a DISCONNECT: any other packet "completed"
                    // during it is the C01 finding (DISCONNECT bytes landing inside a partial packet)
                    // (only where the stream is broken: a correct disconnect() first finishes a
                    // partially written packet, which then legitimately completes during the call)
                    if t.op_at(ev).is_some_and(|o| log.ops[o].kind == "disconnect")
                        && !matches!(rec.pkt, CPacket::Disconnect { .. })
                        && !t.conns[*conn].stream_ok
                    {
                        tainted += 1;
                        continue;
                    }
                    let (want, pid): (&[&str], u16) = match &rec.pkt {
                        CPacket::Publish { qos: 1, pid: Some(p), .. } => (&["publish1"], *p),
                        CPacket::Publish { qos: 2, pid: Some(p), .. } => (&["publish2"], *p),
                        CPacket::Subscribe { pid, .. } => (&["subscribe"], *pid),
                        CPacket::Unsubscribe { pid, .. } => (&["unsubscribe"], *pid),
                        CPacket::PubRel { pid, .. } => (&["rel"], *pid),
                        _ => continue,
                    };
                    if want[0] == "rel" {
                        let m = msgs
                            .iter_mut()
                            .rev()
                            .find(|m| m.kind == "publish2" && m.pid == pid && m.epoch == epoch && m.ev_call <= ev);
                        match m {
                            Some(m) => m.rels.push(tx),
                            None => orphans.push(Orphan { tx, what: format!("PUBREL #{}", pid) }),
                        }
                    } else {
                        let m = msgs.iter_mut().rev().find(|m| {
                            want.contains(&m.kind)
                                && m.pid == pid
                                && m.epoch == epoch
                                && m.ev_call <= ev
                                && m.ended_ev.is_none_or(|x| x > ev)
                        });
                        match m {
                            Some(m) => m.txs.push(tx),
                            None => orphans.push(Orphan { tx, what: format!("{} #{}", rec.pkt.type_name(), pid) }),
                        }
                    }
                }
                Ev::Consumed { conn, idx } => {
                    let p = &w.conns[*conn].in_pkts[*idx];
                    let Some(pkt) = &p.pkt else { continue };
                    let code = ack_code(pkt);
                    let ack = Ack { conn: *conn, idx: *idx, ev, code };
                    match pkt {
                        SPacket::ConnAck { sp: false, reason: 0, .. } => {
                            for m in msgs.iter_mut() {
                                if m.ev_accept < ev && m.ended_ev.is_none() && m.invalidated_ev.is_none() {
                                    m.invalidated_ev = Some(ev);
                                }
                            }
                        }
                        SPacket::PubAck { pid, .. } | SPacket::SubAck { pid, .. } | SPacket::UnsubAck { pid, .. } => {
                            let want = match pkt {
                                SPacket::PubAck { .. } => "publish1",
                                SPacket::SubAck { .. } => "subscribe",
                                _ => "unsubscribe",
                            };
                            match msgs.iter_mut().find(|m| m.kind == want && m.pid == *pid && m.outstanding_at(ev)) {
                                Some(m) => {
                                    m.ack = Some(ack);
                                    m.ended_ev = Some(ev);
                                }
                                None => stale_acks += 1,
                            }
                        }
                        SPacket::PubRec { pid, .. } => {
                            match msgs
                                .iter_mut()
                                .find(|m| m.kind == "publish2" && m.pid == *pid && m.outstanding_at(ev) && m.ack.is_none())
                            {
                                Some(m) => {
                                    if code >= 0x80 {
                                        m.ended_ev = Some(ev);
                                    } else if t.op_at(ev).is_some_and(|o| {
                                        log.ops[o].outcome == Outcome::Err(ErrRepr::InflightExhausted)
                                            && !w.events[ev + 1..log.ops[o].ev_ret].iter().any(|e| matches!(e, Ev::Consumed { .. }))
                                    }) {
                                        m.dropped_ev = Some(ev);
                                        m.ended_ev = Some(ev);
                                    }
                                    m.ack = Some(ack);
                                }
                                None => stale_acks += 1,
                            }
                        }
                        SPacket::PubComp { pid, .. } => {
                            match msgs.iter_mut().find(|m| m.releasing_at(ev) && m.pid == *pid) {
                                Some(m) => {
                                    m.comp = Some(ack);
                                    m.ended_ev = Some(ev);
                                }
                                None => stale_acks += 1,
                            }
                        }
                        _ => {}
                    }
                }
                _ => {}
            }
        }
        Model { msgs, orphans, stale_acks, tainted }
    }
}

/// First point on connection `conn` (event index) at which the client had nothing more to send:
/// a drive() that returned Ok(None), or a poll()/recv() that reached its read wait.
/// None if an operation failed on the connection before that.
pub fn drained_at(t: &Trace<'_>, conn: usize) -> Option<usize> {
    let ci = &t.conns[conn];
    if !ci.established || !ci.stream_ok {
        return None;
    }
    let start = ci.connect_op?;
    for op in t.log.ops.iter().skip(start + 1) {
        if op.conn != Some(conn) {
            break;
        }
        match (&op.outcome, op.kind) {
            (Outcome::Ok(OkKind::None), "drive") => return Some(op.ev_ret),
            (Outcome::CallerTimeout, "poll" | "recv" | "pollreply") => return Some(op.ev_ret),
            (Outcome::Err(ErrRepr::Rejected(_)), _) => {}
            (Outcome::Err(ErrRepr::NotReady | ErrRepr::InvalidRequest | ErrRepr::BufferTooSmall | ErrRepr::InflightExhausted | ErrRepr::Payload), "publish0" | "publish1" | "publish2" | "subscribe" | "unsubscribe") => {}
            (Outcome::Err(_), _) | (Outcome::Watchdog, _) => return None,
            _ => {}
        }
    }
    None
}

pub fn raw<'a>(w: &'a World, tx: &Tx) -> &'a [u8] {
    let c = &w.conns[tx.conn].out;
    let p = &c.packets[tx.idx];
    &c.bytes[p.start..p.end]
}
