//! Small deterministic PRNG (xoshiro256**, seeded through splitmix64).

#[derive(Clone, Debug)]
pub struct Rng {
    s: [u64; 4],
}

pub fn splitmix(x: &mut u64) -> u64 {
    *x = x.wrapping_add(0x9E37_79B9_7F4A_7C15);
    let mut z = *x;
    z = (z ^ (z >> 30)).wrapping_mul(0xBF58_476D_1CE4_E5B9);
    z = (z ^ (z >> 27)).wrapping_mul(0x94D0_49BB_1331_11EB);
    z ^ (z >> 31)
}

pub fn mix(a: u64, b: u64) -> u64 {
    let mut x = a ^ b.wrapping_mul(0xD6E8_FEB8_6659_FD93).rotate_left(23);
    splitmix(&mut x)
}

impl Rng {
    pub fn new(seed: u64) -> Self {
        let mut x = seed;
        Rng {
            s: [splitmix(&mut x), splitmix(&mut x), splitmix(&mut x), splitmix(&mut x)],
        }
    }
    pub fn fork(&mut self) -> Rng {
        Rng::new(self.next())
    }
    pub fn next(&mut self) -> u64 {
        let r = self.s[1].wrapping_mul(5).rotate_left(7).wrapping_mul(9);
        let t = self.s[1] << 17;
        self.s[2] ^= self.s[0];
        self.s[3] ^= self.s[1];
        self.s[1] ^= self.s[2];
        self.s[0] ^= self.s[3];
        self.s[2] ^= t;
        self.s[3] = self.s[3].rotate_left(45);
        r
    }
    /// uniform in 0..n (n > 0)
    pub fn below(&mut self, n: usize) -> usize {
        (self.next() % n as u64) as usize
    }
    /// uniform in lo..=hi
    pub fn range(&mut self, lo: usize, hi: usize) -> usize {
        lo + self.below(hi - lo + 1)
    }
    pub fn chance(&mut self, num: u32, den: u32) -> bool {
        (self.next() % den as u64) < num as u64
    }
    pub fn pick<'a, T>(&mut self, xs: &'a [T]) -> &'a T {
        &xs[self.below(xs.len())]
    }
    pub fn bytes(&mut self, n: usize) -> Vec<u8> {
        (0..n).map(|_| self.next() as u8).collect()
    }
    pub fn shuffle<T>(&mut self, xs: &mut [T]) {
        for i in (1..xs.len()).rev() {
            let j = self.below(i + 1);
            xs.swap(i, j);
        }
    }
    /// weighted choice: returns index
    pub fn weighted(&mut self, w: &[u32]) -> usize {
        let total: u32 = w.iter().sum();
        let mut x = (self.next() % total as u64) as u32;
        for (i, &wi) in w.iter().enumerate() {
            if x < wi {
                return i;
            }
            x -= wi;
        }
        w.len() - 1
    }
}
