//! Parallel case runner, verdict aggregation, evidence, replay files and known findings.

use crate::rng::mix;
use crate::trace::Violation;
use serde_json::{Value, json};
use std::collections::{BTreeMap, HashSet};
use std::panic::{AssertUnwindSafe, catch_unwind};
use std::sync::atomic::{AtomicBool, AtomicU64, Ordering};
use std::sync::{Arc, Mutex};
use std::time::{Duration, Instant};

#[derive(Clone, Copy, Debug, PartialEq, Eq)]
pub enum Tier {
    Quick,
    Thorough,
}

impl Tier {
    pub fn name(self) -> &'static str {
        match self {
            Tier::Quick => "quick",
            Tier::Thorough => "thorough",
        }
    }
}

#[derive(Default)]
pub struct CaseOut {
    pub violations: Vec<Violation>,
    /// one entry per judged execution inside this case (twin monitors: one per pair)
    pub evaluations: u64,
    /// abstract-trace hashes of executions that are non-trivial by the check's rule
    pub nontrivial: Vec<u64>,
    pub states: Vec<u64>,
    pub counters: BTreeMap<String, u64>,
    /// distinct-coverage keys (e.g. crash points, cells) merged into sets across cases
    pub keys: Vec<String>,
    pub sample: Option<Value>,
    pub inconclusive: Option<String>,
}

impl CaseOut {
    pub fn count(&mut self, k: &str, n: u64) {
        *self.counters.entry(k.to_string()).or_insert(0) += n;
    }
    pub fn key(&mut self, k: String) {
        self.keys.push(k);
    }
}

pub struct Workload {
    pub name: &'static str,
    pub quick: u64,
    pub thorough: u64,
}

pub trait Check: Sync {
    fn id(&self) -> &'static str;
    fn level(&self) -> &'static str;
    fn rule(&self) -> String;
    fn assumptions(&self) -> Vec<String>;
    fn workloads(&self) -> Vec<Workload>;
    /// minimum number of distinct non-trivial cases below which the run is inconclusive
    fn min_nontrivial(&self, tier: Tier) -> usize {
        match tier {
            Tier::Quick => 20,
            Tier::Thorough => 100,
        }
    }
    /// counters that must be non-zero for the run to be meaningful
    fn required_counters(&self) -> Vec<&'static str> {
        vec![]
    }
    fn run(&self, workload: usize, seed: u64, index: u64, tier: Tier, verbose: bool) -> CaseOut;
    /// Does this sub-space get enumerated completely?
    fn exhaustive(&self) -> bool {
        false
    }
}

thread_local! {
    static PANIC_INFO: std::cell::RefCell<Option<(String, String)>> = const { std::cell::RefCell::new(None) };
}

pub fn install_panic_hook() {
    std::panic::set_hook(Box::new(|info| {
        let loc = info
            .location()
            .map(|l| format!("{}:{}", l.file(), l.line()))
            .unwrap_or_else(|| "?".into());
        let msg = if let Some(s) = info.payload().downcast_ref::<&str>() {
            s.to_string()
        } else if let Some(s) = info.payload().downcast_ref::<String>() {
            s.clone()
        } else {
            "panic".to_string()
        };
        PANIC_INFO.with(|p| *p.borrow_mut() = Some((loc, msg)));
    }));
}

pub fn take_panic() -> Option<(String, String)> {
    PANIC_INFO.with(|p| p.borrow_mut().take())
}

/// Is the panic location inside the code under test (minimq or a dependency it calls)?
pub fn panic_in_sut(loc: &str) -> bool {
    !loc.contains("harness/src") && !loc.starts_with("src/")
}

#[derive(Clone, Debug)]
pub struct Known {
    pub property: String,
    pub signature: String,
    pub status: String,
    pub what: String,
}

pub fn load_known(path: &str) -> Vec<Known> {
    let Ok(text) = std::fs::read_to_string(path) else { return vec![] };
    let Ok(v) = serde_json::from_str::<Value>(&text) else { return vec![] };
    v.get("findings")
        .and_then(|f| f.as_array())
        .map(|a| {
            a.iter()
                .map(|e| Known {
                    property: e["property"].as_str().unwrap_or("").into(),
                    signature: e["signature"].as_str().unwrap_or("").into(),
                    status: e["status"].as_str().unwrap_or("").into(),
                    what: e["what"].as_str().unwrap_or("").into(),
                })
                .collect()
        })
        .unwrap_or_default()
}

struct Agg {
    evaluations: u64,
    nontrivial: HashSet<u64>,
    states: HashSet<u64>,
    counters: BTreeMap<String, u64>,
    keys: HashSet<String>,
    samples: Vec<Value>,
    /// signature -> (count, first message, workload, index)
    violations: BTreeMap<String, (u64, String, usize, u64)>,
    inconclusive: Vec<String>,
    cases: u64,
}

pub struct RunCfg {
    pub tier: Tier,
    pub seed: u64,
    pub threads: usize,
    pub verif_dir: String,
    pub wall_cap: Duration,
}

pub fn case_seed(seed: u64, id: &str, workload: usize, index: u64) -> u64 {
    let h = id.bytes().fold(0xcbf29ce484222325u64, |h, b| (h ^ b as u64).wrapping_mul(0x100000001b3));
    mix(mix(mix(seed, h), workload as u64), index)
}

/// Run one case under catch_unwind; panics in the code under test become violations.
pub fn run_guarded(check: &dyn Check, workload: usize, seed: u64, index: u64, tier: Tier, verbose: bool) -> CaseOut {
    let cs = case_seed(seed, check.id(), workload, index);
    let r = catch_unwind(AssertUnwindSafe(|| check.run(workload, cs, index, tier, verbose)));
    match r {
        Ok(o) => o,
        Err(_) => {
            let (loc, msg) = take_panic().unwrap_or(("?".into(), "?".into()));
            let mut o = CaseOut::default();
            o.evaluations = 1;
            if panic_in_sut(&loc) {
                // strip line numbers so the signature names the call site file only
                let file = loc.rsplit('/').next().unwrap_or(&loc).split(':').next().unwrap_or("").to_string();
                o.violations.push(Violation {
                    prop: "",
                    sig: format!("{}/panic/{}", check.id(), file),
                    msg: format!("panic in code under test at {}: {}", loc, msg),
                });
            } else {
                o.inconclusive = Some(format!("harness panic at {}: {}", loc, msg));
            }
            o
        }
    }
}

/// Returns the process exit code.
pub fn run_check(check: &dyn Check, cfg: &RunCfg) -> i32 {
    let t0 = Instant::now();
    let id = check.id();
    let wls = check.workloads();
    let mut plan: Vec<(usize, u64)> = Vec::new();
    for (wi, w) in wls.iter().enumerate() {
        let n = if cfg.tier == Tier::Quick { w.quick } else { w.thorough };
        for i in 0..n {
            plan.push((wi, i));
        }
    }
    let total = plan.len() as u64;
    let plan = Arc::new(plan);
    let next = Arc::new(AtomicU64::new(0));
    let stop = Arc::new(AtomicBool::new(false));
    let agg = Arc::new(Mutex::new(Agg {
        evaluations: 0,
        nontrivial: HashSet::new(),
        states: HashSet::new(),
        counters: BTreeMap::new(),
        keys: HashSet::new(),
        samples: Vec::new(),
        violations: BTreeMap::new(),
        inconclusive: Vec::new(),
        cases: 0,
    }));
    // supervisor data: per worker (start instant millis since t0, workload, index)
    let progress: Arc<Vec<Mutex<Option<(Instant, usize, u64)>>>> =
        Arc::new((0..cfg.threads).map(|_| Mutex::new(None)).collect());
    // kernel thread id of every worker and its CPU time when its current case began: the watchdog
    // decides on CPU time consumed, not on wall-clock time (a loaded machine starves workers)
    let tids: Arc<Vec<Mutex<(u64, u64)>>> = Arc::new((0..cfg.threads).map(|_| Mutex::new((0, 0))).collect());
    let hung: Arc<Mutex<Option<(usize, u64, bool)>>> = Arc::new(Mutex::new(None));

    std::thread::scope(|s| {
        for t in 0..cfg.threads {
            let plan = plan.clone();
            let next = next.clone();
            let stop = stop.clone();
            let agg = agg.clone();
            let progress = progress.clone();
            let tids = tids.clone();
            let seed = cfg.seed;
            let tier = cfg.tier;
            std::thread::Builder::new()
                .stack_size(64 << 20)
                .spawn_scoped(s, move || {
                    let tid = own_tid();
                    loop {
                        if stop.load(Ordering::Relaxed) {
                            break;
                        }
                        let i = next.fetch_add(1, Ordering::Relaxed);
                        if i >= plan.len() as u64 {
                            break;
                        }
                        let (wi, idx) = plan[i as usize];
                        *tids[t].lock().unwrap() = (tid, thread_cpu_ms(tid));
                        *progress[t].lock().unwrap() = Some((Instant::now(), wi, idx));
                        let out = run_guarded(check, wi, seed, idx, tier, false);
                        *progress[t].lock().unwrap() = None;
                        let mut a = agg.lock().unwrap();
                        a.cases += 1;
                        a.evaluations += out.evaluations;
                        a.nontrivial.extend(out.nontrivial.iter().copied());
                        a.states.extend(out.states.iter().copied());
                        for (k, v) in out.counters {
                            *a.counters.entry(k).or_insert(0) += v;
                        }
                        a.keys.extend(out.keys);
                        if let Some(sv) = out.sample {
                            if a.samples.len() < 4 {
                                a.samples.push(sv);
                            }
                        }
                        if let Some(m) = out.inconclusive {
                            if a.inconclusive.len() < 5 {
                                a.inconclusive.push(format!("{} (workload {} case {})", m, wi, idx));
                            }
                        }
                        for v in out.violations {
                            let e = a.violations.entry(v.sig.clone()).or_insert((0, v.msg.clone(), wi, idx));
                            e.0 += 1;
                        }
                    }
                })
                .unwrap();
        }
        // supervisor: wall-clock watchdog (never a verdict on its own, except for C16)
        let sup_stop = stop.clone();
        let sup_next = next.clone();
        let sup_progress = progress.clone();
        let sup_hung = hung.clone();
        let sup_tids = tids.clone();
        let wall_cap = cfg.wall_cap;
        s.spawn(move || {
            loop {
                std::thread::sleep(Duration::from_millis(200));
                if sup_next.load(Ordering::Relaxed) >= total
                    && sup_progress.iter().all(|p| p.lock().unwrap().is_none())
                {
                    break;
                }
                if t0.elapsed() > wall_cap {
                    sup_stop.store(true, Ordering::Relaxed);
                }
                for (t, p) in sup_progress.iter().enumerate() {
                    if let Some((st, wi, idx)) = *p.lock().unwrap() {
                        if st.elapsed() > Duration::from_secs(120) {
                            // one case has been running for two minutes: has it been computing
                            // all that time (a loop without I/O and without a look at the clock),
                            // or is the machine busy with other things?
                            let (tid, cpu0) = *sup_tids[t].lock().unwrap();
                            let used = thread_cpu_ms(tid).saturating_sub(cpu0);
                            if (tid != 0 && used > 100_000) || st.elapsed() > Duration::from_secs(3600) {
                                *sup_hung.lock().unwrap() = Some((wi, idx, tid != 0 && used > 100_000));
                            }
                        }
                    }
                }
                if sup_hung.lock().unwrap().is_some() {
                    break;
                }
                if sup_stop.load(Ordering::Relaxed) && sup_progress.iter().all(|p| p.lock().unwrap().is_none()) {
                    break;
                }
            }
        });
        // if a worker hangs in a CPU loop the scope would never end: poll and bail out hard
        loop {
            std::thread::sleep(Duration::from_millis(100));
            if let Some((wi, idx, computing)) = *hung.lock().unwrap() {
                let replay = write_replay(cfg, id, &format!("{}/hang", id), if computing { "case consumed more than 100 s of CPU time without finishing" } else { "case did not finish within an hour of wall-clock time (the machine was busy: the case itself consumed little CPU time)" }, wi, idx);
                if id == "C16" && computing {
                    println!("VIOLATION property=C16 replay={}", replay);
                    std::process::exit(1);
                }
                println!("INCONCLUSIVE property={} case hung (workload {} index {}), see {}", id, wi, idx, replay);
                std::process::exit(2);
            }
            let done = next.load(Ordering::Relaxed) >= total || stop.load(Ordering::Relaxed);
            if done && progress.iter().all(|p| p.lock().unwrap().is_none()) {
                break;
            }
        }
    });

    let a = Arc::try_unwrap(agg).ok().unwrap().into_inner().unwrap();
    let known = load_known(&format!("{}/known_findings.json", cfg.verif_dir));
    let mut exit = 0;
    let mut new_violations = 0u64;
    let mut known_hits: Vec<Value> = Vec::new();
    let mut viol_list: Vec<Value> = Vec::new();
    for (sig, (count, msg, wi, idx)) in &a.violations {
        let k = known.iter().find(|k| k.property == id && k.status == "known" && k.signature == *sig);
        if let Some(k) = k {
            let replay = write_replay(cfg, id, sig, msg, *wi, *idx);
            println!("KNOWN-FINDING: property={} {} [{}] ({} occurrences, e.g. {})", id, k.what, sig, count, replay);
            known_hits.push(json!({"signature": sig, "occurrences": count, "what": k.what}));
        } else {
            let replay = write_replay(cfg, id, sig, msg, *wi, *idx);
            println!("VIOLATION property={} replay={}", id, replay);
            println!("  signature={} occurrences={} : {}", sig, count, msg);
            viol_list.push(json!({"signature": sig, "occurrences": count, "message": msg, "replay": replay}));
            new_violations += 1;
            exit = 1;
        }
    }
    let distinct = a.nontrivial.len();
    let mut inconclusive: Vec<String> = a.inconclusive.clone();
    if exit == 0 {
        if distinct < check.min_nontrivial(cfg.tier) {
            inconclusive.push(format!(
                "only {} distinct non-trivial cases observed (minimum {})",
                distinct,
                check.min_nontrivial(cfg.tier)
            ));
        }
        for c in check.required_counters() {
            if a.counters.get(c).copied().unwrap_or(0) == 0 {
                inconclusive.push(format!("required event counter `{}` is zero", c));
            }
        }
        if a.cases < total {
            inconclusive.push(format!("wall-clock cap reached after {} of {} cases", a.cases, total));
        }
    }
    let wall = t0.elapsed().as_secs_f64();
    let mut coverage = json!({
        "evaluations": a.evaluations,
        "distinct_nontrivial": distinct,
        "rule": check.rule(),
        "samples": a.samples,
        "states": a.states.len(),
        "cases_run": a.cases,
        "cases_planned": total,
        "counters": a.counters,
        "distinct_keys": a.keys.len(),
        "known_finding_hits": known_hits,
        "violation_list": viol_list,
        "inconclusive": inconclusive,
        "workloads": wls.iter().map(|w| json!({"name": w.name, "cases": if cfg.tier == Tier::Quick { w.quick } else { w.thorough }})).collect::<Vec<_>>(),
    });
    if check.exhaustive() {
        coverage["exhaustive_subspaces"] = json!(true);
    }
    let mut keys: Vec<&String> = a.keys.iter().collect();
    keys.sort();
    coverage["key_examples"] = json!(keys.iter().take(40).collect::<Vec<_>>());
    let evidence = json!({
        "property_id": id,
        "tier": cfg.tier.name(),
        "seed": cfg.seed,
        "level": check.level(),
        "coverage": coverage,
        "assumptions": check.assumptions(),
        "wall_s": wall,
        "violations": new_violations,
    });
    let _ = std::fs::create_dir_all(format!("{}/evidence", cfg.verif_dir));
    let path = format!("{}/evidence/{}.json", cfg.verif_dir, id);
    std::fs::write(&path, serde_json::to_string_pretty(&evidence).unwrap()).expect("write evidence");
    println!(
        "{} {}: cases={} evaluations={} distinct_nontrivial={} states={} keys={} wall={:.1}s",
        id,
        cfg.tier.name(),
        a.cases,
        a.evaluations,
        distinct,
        a.states.len(),
        a.keys.len(),
        wall
    );
    for (k, v) in &a.counters {
        println!("  {} = {}", k, v);
    }
    if exit == 0 && !inconclusive.is_empty() {
        for m in &inconclusive {
            println!("INCONCLUSIVE property={} {}", id, m);
        }
        return 2;
    }
    exit
}

pub fn write_replay(cfg: &RunCfg, id: &str, sig: &str, msg: &str, workload: usize, index: u64) -> String {
    let dir = format!("{}/replays", cfg.verif_dir);
    let _ = std::fs::create_dir_all(&dir);
    let h = sig.bytes().fold(0xcbf29ce484222325u64, |h, b| (h ^ b as u64).wrapping_mul(0x100000001b3));
    let path = format!("{}/{}-{:08x}.json", dir, id, h as u32);
    let v = json!({
        "property": id,
        "signature": sig,
        "message": msg,
        "tier": cfg.tier.name(),
        "seed": cfg.seed,
        "workload": workload,
        "index": index,
        "how": format!("cd /verif && ./check replay {}", path),
    });
    let _ = std::fs::write(&path, serde_json::to_string_pretty(&v).unwrap());
    path
}

/// Kernel id of the calling thread (0 if /proc is not available).
fn own_tid() -> u64 {
    std::fs::read_link("/proc/thread-self").ok().and_then(|p| p.file_name().and_then(|n| n.to_str().and_then(|n| n.parse().ok()))).unwrap_or(0)
}

/// CPU time (user + system) consumed so far by a thread of this process, in milliseconds.
fn thread_cpu_ms(tid: u64) -> u64 {
    if tid == 0 {
        return 0;
    }
    let Ok(stat) = std::fs::read_to_string(format!("/proc/self/task/{}/stat", tid)) else { return 0 };
    // fields after the command name (which may contain spaces): state is field 3, utime 14, stime 15
    let Some(rest) = stat.rsplit_once(')').map(|x| x.1) else { return 0 };
    let f: Vec<&str> = rest.split_whitespace().collect();
    let (Some(u), Some(s)) = (f.get(11).and_then(|x| x.parse::<u64>().ok()), f.get(12).and_then(|x| x.parse::<u64>().ok())) else { return 0 };
    // USER_HZ is 100 on Linux
    (u + s) * 10
}

#[cfg(test)]
mod watchdog_tests {
    use super::*;

    #[test]
    fn thread_cpu_time_counts_computation_only() {
        let tid = own_tid();
        assert!(tid != 0);
        let c0 = thread_cpu_ms(tid);
        std::thread::sleep(Duration::from_millis(300));
        let c1 = thread_cpu_ms(tid);
        assert!(c1 - c0 < 100, "sleeping consumed {} ms of CPU", c1 - c0);
        let t = Instant::now();
        let mut x = 0u64;
        while t.elapsed() < Duration::from_millis(400) {
            x = x.wrapping_mul(6364136223846793005).wrapping_add(1);
        }
        std::hint::black_box(x);
        let c2 = thread_cpu_ms(tid);
        assert!(c2 - c1 >= 150, "spinning for 400 ms consumed only {} ms of CPU", c2 - c1);
    }
}
