//! Differential (twin-run) checks: C13 cancellation, C15 fragmentation.

use crate::checks::*;
use crate::exec::*;
use crate::genr::*;
use crate::refcodec::{CPacket, Prop};
use crate::rng::Rng;
use crate::runner::*;
use crate::steps::*;
use crate::trace::*;
use crate::world::*;
use std::collections::VecDeque;

/// What an execution showed at the boundary, in comparable form.
#[derive(PartialEq, Debug, Clone)]
pub struct Observed {
    /// per connection: (first byte, raw bytes) of every complete client packet
    pub packets: Vec<Vec<Vec<u8>>>,
    pub dangling: Vec<usize>,
    pub delivered: Vec<MsgRec>,
}

pub fn observe(log: &RunLog, w: &World) -> Observed {
    Observed {
        packets: w.conns.iter().map(|c| c.out.packets.iter().map(|p| c.out.bytes[p.start..p.end].to_vec()).collect()).collect(),
        dangling: w.conns.iter().map(|c| c.out.dangling()).collect(),
        delivered: log
            .msgs
            .iter()
            .map(|m| MsgRec { op: 0, ..m.clone() })
            .collect(),
    }
}

fn describe(p: &[u8]) -> String {
    match crate::refcodec::decode_client(p) {
        Ok(pk) => {
            let s = format!("{:?}", pk);
            trunc(&s, 120)
        }
        Err(_) => format!("{:02x?}", &p[..p.len().min(16)]),
    }
}

/// First difference between two observations, as text.
pub fn diff(a: &Observed, b: &Observed) -> Option<(String, String)> {
    if a.packets.len() != b.packets.len() {
        return Some(("connection-count".into(), format!("{} connections vs {}", a.packets.len(), b.packets.len())));
    }
    for (ci, (pa, pb)) in a.packets.iter().zip(&b.packets).enumerate() {
        for i in 0..pa.len().max(pb.len()) {
            match (pa.get(i), pb.get(i)) {
                (Some(x), Some(y)) if x == y => {}
                (Some(x), Some(y)) => return Some(("packet-differs".into(), format!("conn {} packet {}: reference {} / variant {}", ci, i, describe(x), describe(y)))),
                (Some(x), None) => return Some(("packet-missing".into(), format!("conn {} packet {}: reference has {} but the variant sent nothing more", ci, i, describe(x)))),
                (None, Some(y)) => return Some(("packet-extra".into(), format!("conn {} packet {}: variant sent {} which the reference never sent", ci, i, describe(y)))),
                (None, None) => unreachable!(),
            }
        }
        if a.dangling[ci] != b.dangling[ci] {
            return Some(("dangling-bytes".into(), format!("conn {}: {} vs {} bytes of an incomplete packet at the end", ci, a.dangling[ci], b.dangling[ci])));
        }
    }
    if a.delivered != b.delivered {
        let i = a.delivered.iter().zip(&b.delivered).position(|(x, y)| x != y).unwrap_or(a.delivered.len().min(b.delivered.len()));
        return Some(("deliveries-differ".into(), format!("delivered message #{} differs: reference {:?} / variant {:?} ({} vs {} messages)", i, a.delivered.get(i).map(|m| &m.topic), b.delivered.get(i).map(|m| &m.topic), a.delivered.len(), b.delivered.len())));
    }
    None
}

// -------------------------------------------------------------------------------------------
// C13

/// Replays a recorded prefix, then issues the final request (optionally cancelled, possibly
/// several times), then drives the connection until idle; re-issues the request if it was not
/// enqueued.
struct CancelTwin {
    prefix: VecDeque<Step>,
    request: Step,
    /// cancel points for successive attempts (empty = the uncancelled reference)
    cancels: VecDeque<usize>,
    stage: u8,
    drain_left: usize,
    reissued: bool,
    /// what the application asks for when it calls again after giving a call up (None: the same)
    reissue_as: Option<Step>,
    pub request_ops: Vec<usize>,
    /// after a cancelled disconnect(): call poll() once before calling disconnect() again
    poll_before_reissue: bool,
    pub polled_before_reissue: bool,
    /// a PINGREQ was unanswered when the `advance_after` step was issued
    pub ping_open_at_advance: bool,
    /// after the (possibly cancelled) request: let go of the handle, connect again, poll
    reconnect_after: bool,
    /// (with `reconnect_after`) the application never calls the request at all
    skip_request: bool,
    /// (with `reconnect_after`) another request issued on the same handle before it is dropped
    other_op: Option<Step>,
    pub other_op_at: Option<usize>,
    /// once the request has been taken (or completed): let this much time pass before the
    /// connection is driven on (the keep-alive deadline falls into the gap)
    advance_after: Option<u64>,
    tail: VecDeque<Step>,
    /// the operation that follows the request is a QoS 0 publish (written straight from scratch
    /// space, not through the outbound queue)
    then_qos0: bool,
    /// once the connection has gone idle after the request: one more identifier-bearing request,
    /// and the connection is driven until idle again
    then_another: bool,
    another_done: bool,
    qos0_done: bool,
}

fn with_cancel(s: &Step, at: Option<usize>) -> Step {
    let mut s = s.clone();
    match &mut s {
        Step::Publish(p) => p.cancel_at = at,
        Step::Subscribe(p) => p.cancel_at = at,
        Step::Unsubscribe(p) => p.cancel_at = at,
        Step::Disconnect(p) => p.cancel_at = at,
        Step::Poll { cancel_at, .. } | Step::Recv { cancel_at, .. } | Step::Drive { cancel_at } => *cancel_at = at,
        _ => {}
    }
    s
}

impl Driver for CancelTwin {
    fn next(&mut self, v: &View<'_>) -> Option<Step> {
        if let Some(s) = self.prefix.pop_front() {
            return Some(s);
        }
        loop {
            match self.stage {
                0 => {
                    if self.skip_request {
                        self.stage = 7;
                        continue;
                    }
                    // issue the request: cancelled attempts first
                    self.request_ops.push(v.log.ops.len());
                    if let Some(at) = self.cancels.pop_front() {
                        self.stage = 1;
                        self.poll_before_reissue = matches!(self.request, Step::Disconnect(_)) && at % 2 == 1;
                        return Some(with_cancel(&self.request, Some(at)));
                    }
                    self.stage = if self.reconnect_after { 7 } else { 3 };
                    self.drain_left = 60;
                    return Some(with_cancel(&self.request, None));
                }
                7 => {
                    self.stage = 5;
                    if let Some(s) = self.other_op.take() {
                        if v.has_handle {
                            self.other_op_at = Some(v.log.ops.len());
                            return Some(s);
                        }
                    }
                }
                5 => {
                    // the application lets go of the handle and connects again
                    self.stage = 6;
                    self.tail = vec![Step::Connect(benign_connect(v.snap.session_present)), Step::Poll { max_wait: 0, cancel_at: None }, Step::Poll { max_wait: 0, cancel_at: None }, Step::Poll { max_wait: 0, cancel_at: None }].into();
                    // (a request that was given up may leave more or less for the next connection
                    // than the completed one: both runs are driven until everything owed is out)
                    if matches!(self.request, Step::Publish(_) | Step::Subscribe(_) | Step::Unsubscribe(_)) {
                        for _ in 0..24 {
                            self.tail.push_back(Step::Poll { max_wait: 0, cancel_at: None });
                        }
                    }
                    if v.has_handle {
                        return Some(Step::DropConn);
                    }
                }
                6 => match self.tail.pop_front() {
                    Some(s) => return Some(s),
                    None => self.stage = 4,
                },
                1 => {
                    // after a cancelled attempt: was the request enqueued?
                    let last = v.log.ops.last().unwrap();
                    let cancelled = last.outcome == Outcome::Cancelled;
                    let enq = !last.new_retained.is_empty();
                    let is_req = matches!(self.request, Step::Publish(_) | Step::Subscribe(_) | Step::Unsubscribe(_));
                    if self.reconnect_after {
                        self.stage = 7;
                        continue;
                    }
                    if !cancelled {
                        // the cancel point was never reached: this attempt was a complete call
                        self.cancels.clear();
                        self.stage = 3;
                        self.drain_left = 60;
                        continue;
                    }
                    if is_req && enq {
                        // survived its cancellation: just keep driving
                        self.cancels.clear();
                        self.stage = 3;
                        self.drain_left = 60;
                        continue;
                    }
                    if !self.cancels.is_empty() {
                        self.stage = 0;
                        continue;
                    }
                    // "continue to drive the connection", then (re)issue what is still wanted
                    self.stage = 2;
                    self.drain_left = 60;
                }
                2 => {
                    // the application still wants its request: it simply calls again (polling in
                    // between would legitimately reorder the request against reaction packets)
                    let needs = matches!(self.request, Step::Publish(_) | Step::Subscribe(_) | Step::Unsubscribe(_) | Step::Disconnect(_));
                    // (an application that gave up on a disconnect() may as well poll first: the
                    // connection then ends there, and calling disconnect() again is a no-op)
                    if self.poll_before_reissue && v.has_handle {
                        self.poll_before_reissue = false;
                        self.polled_before_reissue = true;
                        // (or, one time in three, issues another request first: it uses the
                        // transmit arena, where a parked DISCONNECT with properties lives)
                        return Some(match v.log.ops.len() % 3 {
                            0 => pubq(1, "c13/between", 0xBE, 24),
                            _ => Step::Poll { max_wait: 0, cancel_at: None },
                        });
                    }
                    self.stage = 3;
                    self.drain_left = 60;
                    if needs && !self.reissued {
                        self.reissued = true;
                        self.request_ops.push(v.log.ops.len());
                        return Some(with_cancel(self.reissue_as.as_ref().unwrap_or(&self.request), None));
                    }
                    continue;
                }
                3 => {
                    if let Some(us) = self.advance_after.take() {
                        self.ping_open_at_advance = v.snap.ping_timeout.is_some();
                        return Some(Step::Advance(us));
                    }
                    if self.then_qos0 && !self.qos0_done {
                        self.qos0_done = true;
                        if v.has_handle {
                            return Some(Step::Publish(PubSpec { topic: "q0".into(), payload: PayloadSpec::Fill { len: 6, tag: 0xC130, ascii: false }, qos: 0, retain: false, props: vec![], correlate: None, cancel_at: None }));
                        }
                    }
                    let last = v.log.ops.last().unwrap();
                    let idle = matches!((&last.outcome, last.kind), (Outcome::CallerTimeout, "poll")) && self.drain_left < 60;
                    if (self.drain_left == 0 || idle) && self.then_another && !self.another_done && v.has_handle && v.is_connected {
                        self.another_done = true;
                        self.drain_left = 30;
                        return Some(pubq(1, "c13/next", 0xC131, 3));
                    }
                    if self.drain_left == 0 || idle || !v.has_handle || !v.is_connected {
                        self.stage = 4;
                        continue;
                    }
                    self.drain_left -= 1;
                    return Some(Step::Poll { max_wait: 0, cancel_at: None });
                }
                _ => return None,
            }
        }
    }
}

pub struct C13;

fn c13_profile(r: &mut Rng) -> Profile {
    let mut p = Profile::default();
    p.name = "cancel-twin";
    // the recorded prefix may itself contain cancelled operations (identical in both runs): the
    // request under test then starts from a half-written packet
    p.cancel_pct = 15;
    p.connect_cancel_pct = 0;
    p.conn_fault_pct = 0;
    p.w_fault = 0;
    p.w_io = 0;
    p.w_advance = 0;
    p.w_disconnect = 0;
    p.w_drop = 2;
    p.w_forget = 0;
    p.w_into_inner = 0;
    p.w_bclose = 0;
    p.w_bdisc = 0;
    p.w_bstale = 0;
    p.w_bpolicy = 0;
    p.bad_connack_pct = 0;
    // keep-alive traffic is cancelled too (cancellation takes no virtual time, so both runs agree on it)
    p.keepalive_choices = vec![0, 0, 1, 2, 10];
    p.ack_modes = vec![AckMode::Immediate, AckMode::Hold, AckMode::Never];
    p.fail_pcts = vec![0];
    p.longform_pcts = vec![0, 100];
    p.sp_w = [2, 8, 1];
    p.max_conns = 3;
    p.w_pub = [3, 10, 10];
    p.w_bpublish = 10;
    p.w_poll = 10;
    p.rm_choices = vec![None, Some(8), Some(3)];
    p.mps_choices = vec![None];
    p.maxqos_choices = vec![None];
    p.assigned_id_pct = 0;
    p.extra_connack_props_pct = 0;
    p.tx_choices = vec![256, 512, 2048];
    p.hostile_io_pct = 0;
    let _ = r;
    p
}

/// Deterministic (PRNG-free) transport policy where every call first pends once.
fn det_policy(r: &mut Rng) -> IoPolicy {
    IoPolicy {
        write: *r.pick(&[Chunk::All, Chunk::One, Chunk::AltOneAll, Chunk::AllButOne, Chunk::Fixed(3)]),
        read: *r.pick(&[Chunk::All, Chunk::One, Chunk::Fixed(2)]),
        pend_write: Pend::Always,
        pend_flush: Pend::Always,
        pend_read: Pend::Always,
        read_chunks: vec![],
        slow_write_us: 0,
    }
}

fn final_request(r: &mut Rng, g: &mut Gen) -> Step {
    match r.below(9) {
        0 | 1 => {
            g.tag += 1;
            Step::Publish(PubSpec { topic: rand_topic(r, 8), payload: PayloadSpec::Fill { len: r.below(30), tag: 0xC13, ascii: false }, qos: 1, retain: false, props: vec![], correlate: None, cancel_at: None })
        }
        2 | 3 => Step::Publish(PubSpec { topic: rand_topic(r, 8), payload: PayloadSpec::Fill { len: r.below(30), tag: 0xC13, ascii: false }, qos: 2, retain: false, props: vec![], correlate: None, cancel_at: None }),
        4 => Step::Subscribe(g.sub_spec()),
        5 => Step::Unsubscribe(g.unsub_spec()),
        6 => Step::Poll { max_wait: 0, cancel_at: None },
        7 => r.pick(&[Step::Drive { cancel_at: None }, Step::Recv { max_wait: 0, cancel_at: None }]).clone(),
        // (a DISCONNECT with properties does not fit the inline control storage: it is parked in
        // the free part of the transmit arena)
        _ => Step::Disconnect(DiscSpec { reason: *r.pick(&[None, Some(4u8)]), props: r.pick(&[None, None, Some(vec![Prop::ReasonString("bye, see you later".into())]), Some(vec![Prop::UserProperty("why".into(), "maintenance".into())])]).clone(), cancel_at: None }),
    }
}

/// C13, all eight slots of the table of retained packets end up in use: seven requests, then an
/// eighth that is given up at one of its awaits (it may be in the session by then, with none,
/// some or all of its bytes written); the next call is a SUBSCRIBE / UNSUBSCRIBE, which is
/// refused for lack of a slot - and which, like every call, first finishes what is queued -
/// then the application disconnects. Where the eighth request had got into the session, the
/// wire carries what the uncancelled run carries.
fn given_up_then_refused(seed: u64, verbose: bool) -> CaseOut {
    let mut out = CaseOut::default();
    let mut rng = Rng::new(seed);
    let cfg = CaseCfg { rx: 128, tx: 2048, keepalive: 0, ..CaseCfg::default() };
    let policy = IoPolicy { write: *rng.pick(&[Chunk::All, Chunk::One, Chunk::Fixed(3), Chunk::AllButOne]), pend_write: Pend::Always, pend_flush: Pend::Always, ..IoPolicy::default() };
    let eighth = match rng.below(4) {
        0 => pubq(2, "eighth", 8, rng.below(6)),
        1 => Step::Subscribe(SubSpec { filters: vec![FilterSpec { filter: "eighth/#".into(), max_qos: 1, no_local: false, rap: false, rh: 0 }], props: vec![], cancel_at: None }),
        _ => pub1("eighth", 8, rng.below(6)),
    };
    let refused = if rng.chance(1, 2) { Step::Subscribe(SubSpec { filters: vec![FilterSpec { filter: "ninth/#".into(), max_qos: 0, no_local: false, rap: false, rh: 0 }], props: vec![], cancel_at: None }) } else { Step::Unsubscribe(UnsubSpec { filters: vec!["ninth".into()], props: vec![], cancel_at: None }) };
    let ending = match rng.below(3) {
        0 => Step::DropConn,
        _ => Step::Disconnect(DiscSpec { reason: None, props: None, cancel_at: None }),
    };
    let program = |cancel: Option<usize>| -> Vec<Step> {
        let mut st = vec![Step::Connect(ConnectSpec { policy: policy.clone(), faults: vec![], connack: ConnackSpec::Normal { sp: SpMode::Force(false), reason: 0, props: vec![] }, broker: BrokerPolicy { acks: AckMode::Hold, ping: AckMode::Immediate, fail_pct: 0, longform_pct: 0 }, cancel_at: None })];
        for k in 0..7 {
            st.push(if k % 3 == 2 { Step::Subscribe(SubSpec { filters: vec![FilterSpec { filter: format!("s{}", k), max_qos: 1, no_local: false, rap: false, rh: 0 }], props: vec![], cancel_at: None }) } else { pub1("seven", k as u32, 2) });
        }
        st.push(with_cancel(&eighth, cancel));
        st.push(refused.clone());
        st.push(ending.clone());
        st
    };
    let (alog, aworld) = run_script(&cfg, program(None), seed);
    let a_obs = observe(&alog, &aworld.borrow());
    let np = alog.ops.iter().find(|o| o.step == 8).map(|o| o.pendings).unwrap_or(0);
    for j in 1..=np {
        let (blog, bworld) = run_script(&cfg, program(Some(j)), seed);
        let bw = bworld.borrow();
        out.evaluations += 1;
        let Some(op8) = blog.ops.iter().find(|o| o.step == 8) else { continue };
        if op8.outcome != Outcome::Cancelled || op8.new_retained.is_empty() {
            out.count("eighth_request_not_in_the_session_when_given_up", 1);
            continue;
        }
        out.count("twins_compared", 1);
        out.count("given_up_requests_followed_by_a_refused_one", 1);
        out.nontrivial.push(hash_of(&(abstract_trace(&blog, &bw), j)));
        let refused_op = blog.ops.iter().find(|o| o.step == 9);
        if !refused_op.is_some_and(|o| matches!(o.outcome, Outcome::Err(ErrRepr::InflightExhausted | ErrRepr::NotReady))) {
            out.count("ninth_request_not_refused", 1);
        }
        let b_obs = observe(&blog, &bw);
        if let Some((what, msg)) = diff(&a_obs, &b_obs) {
            out.violations.push(viol("C13", format!("C13/full-table/{}/{}", op8.kind, what), format!("eighth request given up at await {} (it was in the session, {} bytes of it written), then a refused {}, then {:?}: {}", j, op8.out_after - op8.out_before, refused.kind(), ending.kind(), msg)));
            if verbose {
                for l in render(&blog, &bw, 400) {
                    println!("{}", l);
                }
            }
            break;
        }
    }
    out.key(format!("full-table/{}/{}", eighth.kind(), ending.kind()));
    out
}


/// C13, a keep-alive probe is due and the send buffer is full: the `poll()` / `recv()` / `drive()`
/// that should write the PINGREQ is given up, again and again, while time goes on - past the
/// next keep-alive deadline, and the one after it.  No byte of the probe (or only its first) is
/// on the wire, so nothing is unanswered and the peer does not look dead.  When the transport
/// takes bytes again the wire must carry what the run without the stall carries: one PINGREQ.
fn probe_given_up_repeatedly(seed: u64, verbose: bool) -> CaseOut {
    let mut out = CaseOut::default();
    let mut rng = Rng::new(seed);
    let ka = *rng.pick(&[1u16, 2, 4, 30, 600]);
    let cfg = CaseCfg { rx: 128, tx: 512, keepalive: ka, ..CaseCfg::default() };
    let eff = ka as u64 * 1_000_000;
    let lead = 5_000_000u64.min(eff / 2);
    let nctx = rng.below(3);
    let ctx: Vec<Step> = (0..nctx)
        .map(|k| match rng.below(3) {
            0 => pub1("probe/a", 70 + k as u32, rng.range(1, 20)),
            1 => pubq(2, "probe/b", 80 + k as u32, rng.range(1, 20)),
            _ => Step::Subscribe(SubSpec { filters: vec![FilterSpec { filter: "probe/#".into(), max_qos: 1, no_local: false, rap: false, rh: 0 }], props: vec![], cancel_at: None }),
        })
        .collect();
    let n = *rng.pick(&[1usize, 2, 3, 4, 7]);
    let after = rng.below(2);
    // time that passes after each wait that was given up: fractions and multiples of the interval
    let gaps: Vec<u64> = (0..n).map(|_| *rng.pick(&[0u64, 1, eff / 2, eff - lead, eff, eff + 1, 2 * eff, 3 * eff + 7])).collect();
    let waits: Vec<Step> = (0..n)
        .map(|_| match rng.below(4) {
            0 => Step::Recv { max_wait: 0, cancel_at: None },
            1 => Step::Drive { cancel_at: Some(1) },
            _ => poll0(),
        })
        .collect();
    let due = eff - lead + *rng.pick(&[0u64, 1, 1000]);
    let program = |stalled: bool| -> Vec<Step> {
        let mut st = vec![Step::Connect(ConnectSpec { policy: IoPolicy::default(), faults: vec![], connack: ConnackSpec::ok(SpMode::Force(false)), broker: BrokerPolicy { acks: AckMode::Hold, ping: AckMode::Immediate, fail_pct: 0, longform_pct: 0 }, cancel_at: None })];
        st.extend(ctx.iter().cloned());
        st.push(Step::Advance(due));
        if stalled {
            st.push(Step::Broker(BrokerAct::WriteGate { after, blocks: n as u8 }));
            for (w, g) in waits.iter().zip(&gaps) {
                st.push(w.clone());
                st.push(Step::Advance(*g));
            }
        }
        for _ in 0..4 {
            st.push(poll0());
        }
        st
    };
    let (alog, aworld) = run_script(&cfg, program(false), seed);
    let a_obs = observe(&alog, &aworld.borrow());
    let (blog, bworld) = run_script(&cfg, program(true), seed);
    let bw = bworld.borrow();
    out.evaluations += 1;
    let given_up = blog.ops.iter().filter(|o| matches!(o.outcome, Outcome::Cancelled | Outcome::CallerTimeout)).count();
    let pings_a = aworld.borrow().conns[0].out.packets.iter().filter(|p| p.b0 == 0xC0).count();
    if given_up == 0 || pings_a == 0 {
        out.count("probe_stall_cases_without_a_given_up_wait", 1);
        return out;
    }
    out.count("twins_compared", 1);
    out.count("probe_waits_given_up_with_the_send_buffer_full", given_up as u64);
    if gaps.iter().sum::<u64>() >= eff {
        out.count("probe_stalls_outlasting_a_further_keepalive_interval", 1);
    }
    out.key(format!("probe-stall/ka={}/n={}/after={}", ka, n, after));
    out.nontrivial.push(hash_of(&(abstract_trace(&blog, &bw), ka, n)));
    let b_obs = observe(&blog, &bw);
    if let Some((what, msg)) = diff(&a_obs, &b_obs) {
        out.violations.push(viol("C13", format!("C13/probe-given-up/{}", what), format!("keep-alive {} s, probe due, {} wait(s) given up on a full send buffer ({} byte(s) of the PINGREQ taken) with gaps {:?} us in between: {}", ka, n, after, gaps, msg)));
        if verbose {
            for l in render(&blog, &bw, 400) {
                println!("{}", l);
            }
        }
    }
    out
}

impl Check for C13 {
    fn id(&self) -> &'static str {
        "C13"
    }
    fn level(&self) -> &'static str {
        "fault_enumeration"
    }
    fn rule(&self) -> String {
        "differential twin runs: a generated prefix (no cancellation, deterministic transport that pends once before every read/write/flush and accepts 1 byte / all / all-but-one / 3 bytes per write) ends with one final request R in {publish QoS 1, publish QoS 2, subscribe, unsubscribe, poll, recv, drive, disconnect}; the reference executes R uncancelled and drains the connection; each variant drops R's future at await index j (every j the reference saw, optionally after 1 or 3 earlier cancelled attempts), keeps polling until idle, re-issues R if the snapshot says it was not enqueued, and drains. Decoded outbound packets (bytes included) of all connections and the delivered messages must equal the reference. Variants: the prefix may itself contain cancelled operations; with keep-alive on, the PINGREQ deadline falls right before the request or right after it (then the position of the PINGREQ is not compared); a queue-based request is followed by a QoS 0 publish; after a cancelled disconnect() the application polls first (weaker relation: nothing of the reference missing or reordered, same final DISCONNECT), or drops the handle and connects again (the next connection must lie between the run with the completed disconnect and the run without any), optionally after one more request on the closing handle (a refused request is on no connection's wire); one disconnect request in three is made again with another reason and other properties, and the run must then equal the reference that asked for the first DISCONNECT or a second reference that asked for the other one from the start. Workload given-up-request-then-refused-request: eight retained slots in use, the eighth request given up at each of its awaits, then a request that must be refused, then the end of the connection. Workload keepalive-probe-given-up-repeatedly: a PINGREQ is due while the send buffer is full, the wait that should write it is given up 1..7 times with up to several keep-alive intervals passing in between; afterwards the wire carries what the run without the stall carries. Workload given-up-wait-then-another-call: a wait given up in the middle of an inbound packet, then a request that is served or refused, then the rest of the packet: delivered as the uncancelled execution delivers it, i.e. exactly as the broker sent it (C04's delivery model). Where wire and deliveries agree and both runs ended idle, the send-state tables (retained, release, control: identifier and state) of both sessions agree as well. Non-trivial iff the cancellation happened (the future was really dropped while pending); distinct keys = (request kind, await kind, bytes-of-the-packet-already-written bucket).".into()
    }
    fn assumptions(&self) -> Vec<String> {
        let mut v: Vec<String> = COMMON_ASSUME.iter().map(|s| s.to_string()).collect();
        v.push("QoS 0 publishes are never the cancelled request (documented as not cancel-safe)".into());
        v.push("keep-alive 0 and immediate/held acks, so that timing cannot differ between the twins".into());
        v
    }
    fn workloads(&self) -> Vec<Workload> {
        vec![Workload { name: "cancel-twin", quick: 20_000, thorough: 3_000_000 }, Workload { name: "given-up-request-then-refused-request", quick: 300, thorough: 30_000 }, Workload { name: "keepalive-probe-given-up-repeatedly", quick: 600, thorough: 60_000 }, Workload { name: "given-up-wait-then-another-call", quick: 2000, thorough: 200_000 }]
    }
    fn min_nontrivial(&self, tier: Tier) -> usize {
        if tier == Tier::Quick { 300 } else { 3000 }
    }
    fn required_counters(&self) -> Vec<&'static str> {
        vec!["twins_compared", "cancelled_and_survived", "cancelled_and_reissued", "requests_issued_with_pingreq_due", "requests_followed_by_a_qos0_publish", "pingreq_due_right_after_the_request", "probe_stalls_outlasting_a_further_keepalive_interval"]
    }
    fn run(&self, workload: usize, seed: u64, _index: u64, tier: Tier, verbose: bool) -> CaseOut {
        if workload == 1 {
            return given_up_then_refused(seed, verbose);
        }
        if workload == 2 {
            return probe_given_up_repeatedly(seed, verbose);
        }
        if workload == 3 {
            // a wait is given up in the middle of an inbound packet and the application goes on with
            // *another* call - a request that is served or refused - before it waits again: the
            // uncancelled execution delivers exactly what the broker sent, so that is what the
            // delivery model of C04 demands here
            let mut out = CaseOut::default();
            let mut rng = Rng::new(seed);
            let (cfg, steps) = crate::scripts::refused_request_while_half_read_script(&mut rng, _index, tier);
            let (log, world) = run_script(&cfg, steps, seed);
            let w = world.borrow();
            let t = Trace::new(&log, &w);
            let mut inner = CaseOut::default();
            let nt = crate::monitors::c04::check(&t, &mut inner);
            out.evaluations += 1;
            let given_up = log.ops.iter().any(|o| matches!(o.outcome, Outcome::CallerTimeout | Outcome::Cancelled) && matches!(o.kind, "poll" | "recv" | "drive"));
            if given_up {
                out.count("waits_given_up_inside_an_inbound_packet_then_another_call", 1);
                out.nontrivial.push(hash_of(&abstract_trace(&log, &w)));
            }
            let _ = nt;
            for v in inner.violations {
                out.violations.push(viol("C13", format!("C13/given-up-wait-then-another-call/{}", v.sig.trim_start_matches("C04/")), format!("a wait was given up inside an inbound packet and another call made before the next wait: {}", v.msg)));
            }
            if verbose && !out.violations.is_empty() {
                for l in render(&log, &w, 300) {
                    println!("{}", l);
                }
            }
            return out;
        }
        let mut out = CaseOut::default();
        let mut rng = Rng::new(seed);
        let mut profile = c13_profile(&mut rng);
        let pol = det_policy(&mut rng);
        profile.hostile_io_pct = 0;
        let cfg = gen_cfg(&mut rng, &profile);
        // 1. generate the prefix adaptively (this run is only used to record the steps)
        let mut g = Gen::new(rng.next(), profile.clone());
        g.steps_left = rng.range(2, 14);
        struct ForcePolicy<'a> {
            g: &'a mut Gen,
            pol: IoPolicy,
        }
        impl Driver for ForcePolicy<'_> {
            fn next(&mut self, v: &View<'_>) -> Option<Step> {
                let mut s = self.g.next(v)?;
                if let Step::Connect(c) = &mut s {
                    c.policy = self.pol.clone();
                }
                Some(s)
            }
        }
        let (plog, pworld) = {
            let mut d = ForcePolicy { g: &mut g, pol: pol.clone() };
            run_case(&cfg, seed, &mut d, 40)
        };
        // the prefix must end with a live handle, otherwise there is nothing to cancel
        // (the very last probe is taken after the executor let go of the handle)
        let live = plog.probes.iter().rev().nth(1).is_some_and(|p| p.has_handle && p.is_connected);
        if !live {
            out.evaluations = 1;
            return out;
        }
        drop(pworld);
        let request = final_request(&mut rng, &mut g);
        let mut prefix: Vec<Step> = plog.steps.clone();
        // with keep-alive on, half of the time the PINGREQ falls due right before the request, so
        // that the cancelled call is (also) in the middle of keep-alive traffic
        // (not while a PINGREQ is unanswered: the peer would look dead by the time of the request)
        // (a PINGREQ that is queued but not written yet counts as well: the first call writes it)
        let ping_open = plog.probes.iter().rev().nth(1).and_then(|p| p.snap.as_ref()).is_some_and(|s| s.ping_timeout.is_some() || s.tx.control.iter().any(|c| c.kind == 12));
        let mut advance_after: Option<u64> = None;
        if cfg.keepalive > 0 && !ping_open && rng.chance(1, 2) {
            let eff = cfg.keepalive as u64 * 1_000_000;
            prefix.push(Step::Advance(eff - 5_000_000u64.min(eff / 2) + 1));
            out.count("requests_issued_with_pingreq_due", 1);
        } else if cfg.keepalive > 0 && !ping_open && rng.chance(1, 2) {
            // ... or right after it (a cancelled request may be in the middle of its packet then)
            let eff = cfg.keepalive as u64 * 1_000_000;
            advance_after = Some(eff - 5_000_000u64.min(eff / 2) + 1);
            out.count("pingreq_due_right_after_the_request", 1);
        }
        // one disconnect request in three is followed by "drop the handle, connect again, poll"
        // (and one poll / recv / drive request in four: a read given up in the middle of an
        // inbound packet must not reach into the next connection)
        // (and one publish / subscribe / unsubscribe request in four: what a request that was given
        // up left in the session - nothing, or the whole request - is what the next connection
        // replays, flags included)
        let reconnect_after = (matches!(request, Step::Disconnect(_)) && rng.chance(1, 3)) || (matches!(request, Step::Poll { .. } | Step::Recv { .. } | Step::Drive { .. } | Step::Publish(_) | Step::Subscribe(_) | Step::Unsubscribe(_)) && rng.chance(1, 4));
        // one queue-based request in four is followed by a QoS 0 publish
        let then_qos0 = matches!(request, Step::Publish(_) | Step::Subscribe(_) | Step::Unsubscribe(_)) && rng.chance(1, 4);
        // one request in three is followed, once everything has settled, by another request that
        // takes an identifier: what it gets must not depend on whether the first was given up
        let then_another = matches!(request, Step::Publish(_) | Step::Subscribe(_) | Step::Unsubscribe(_)) && rng.chance(1, 3);
        if then_another {
            out.count("requests_followed_by_another_identifier_bearing_request", 1);
        }
        if then_qos0 {
            out.count("requests_followed_by_a_qos0_publish", 1);
        }
        let polled_flag = std::cell::Cell::new(false);
        let ping_flag = std::cell::Cell::new(false);
        let c_connect_ok = std::cell::Cell::new(true);
        // ... and half of those issue one more request on the handle first (it is refused if the
        // DISCONNECT was parked or sent, and then must leave nothing behind)
        let other_op: Option<Step> = if reconnect_after && !matches!(request, Step::Publish(_) | Step::Subscribe(_) | Step::Unsubscribe(_)) && rng.chance(1, 2) {
            Some(match rng.below(6) {
                0 => Step::Subscribe(SubSpec { filters: vec![FilterSpec { filter: "c13/after".into(), max_qos: 1, no_local: false, rap: false, rh: 0 }], props: vec![], cancel_at: None }),
                1 => Step::Unsubscribe(UnsubSpec { filters: vec!["c13/after".into()], props: vec![], cancel_at: None }),
                2 => pubq(1 + rng.below(2) as u8, "c13/after", 0xAF, 3),
                // (after a wait that was given up: the application shuts the connection down
                // gracefully - disconnect() first finishes what the wait left half written)
                3 | 4 if !matches!(request, Step::Disconnect(_)) => Step::Disconnect(DiscSpec { reason: *rng.pick(&[None, Some(4u8)]), props: None, cancel_at: None }),
                _ => Step::Drive { cancel_at: None },
            })
        } else {
            None
        };
        // (a request that follows a cancelled disconnect() on an otherwise idle session gets
        // furthest: nothing else is queued that would stop it earlier)
        if other_op.is_some() && rng.chance(1, 2) {
            if let Some(i) = prefix.iter().position(|s| matches!(s, Step::Connect(_))) {
                prefix.truncate(i + 1);
                out.count("requests_after_a_cancelled_disconnect_on_an_idle_session", 1);
            }
        }
        let other_at = std::cell::Cell::new(None::<usize>);
        let skip_flag = std::cell::Cell::new(false);
        // one disconnect request in three is, after it was given up, made again with another
        // reason / other properties: the DISCONNECT that goes out is the one that was begun (the
        // first), or - where the first call had not got that far - the second; never a mix
        let alt: Option<Step> = match &request {
            Step::Disconnect(d) if !reconnect_after && rng.chance(1, 3) => {
                let props = match &d.props {
                    Some(p) if matches!(p.first(), Some(Prop::ReasonString(_))) => Some(vec![Prop::UserProperty("k".into(), "other words, other length".into()), Prop::ReasonString("x".into())]),
                    Some(_) => Some(vec![Prop::ReasonString("going".into())]),
                    None => Some(vec![Prop::ReasonString("a second thought".into())]),
                };
                out.count("disconnects_made_again_with_other_contents", 1);
                Some(Step::Disconnect(DiscSpec { reason: Some(if d.reason == Some(4) { 0 } else { 4 }), props, cancel_at: None }))
            }
            _ => None,
        };
        let alt_ref = std::cell::Cell::new(false);
        let run = |cancels: Vec<usize>| -> (RunLog, Shared, Vec<usize>) {
            let req = if alt_ref.get() { alt.clone().unwrap() } else { request.clone() };
            let mut d = CancelTwin { prefix: prefix.clone().into(), request: req, reissue_as: alt.clone(), cancels: cancels.into(), stage: 0, drain_left: 0, reissued: false, request_ops: vec![], poll_before_reissue: false, polled_before_reissue: false, ping_open_at_advance: false, reconnect_after, skip_request: skip_flag.get(), other_op: other_op.clone(), other_op_at: None, advance_after, tail: VecDeque::new(), then_qos0, qos0_done: false, then_another, another_done: false };
            let (log, world) = run_case(&cfg, seed, &mut d, prefix.len() + 400);
            polled_flag.set(d.polled_before_reissue);
            if d.ping_open_at_advance {
                ping_flag.set(true);
            }
            other_at.set(d.other_op_at);
            (log, world, d.request_ops)
        };
        // 2. reference
        let (alog, aworld, aops) = run(vec![]);
        let a_obs = observe(&alog, &aworld.borrow());
        let a_ping = ping_flag.replace(false);
        // 2a. second reference: the other DISCONNECT asked for from the start
        let a2_obs = if alt.is_some() {
            alt_ref.set(true);
            let (l, w, _) = run(vec![]);
            alt_ref.set(false);
            ping_flag.set(false);
            let o = observe(&l, &w.borrow());
            Some(o)
        } else {
            None
        };
        // 2b. (reconnect_after) second reference: the application drops the handle without ever
        // calling disconnect(): a disconnect() given up before it completed either took effect or
        // left no trace, and what it did before it was given up (finishing owed packets) is the
        // only thing that may distinguish the next connection from this run
        let c_obs = if reconnect_after {
            skip_flag.set(true);
            let (clog, cworld, _) = run(vec![]);
            skip_flag.set(false);
            ping_flag.set(false);
            let o = observe(&clog, &cworld.borrow());
            c_connect_ok.set(matches!(clog.ops.iter().rev().find(|o| o.kind == "connect").map(|o| &o.outcome), Some(Outcome::Ok(_))));
            Some(o)
        } else {
            None
        };
        let np = aops.first().map(|o| alog.ops[*o].pendings).unwrap_or(0);
        if np == 0 {
            out.evaluations = 1;
            return out;
        }
        // 3. variants
        let cap = if tier == Tier::Quick { 24 } else { 64 };
        let mut points: Vec<usize> = (1..=np).collect();
        if points.len() > cap {
            rng.shuffle(&mut points);
            points.truncate(cap);
        }
        let mut shown = false;
        for j in points {
            let extra = *rng.pick(&[0usize, 0, 1, 3]);
            let mut cancels: Vec<usize> = (0..extra).map(|_| 1 + rng.below(j)).collect();
            cancels.push(j);
            let (blog, bworld, bops) = run(cancels.clone());
            let bw = bworld.borrow();
            let b_obs = observe(&blog, &bw);
            out.evaluations += 1;
            // the time step behind the request is meant to make a PINGREQ fall due, not to let
            // one expire: where a PINGREQ was still unanswered at that step in either run, when
            // it went out (and so whether it expires) depends on the number of calls made
            if ping_flag.replace(false) || a_ping {
                out.count("variants_skipped_pingreq_unanswered_at_the_time_step", 1);
                continue;
            }
            out.count("twins_compared", 1);
            // classify the cancellation for coverage
            let first = &blog.ops[bops[0]];
            let really_cancelled = bops.iter().any(|o| blog.ops[*o].outcome == Outcome::Cancelled);
            let kind = first.kind;
            let last_cancel = bops.iter().rev().find(|o| blog.ops[**o].outcome == Outcome::Cancelled).map(|o| &blog.ops[*o]);
            if let Some(lc) = last_cancel {
                let await_kind = bw.events[lc.ev_call..lc.ev_ret]
                    .iter()
                    .rev()
                    .find_map(|e| match e {
                        Ev::Io { kind, ans: IoAns::Pending(_), .. } => Some(format!("{:?}", kind)),
                        _ => None,
                    })
                    .unwrap_or_else(|| "?".into());
                let written = lc.out_after - lc.out_before;
                out.key(format!("cancel/{}/{}/{}", kind, await_kind, bucket_len(written)));
                if lc.new_retained.is_empty() && matches!(kind, "publish1" | "publish2" | "subscribe" | "unsubscribe") {
                    out.count("cancelled_and_reissued", 1);
                    // "one that was not enqueued leaves no trace"
                    if let (Some(b), Some(a)) = (&lc.snap_before, &lc.snap_after) {
                        let ids = |s: &Snap| s.tx.retained.iter().map(|e| e.packet_id).collect::<Vec<_>>();
                        if ids(b) != ids(a) || b.send_quota != a.send_quota || b.tx.release.len() != a.tx.release.len() {
                            out.violations.push(viol("C13", format!("C13/not-enqueued-left-trace/{}", kind), format!("{} cancelled before it was enqueued changed session state: retained {:?}->{:?}, quota {}->{}", kind, ids(b), ids(a), b.send_quota, a.send_quota)));
                        }
                    }
                } else if matches!(kind, "publish1" | "publish2" | "subscribe" | "unsubscribe") {
                    out.count("cancelled_and_survived", 1);
                }
                for c in &cancels {
                    let _ = c;
                }
                if cancels.len() > 1 {
                    out.count("successive_cancellations", 1);
                }
            }
            let before = out.violations.len();
            if reconnect_after {
                // what the next connection carries does not depend on how far the DISCONNECT got
                out.count("reconnects_after_a_cancelled_disconnect", 1);
                // a request refused on the closing / closed handle leaves nothing behind
                if let Some(oi) = other_at.get() {
                    let o = &blog.ops[oi];
                    if matches!(o.outcome, Outcome::Err(_)) {
                        out.count("requests_refused_on_a_closing_handle", 1);
                        let marker = b"c13/after";
                        let hit = b_obs.packets.iter().enumerate().find(|(_, c)| c.iter().any(|p| p.windows(marker.len()).any(|w| w == marker)));
                        if let Some((ci, _)) = hit {
                            out.violations.push(viol("C13", "C13/disconnect/refused-request-left-trace", format!("disconnect cancelled at await {:?}, then {} returned {:?}: the refused request is nevertheless on the wire of connection {}", cancels, o.kind, o.outcome, ci)));
                        }
                    }
                }
                // the reconnect itself fares as in the uncancelled run
                let last_connect = |l: &RunLog| l.ops.iter().rev().find(|o| o.kind == "connect").map(|o| o.outcome.clone());
                // (... and as in a run in which the request was never made: a call given up early
                // may have consumed less than the completed one, e.g. not the acknowledgement
                // that frees the room the next CONNECT is encoded in)
                if matches!(last_connect(&alog), Some(Outcome::Ok(_))) && c_connect_ok.get() && !matches!(last_connect(&blog), Some(Outcome::Ok(_))) {
                    out.violations.push(viol("C13", format!("C13/{}/next-connect-fails", kind), format!("{} cancelled at await {:?}, handle dropped: the next connect() returned {:?} (uncancelled run: {:?})", kind, cancels, last_connect(&blog), last_connect(&alog))));
                }
                let (la, lb) = (a_obs.packets.last(), b_obs.packets.last());
                let lc = c_obs.as_ref().and_then(|c| c.packets.last());
                // a (disconnect completed) <= b <= c (no disconnect at all), as subsequences, and
                // the CONNECT is the same in all three
                let subseq = |x: &Vec<Vec<u8>>, y: &Vec<Vec<u8>>| {
                    let mut it = y.iter();
                    x.iter().all(|p| it.any(|q| q == p))
                };
                let ok = match (la, lb, lc) {
                    // (a read given up half-way may leave an acknowledgement owed that the next
                    // connection carries: for poll / recv / drive only the CONNECT is compared)
                    // (a request either went into the session whole or not at all)
                    // (... whole: the next connection is that of the uncancelled run; not at all:
                    // it carries what the run without the request carries, less what the call
                    // that was given up had already sent of the packets owed before it)
                    (Some(la), Some(lb), Some(lc)) if matches!(kind, "publish1" | "publish2" | "subscribe" | "unsubscribe") => {
                        let ok_conn = |l: &RunLog| matches!(last_connect(l), Some(Outcome::Ok(_)));
                        if !(ok_conn(&alog) && ok_conn(&blog) && c_connect_ok.get()) {
                            // (one of the reconnects did not succeed, e.g. for lack of room for the
                            // CONNECT next to what the session holds: judged by the rule above)
                            out.count("reconnects_not_compared_for_a_failed_connect", 1);
                            true
                        } else {
                            // the call that was given up did a part of what the completed call
                            // did: what the completed call left for the next connection, the
                            // given-up one left as well (the request itself only if it got into
                            // the session), and whatever else the next connection carries is
                            // something the session owed anyway (it is in the run without the
                            // request) - all of it bit for bit, DUP flags included
                            let enq = bops.iter().any(|o| !blog.ops[*o].new_retained.is_empty());
                            // (the request's own packet: the PUBLISH / SUBSCRIBE / UNSUBSCRIBE
                            // that carries the identifier the uncancelled call was given)
                            let req_pid = aops.first().and_then(|o| alog.ops[*o].new_retained.first().copied());
                            let own: Vec<&Vec<u8>> = la
                                .iter()
                                .filter(|p| match crate::refcodec::decode_client(p) {
                                    Ok(CPacket::Publish { pid, .. }) => pid.is_some() && pid == req_pid,
                                    Ok(CPacket::Subscribe { pid, .. }) | Ok(CPacket::Unsubscribe { pid, .. }) | Ok(CPacket::PubRel { pid, .. }) => Some(pid) == req_pid,
                                    // (a replayed SUBSCRIBE / UNSUBSCRIBE carries the flag bit of the
                                    // known C01 finding and does not decode strictly: identifier read
                                    // from behind the remaining length)
                                    Err(_) if matches!(p.first().map(|b| b >> 4), Some(8 | 10)) => {
                                        let n = p.iter().skip(1).take(4).position(|b| b & 0x80 == 0).map(|k| k + 2);
                                        n.and_then(|n| p.get(n..n + 2)).map(|b| u16::from_be_bytes([b[0], b[1]])) == req_pid
                                    }
                                    _ => false,
                                })
                                .collect();
                            let la2: Vec<Vec<u8>> = la.iter().filter(|p| enq || !own.contains(p)).cloned().collect();
                            let r = la.first() == lb.first() && subseq(&la2, lb) && lb.iter().all(|p| lc.contains(p) || la.contains(p)) && (enq || !lb.iter().any(|p| own.contains(&p)));
                            if verbose && !r {
                                println!("DEBUG enq={} own={} first={} sub={} all={} noown={}", enq, own.len(), la.first() == lb.first(), subseq(&la2, lb), lb.iter().all(|p| lc.contains(p) || la.contains(p)), !lb.iter().any(|p| own.contains(&p)));
                                for (n, l) in [("la", la), ("lb", lb), ("lc", lc)] { for p in l.iter() { println!("DEBUG {} {}", n, describe(p)); } }
                            }
                            r
                        }
                    }
                    (Some(la), Some(lb), Some(lc)) if kind != "disconnect" => la.first() == lb.first() || lb == lc,
                    (Some(la), Some(lb), Some(lc)) => la == lb || lb == lc || (la.first() == lb.first() && subseq(la, lb) && subseq(lb, lc)),
                    _ => false,
                };
                if la != lb && ok {
                    out.count("next_connection_like_the_handle_dropped_without_disconnect", 1);
                }
                // a wait was given up and the application then shut the connection down with a
                // disconnect() that returned Ok: everything in front of the DISCONNECT was written
                // and flushed, so an acknowledgement that is whole on that connection is not owed
                // any more and does not go out again on the next one (unless the uncancelled run
                // sends it there as well, i.e. the broker asked for it again)
                if matches!(kind, "poll" | "recv" | "drive") {
                    if let Some(oi) = other_at.get() {
                        let o = &blog.ops[oi];
                        if o.kind == "disconnect" && matches!(o.outcome, Outcome::Ok(_)) && b_obs.packets.len() >= 2 {
                            out.count("waits_given_up_then_graceful_disconnect_then_resumed", 1);
                            let n = b_obs.packets.len();
                            let is_ack = |p: &Vec<u8>| matches!(p.first().map(|b| b >> 4), Some(4 | 5 | 7));
                            // (the broker may have asked for the same acknowledgement twice - a repeated
                            // PUBREL, a redelivered PUBLISH -: what counts is that the two connections
                            // together carry it more often than in the uncancelled run)
                            let count = |obs: &Observed, p: &Vec<u8>| -> usize { let m = obs.packets.len(); obs.packets[m.saturating_sub(2)..].iter().map(|c| c.iter().filter(|q| *q == p).count()).sum() };
                            let again = b_obs.packets[n - 1].iter().find(|p| is_ack(p) && b_obs.packets[n - 2].contains(p) && !a_obs.packets.last().is_some_and(|l| l.contains(p)) && a_obs.packets.len() == n && count(&b_obs, p) > count(&a_obs, p));
                            if let Some(pk) = again {
                                out.violations.push(viol("C13", format!("C13/{}/acknowledgement-sent-again-after-a-graceful-disconnect", kind), format!("{} given up at await {:?}, then disconnect() returned Ok, handle dropped, connected again: {} was written whole before the DISCONNECT and goes out again on the next connection (the uncancelled run does not send it there)", kind, cancels, describe(pk))));
                            }
                        }
                    }
                }
                if a_obs.packets.len() != b_obs.packets.len() || !ok || bw.conns.last().is_some_and(|c| c.out.error.is_some()) {
                    let i = la.zip(lb).and_then(|(x, y)| x.iter().zip(y.iter()).position(|(p, q)| p != q)).unwrap_or(0);
                    out.violations.push(viol("C13", format!("C13/{}/next-connection-differs", kind), format!("request cancelled at await {:?}, handle dropped, connected again: the new connection's outbound stream differs from the uncancelled run and from a run without the request at packet {} ({} vs {} packets; uncancelled {} / cancelled {})", cancels, i, la.map(|x| x.len()).unwrap_or(0), lb.map(|x| x.len()).unwrap_or(0), la.and_then(|x| x.get(i)).map(|p| describe(p)).unwrap_or_default(), lb.and_then(|x| x.get(i)).map(|p| describe(p)).unwrap_or_default())));
                }
            } else if polled_flag.get() {
                // the application polled between the cancelled disconnect() and the next one: the
                // poll may legitimately send other owed packets (replays, acknowledgements, PINGREQ)
                // first, so only this is demanded: every stream still decodes, nothing the reference
                // sent is missing or reordered, and the connection still ends with the same DISCONNECT
                out.count("disconnects_resumed_after_a_poll", 1);
                let mut bad: Option<String> = None;
                // a publish accepted between the two disconnect() calls takes room in the transmit
                // arena: a DISCONNECT with properties, which is encoded there, may then no longer
                // fit and the second disconnect() says so. The DISCONNECT is then legitimately absent.
                let no_room = blog.ops.iter().any(|o| o.kind.starts_with("publish") && matches!(o.outcome, Outcome::Ok(_)) && bops.first().is_some_and(|f| o.ev_call > blog.ops[*f].ev_call))
                    && blog.ops.iter().rev().find(|o| o.kind == "disconnect").is_some_and(|o| o.outcome == Outcome::Err(ErrRepr::BufferTooSmall));
                // (the same holds for a second disconnect() that asks for a DISCONNECT with properties
                // where the first asked for a plain one: it is encoded in the arena, next to
                // whatever the session holds there)
                let alt_len = match &alt {
                    Some(Step::Disconnect(DiscSpec { props: Some(p), .. })) => Some(4 + p.iter().map(|x| match x { Prop::ReasonString(s) => 3 + s.len(), Prop::UserProperty(k, v) => 5 + k.len() + v.len(), _ => 0 }).sum::<usize>()),
                    _ => None,
                };
                let no_room = no_room
                    || blog.ops.iter().rev().find(|o| o.kind == "disconnect").is_some_and(|o| o.outcome == Outcome::Err(ErrRepr::BufferTooSmall) && alt_len.is_some_and(|n| o.snap_before.as_ref().is_some_and(|s| s.tx.capacity.saturating_sub(s.tx.used) < n + 5)));
                if no_room {
                    out.count("second_disconnect_refused_for_lack_of_arena_room", 1);
                }
                let judge_against = |r_obs: &Observed| -> Option<String> {
                    let mut bad: Option<String> = None;
                    for (ci, (pa, pb)) in r_obs.packets.iter().zip(&b_obs.packets).enumerate() {
                        if bw.conns[ci].out.error.is_some() {
                            bad = Some(format!("conn {}: the outbound stream no longer decodes: {:?}", ci, bw.conns[ci].out.error));
                            break;
                        }
                        let pa: Vec<Vec<u8>> = if no_room { pa.iter().filter(|p| p.first() != Some(&0xE0)).cloned().collect() } else { pa.clone() };
                        // (with the keep-alive deadline falling behind the request the PINGREQ's place
                        // among the other packets depends on how many calls were made: not compared)
                        let pa: Vec<Vec<u8>> = if advance_after.is_some() { pa.into_iter().filter(|p| p.first() != Some(&0xC0)).collect() } else { pa };
                        let pa = &pa;
                        let alt_last = a2_obs.as_ref().and_then(|o| o.packets.get(ci)).and_then(|c| c.last()).filter(|x| x.first() == Some(&0xE0));
                        let mut it = pb.iter();
                        if let Some(miss) = pa.iter().find(|x| !it.any(|y| y == *x || (x.first() == Some(&0xE0) && Some(y) == alt_last))) {
                            bad = Some(format!("conn {}: {} of the uncancelled run is missing or out of order", ci, describe(miss)));
                            break;
                        }
                        if pa.last().is_some_and(|x| x.first() == Some(&0xE0)) && pb.last() != pa.last() && !(alt_last.is_some() && pb.last() == alt_last) {
                            bad = Some(format!("conn {}: does not end with the DISCONNECT of the uncancelled run", ci));
                            break;
                        }
                    }
                    bad
                };
                // (made again with other contents: the first request may have been one the
                // connection survives - refused for lack of room - and the second one not, or the
                // other way round: like the run that asked for the first from the start, or like
                // the run that asked for the second)
                bad = judge_against(&a_obs);
                if bad.is_some() {
                    if let Some(a2) = &a2_obs {
                        if judge_against(a2).is_none() {
                            out.count("polled_then_second_disconnect_went_as_asked", 1);
                            bad = None;
                        }
                    }
                }
                if let Some(msg) = bad {
                    out.violations.push(viol("C13", "C13/disconnect/poll-after-cancelled-disconnect", format!("request disconnect cancelled at await {:?}, then poll(), then disconnect(): {}", cancels, msg)));
                }
            } else if let Some((what, msg)) = {
                // with the keep-alive deadline falling right behind the request, a PINGREQ goes out
                // before a queued packet of which no byte has been written yet, and after one
                // that is in progress: its position is not compared, everything else is
                let strip = |o: &Observed| if advance_after.is_some() { Observed { packets: o.packets.iter().map(|c| c.iter().filter(|p| p.first() != Some(&0xC0)).cloned().collect()).collect(), dangling: o.dangling.clone(), delivered: o.delivered.clone() } } else { Observed { packets: o.packets.clone(), dangling: o.dangling.clone(), delivered: o.delivered.clone() } };
                let d = diff(&strip(&a_obs), &strip(&b_obs));
                // (made again with other contents: like the run that asked for the first DISCONNECT
                // or like the run that asked for the second)
                match (&d, &a2_obs) {
                    (Some(_), Some(a2)) if diff(&strip(a2), &strip(&b_obs)).is_none() => {
                        out.count("second_disconnect_went_out_as_asked", 1);
                        None
                    }
                    _ => d,
                }
            } {
                let partial = bops.iter().any(|o| blog.ops[*o].outcome == Outcome::Cancelled && blog.ops[*o].out_after > blog.ops[*o].out_before);
                let sig = if kind == "disconnect" {
                    format!("C13/disconnect/{}", if partial { "cancelled-after-bytes-written" } else { what.as_str() })
                } else {
                    format!("C13/{}/{}", kind, what)
                };
                out.violations.push(viol("C13", sig, format!("request {} cancelled at await {:?}: {}", kind, cancels, msg)));
            } else if kind != "disconnect" {
                // same wire, same deliveries: then both sessions also stand at the same point once
                // they went idle - nothing is left half-sent or queued in one of them only
                let idle_end = |l: &RunLog| {
                    let last = l.ops.last()?;
                    if !(last.kind == "poll" && last.outcome == Outcome::CallerTimeout) {
                        return None;
                    }
                    let sn = last.snap_after.as_ref()?;
                    Some((
                        sn.tx.retained.iter().map(|e| (e.packet_id, format!("{:?}", e.state))).collect::<Vec<_>>(),
                        sn.tx.release.iter().map(|e| (e.packet_id, format!("{:?}", e.state))).collect::<Vec<_>>(),
                        sn.tx.control.iter().map(|e| (e.kind, e.packet_id, format!("{:?}", e.state))).collect::<Vec<_>>(),
                    ))
                };
                if let (Some(ea), Some(eb)) = (idle_end(&alog), idle_end(&blog)) {
                    out.count("idle_end_states_compared", 1);
                    if ea != eb {
                        out.violations.push(viol("C13", format!("C13/{}/idle-end-state-differs", kind), format!("request {} cancelled at await {:?}: same packets and deliveries, but once idle the uncancelled run holds retained {:?} release {:?} control {:?} and the cancelled one retained {:?} release {:?} control {:?}", kind, cancels, ea.0, ea.1, ea.2, eb.0, eb.1, eb.2)));
                    }
                }
            }
            if really_cancelled {
                out.nontrivial.push(hash_of(&(abstract_trace(&blog, &bw), j)));
                if out.sample.is_none() {
                    out.sample = Some(serde_json::json!({"request": format!("{:?}", request), "cancel_points": cancels, "reference_awaits": np, "prefix_steps": prefix.len(), "variant": sample_of(&blog, &bw)}));
                }
            }
            for p in &blog.probes {
                if let Some(s) = &p.snap {
                    out.states.push(abstract_state(s));
                }
            }
            if verbose && !shown && out.violations.len() > before {
                shown = true;
                println!("=== reference run");
                for l in render(&alog, &aworld.borrow(), 4000) {
                    println!("{}", l);
                }
                println!("=== variant run, cancel points {:?}", cancels);
                for l in render(&blog, &bw, 4000) {
                    println!("{}", l);
                }
            }
        }
        out.states.sort_unstable();
        out.states.dedup();
        out
    }
}

// -------------------------------------------------------------------------------------------
// C15

/// Replays recorded steps with every Connect's transport policy replaced.
struct Refragment {
    steps: VecDeque<Step>,
    /// per connection ordinal: policy to use
    policy: IoPolicy,
    /// explicit read chunk list for the n-th connection
    chunks: Option<(usize, Vec<usize>)>,
    conns: usize,
}

impl Driver for Refragment {
    fn next(&mut self, _v: &View<'_>) -> Option<Step> {
        let mut s = self.steps.pop_front()?;
        if let Step::Connect(c) = &mut s {
            c.policy = self.policy.clone();
            if let Some((n, ch)) = &self.chunks {
                if *n == self.conns {
                    c.policy.read_chunks = ch.clone();
                }
            }
            self.conns += 1;
        }
        Some(s)
    }
}

/// Replays recorded steps while the network delivers the broker's bytes in pieces separated by
/// pauses: a stall (gate) is set before steps, and a poll()/recv() that the caller gave up on
/// while the stream was stalled is issued again (those extra calls are not compared).
struct Gapped {
    steps: VecDeque<Step>,
    rng: Rng,
    queued: VecDeque<Step>,
    /// the step to repeat if it times out on a stalled stream
    last: Option<Step>,
    retries: usize,
    ping_retries: usize,
    /// indices (into log.ops) of calls that timed out on a stalled stream
    pub noise: Vec<usize>,
    pub gates: usize,
    gate_pct: u32,
    /// keep-alive mode: every stall outlasts the client's own deadline, and a poll() that only
    /// reported keep-alive progress while the stream was stalled is repeated as well
    own_deadline: bool,
}

impl Driver for Gapped {
    fn next(&mut self, v: &View<'_>) -> Option<Step> {
        if let Some(s) = self.queued.pop_front() {
            return Some(s);
        }
        // did the previous call give up on a stalled stream?
        if let (Some(last), Some(op)) = (&self.last, v.log.ops.last()) {
            let waited = matches!(last, Step::Poll { .. } | Step::Recv { .. });
            let stalled = v.world.events[op.ev_call..].iter().any(|e| matches!(e, Ev::GateHit { .. }));
            let gave_up = op.outcome == Outcome::CallerTimeout || (self.own_deadline && op.outcome == Outcome::Ok(OkKind::None));
            if waited && stalled && gave_up && self.retries < 100 {
                self.retries += 1;
                self.noise.push(v.log.ops.len() - 1);
                return Some(last.clone());
            }
            // keep-alive mode: a poll() whose only progress was keep-alive traffic is repeated, so
            // that the n-th recorded poll handles the same broker packet whatever the ping schedule
            if self.own_deadline && waited && op.outcome == Outcome::Ok(OkKind::None) && self.ping_retries < 6 {
                let w = v.world;
                let mut ping = false;
                let mut other = false;
                for e in &w.events[op.ev_call..] {
                    match e {
                        Ev::CPkt { conn, idx } => {
                            if matches!(w.conns[*conn].out.packets[*idx].pkt, CPacket::PingReq) { ping = true } else { other = true }
                        }
                        Ev::Consumed { conn, idx } => {
                            if matches!(w.conns[*conn].in_pkts[*idx].pkt, Some(crate::refcodec::SPacket::PingResp)) { ping = true } else { other = true }
                        }
                        Ev::Delivered { .. } => other = true,
                        _ => {}
                    }
                }
                if ping && !other {
                    self.ping_retries += 1;
                    self.noise.push(v.log.ops.len() - 1);
                    return Some(last.clone());
                }
            }
        }
        self.retries = 0;
        self.ping_retries = 0;
        let s = self.steps.pop_front()?;
        self.last = Some(s.clone());
        let mut gateable = v.has_handle && v.is_connected && !matches!(s, Step::Connect(_) | Step::DropConn | Step::ForgetConn | Step::IntoInner | Step::Broker(BrokerAct::Gate { .. }));
        if self.own_deadline {
            // a stall that outlasts the PINGRESP deadline is a dead peer, not fragmentation:
            // stall only right before the broker sends something and while no ping is outstanding
            gateable = gateable && v.snap.ping_timeout.is_none() && matches!(s, Step::Broker(BrokerAct::Send(_)));
        }
        if gateable && self.rng.chance(self.gate_pct, 100) {
            self.gates += 1;
            self.queued.push_back(s);
            let after = *self.rng.pick(&[0usize, 1, 2, 3, 4, 5, 7, 9, 12, 20]);
            let blocks = if self.own_deadline { 2 } else { 1 + self.rng.below(2) as u8 };
            return Some(Step::Broker(BrokerAct::Gate { after, blocks }));
        }
        Some(s)
    }
}

pub struct C15;

fn c15_profile(r: &mut Rng) -> Profile {
    let mut p = c13_profile(r);
    p.name = "fragment-twin";
    p.cancel_pct = 0;
    p.keepalive_choices = vec![0];
    p.w_advance = 0;
    p.w_bpublish = 16;
    p.w_bpubrel = 2;
    p.w_disconnect = 1;
    p.w_sub = 4;
    p.w_unsub = 3;
    p.fail_pcts = vec![0, 20];
    p.w_release = 10;
    p.w_bclose = 1;
    p.w_bdisc = 1;
    p.props_pct = 40;
    p
}

#[derive(PartialEq, Debug)]
struct Results(Vec<(&'static str, Outcome)>);

/// C15, outbound packets longer than 64 KiB under write patterns that pass through every
/// "bytes still to go" value, in particular exact multiples of 65536.
fn big_outbound(rng: &mut Rng, seed: u64, verbose: bool) -> CaseOut {
    let mut out = CaseOut::default();
    let cfg = CaseCfg { rx: 128, tx: 300_000, keepalive: 0, ..CaseCfg::default() };
    let len = *rng.pick(&[65_600usize, 66_010, 70_000, 131_200, 196_700]);
    let qos = 1 + rng.below(2) as u8;
    let request = Step::Publish(PubSpec { topic: "big".into(), payload: PayloadSpec::Fill { len, tag: 0xB16, ascii: false }, qos, retain: false, props: vec![], correlate: None, cancel_at: None });
    let second = pub1("after", 5, 3);
    let total = len + 2 + 3 + 2 + 1 + 4; // roughly: the first write of the odd pattern leaves a multiple of 65536
    let odd = (total % 65_536).max(1);
    let mut reference: Option<Vec<u8>> = None;
    for ch in [Chunk::All, Chunk::Fixed(odd), Chunk::Fixed(odd + 1), Chunk::One, Chunk::Fixed(65_536), Chunk::AllButOne] {
        let steps = vec![
            Step::Connect(ConnectSpec { policy: IoPolicy { write: ch, ..IoPolicy::default() }, faults: vec![], connack: ConnackSpec::ok(SpMode::Force(false)), broker: BrokerPolicy { acks: AckMode::Hold, ping: AckMode::Immediate, fail_pct: 0, longform_pct: 0 }, cancel_at: None }),
            request.clone(),
            second.clone(),
            poll0(),
        ];
        let (log, world) = run_script(&cfg, steps, seed);
        let w = world.borrow();
        out.evaluations += 1;
        out.count("twins_compared", 1);
        out.count("outbound_packets_above_64k", 1);
        out.nontrivial.push(hash_of(&(len, qos, format!("{:?}", ch))));
        let bytes = w.conns[0].out.bytes.clone();
        match &reference {
            None => reference = Some(bytes),
            Some(rb) => {
                if *rb != bytes || w.conns[0].out.error.is_some() {
                    let at = rb.iter().zip(&bytes).position(|(a, b)| a != b).unwrap_or(rb.len().min(bytes.len()));
                    out.violations.push(viol("C15", "C15/large-packet/stream-depends-on-write-pieces", format!("QoS {} publish of {} payload bytes followed by a small one: with writes accepted {:?} the outbound stream differs from whole-buffer writes at byte {} ({} vs {} bytes, results {:?})", qos, len, ch, at, bytes.len(), rb.len(), log.ops.iter().map(|o| format!("{}:{:?}", o.kind, o.outcome)).collect::<Vec<_>>())));
                    if verbose {
                        println!("(history of {} events not printed)", w.events.len());
                    }
                    break;
                }
            }
        }
    }
    out.key(format!("large-outbound/{}", len / 65_536));
    out
}

/// C15, the connection ends when the transport has accepted only the first k bytes of a request's
/// packet (the caller gives up there and drops the handle); the same Session resumes on a new
/// transport. What the new connection carries must not depend on k.
fn ends_inside_outbound(rng: &mut Rng, seed: u64, verbose: bool) -> CaseOut {
    let mut out = CaseOut::default();
    let cfg = CaseCfg { rx: 128, tx: 512, keepalive: 0, ..CaseCfg::default() };
    let request = match rng.below(6) {
        0 => pub1("w", 1, rng.below(20)),
        1 => pubq(2, "w2", 2, rng.below(20)),
        2 => Step::Subscribe(SubSpec { filters: vec![FilterSpec { filter: "w/#".into(), max_qos: 1, no_local: false, rap: false, rh: 0 }], props: vec![], cancel_at: None }),
        3 => Step::Unsubscribe(UnsubSpec { filters: vec!["w".into(), "x/y".into()], props: vec![], cancel_at: None }),
        // the request given up inside its own packet is the DISCONNECT itself: held in the inline
        // control storage (reason only) or parked in the arena (with properties)
        4 => Step::Disconnect(DiscSpec { reason: Some(*rng.pick(&[4u8, 0x98])), props: None, cancel_at: None }),
        _ => Step::Disconnect(DiscSpec { reason: *rng.pick(&[None, Some(4u8)]), props: Some(vec![Prop::ReasonString("closing for the night".into())]), cancel_at: None }),
    };
    // an earlier, fully sent and unacknowledged request in front of it (or not)
    let earlier = rng.chance(1, 2);
    let len = {
        let mut st = vec![connect_with(SpMode::Force(false), AckMode::Hold, vec![])];
        if earlier {
            st.push(pub1("e", 7, 3));
        }
        st.push(request.clone());
        let (_l, w) = run_script(&cfg, st, seed);
        let w = w.borrow();
        w.conns[0].out.packets.last().map(|p| p.end - p.start).unwrap_or(0)
    };
    if len < 3 {
        return out;
    }
    let mut ks: Vec<usize> = (1..len).collect();
    rng.shuffle(&mut ks);
    ks.truncate(6);
    ks.insert(0, 0);
    let mut reference: Option<Vec<u8>> = None;
    for k in ks {
        let mut steps = vec![connect_with(SpMode::Force(false), AckMode::Hold, vec![])];
        if earlier {
            steps.push(pub1("e", 7, 3));
        }
        steps.push(Step::Broker(BrokerAct::WriteGate { after: k, blocks: 1 }));
        steps.push(request.clone());
        steps.push(Step::DropConn);
        steps.push(connect_with(SpMode::Force(true), AckMode::Hold, vec![]));
        for _ in 0..3 {
            steps.push(poll0());
        }
        let (log, world) = run_script(&cfg, steps, seed);
        let w = world.borrow();
        out.evaluations += 1;
        out.count("twins_compared", 1);
        let given_up = log.ops.iter().any(|o| o.outcome == Outcome::CallerTimeout && o.out_after - o.out_before == k && o.conn == Some(0));
        if !given_up || w.conns.len() < 2 {
            continue;
        }
        out.count("connections_ended_inside_an_outbound_packet", 1);
        out.nontrivial.push(hash_of(&(request.kind(), k.min(8), earlier)));
        let bytes = w.conns[1].out.bytes.clone();
        match &reference {
            None => reference = Some(bytes),
            Some(rb) => {
                if *rb != bytes || w.conns[1].out.error.is_some() {
                    let at = rb.iter().zip(&bytes).position(|(a, b)| a != b).unwrap_or(rb.len().min(bytes.len()));
                    out.violations.push(viol("C15", "C15/outbound-cut-point-dependence", format!("{} given up after {} of {} bytes, handle dropped, session resumed: the new connection's outbound stream differs at byte {} from the one after 0 bytes ({} vs {} bytes: {:02x?} / {:02x?})", request.kind(), k, len, at, bytes.len(), rb.len(), &bytes[at.min(bytes.len())..bytes.len().min(at + 8)], &rb[at.min(rb.len())..rb.len().min(at + 8)])));
                    if verbose {
                        for l in render(&log, &w, 300) {
                            println!("{}", l);
                        }
                    }
                    break;
                }
            }
        }
    }
    out.key(format!("ends-inside-outbound/{}/{}", request.kind(), if earlier { "behind-another" } else { "alone" }));
    out
}

/// C15, the transport's send buffer fills up after k bytes of a request's packet (the caller gives
/// the request up there) and whatever the application does next finds a transport that accepts
/// the rest whole, byte by byte, or in other pieces: the outbound stream must be the same.
fn send_buffer_full(rng: &mut Rng, seed: u64, verbose: bool) -> CaseOut {
    let mut out = CaseOut::default();
    let cfg = CaseCfg { rx: 128, tx: 512, keepalive: 0, ..CaseCfg::default() };
    let request = match rng.below(6) {
        0 => pub1("w", 1, rng.below(20)),
        1 => pubq(2, "w2", 2, rng.below(20)),
        2 => Step::Subscribe(SubSpec { filters: vec![FilterSpec { filter: "w/#".into(), max_qos: 1, no_local: false, rap: false, rh: 0 }], props: vec![], cancel_at: None }),
        3 => Step::Unsubscribe(UnsubSpec { filters: vec!["w".into(), "x/y".into()], props: vec![], cancel_at: None }),
        // the request given up inside its own packet is the DISCONNECT itself: held in the inline
        // control storage (reason only) or parked in the arena (with properties)
        4 => Step::Disconnect(DiscSpec { reason: Some(*rng.pick(&[4u8, 0x98])), props: None, cancel_at: None }),
        _ => Step::Disconnect(DiscSpec { reason: *rng.pick(&[None, Some(4u8)]), props: Some(vec![Prop::ReasonString("closing for the night".into())]), cancel_at: None }),
    };
    let next = match rng.below(8) {
        0 | 1 => Step::Disconnect(DiscSpec { reason: *rng.pick(&[None, Some(4u8)]), props: None, cancel_at: None }),
        2 => poll0(),
        3 => Step::Publish(PubSpec { topic: "z".into(), payload: PayloadSpec::Fill { len: 3, tag: 9, ascii: false }, qos: 0, retain: false, props: vec![], correlate: None, cancel_at: None }),
        4 => Step::Subscribe(SubSpec { filters: vec![FilterSpec { filter: "n/+".into(), max_qos: 2, no_local: false, rap: false, rh: 0 }], props: vec![], cancel_at: None }),
        5 => Step::Unsubscribe(UnsubSpec { filters: vec!["n/+".into()], props: vec![], cancel_at: None }),
        6 => pubq(2, "n2", 4, 2),
        _ => pub1("n", 3, 2),
    };
    // the next request finds the send buffer full once more, somewhere in the rest of the packet it
    // has to finish first, is given up there as well and made again (variants other than the
    // first): nothing of a request that was given up before it got into the session may show
    let restall = matches!(&next, Step::Publish(p) if p.qos > 0) || matches!(next, Step::Subscribe(_) | Step::Unsubscribe(_));
    // length of the request's packet
    let len = {
        let (_l, w) = run_script(&cfg, vec![connect_with(SpMode::Force(false), AckMode::Hold, vec![]), request.clone()], seed);
        let w = w.borrow();
        w.conns[0].out.packets.get(1).map(|p| p.end - p.start).unwrap_or(0)
    };
    if len < 3 {
        return out;
    }
    let k = 1 + rng.below(len - 1);
    let k2 = rng.below(len - k);
    let chunks = [Chunk::All, Chunk::One, Chunk::Fixed(2), Chunk::Fixed(3), Chunk::AltOneAll, Chunk::AllButOne];
    let mut reference: Option<(Vec<u8>, Vec<String>)> = None;
    // the stream of the run in which the send buffer never fills up and every write is taken whole
    let unstalled: Vec<u8> = {
        let (_l, w) = run_script(&cfg, vec![connect_with(SpMode::Force(false), AckMode::Hold, vec![]), request.clone(), next.clone(), poll0(), poll0()], seed);
        let w = w.borrow();
        w.conns[0].out.bytes.clone()
    };
    for (vi, ch) in chunks.iter().enumerate() {
        let again = restall && vi % 2 == 1;
        let mut steps = vec![
            connect_with(SpMode::Force(false), AckMode::Hold, vec![]),
            Step::Broker(BrokerAct::WriteGate { after: k, blocks: 1 }),
            request.clone(),
            // from here on the transport accepts writes in this variant's pieces
            Step::Io { policy: Some(IoPolicy { write: *ch, ..IoPolicy::default() }), faults: vec![] },
        ];
        if again {
            steps.push(Step::Broker(BrokerAct::WriteGate { after: k2, blocks: 1 }));
            steps.push(next.clone());
        }
        steps.extend([next.clone(), poll0(), poll0()]);
        let (log, world) = run_script(&cfg, steps, seed);
        let w = world.borrow();
        out.evaluations += 1;
        out.count("twins_compared", 1);
        if again {
            // (the call that was given up is not part of the comparison; where the buffer did
            // not fill up a second time - the request before it had not been stuck - this
            // variant is not compared at all)
            let given_up = log.ops.get(2).is_some_and(|o| o.outcome == Outcome::CallerTimeout && o.new_retained.is_empty());
            if !given_up {
                continue;
            }
            out.count("requests_given_up_in_their_leading_flush_and_made_again", 1);
        }
        let stuck = log.ops.get(1).is_some_and(|o| o.outcome == Outcome::CallerTimeout && o.out_after - o.out_before == k);
        if stuck {
            out.count("requests_given_up_inside_their_packet", 1);
            if vi > 0 {
                out.count("variants_with_split_packets", 1);
                out.nontrivial.push(hash_of(&(abstract_trace(&log, &w), vi, k)));
            }
        }
        let bytes = w.conns[0].out.bytes.clone();
        // (whatever the pieces: what is on the wire is whole packets, apart from a tail that a
        // given-up request may still owe)
        if let Some((off, why)) = &w.conns[0].out.error {
            out.violations.push(viol("C15", "C15/send-buffer-full/stream-not-decodable", format!("request given up after {} of {} bytes, then {} with writes accepted {:?}: the outbound stream does not decode at offset {}: {}", k, len, next.kind(), ch, off, why)));
            break;
        }
        // ... and, the request having been in the session when it was given up, the same stream as
        // without any stall
        if stuck && log.ops.get(1).is_some_and(|o| !o.new_retained.is_empty() || o.kind == "disconnect") && bytes != unstalled {
            let at = unstalled.iter().zip(&bytes).position(|(a, b)| a != b).unwrap_or(unstalled.len().min(bytes.len()));
            out.violations.push(viol("C15", "C15/send-buffer-full/stream-differs-from-the-unstalled-run", format!("{} given up after {} of {} bytes, then {} with writes accepted {:?}: the outbound stream differs from the run without a stall at byte {} ({} vs {} bytes): {:02x?} vs {:02x?}", request.kind(), k, len, next.kind(), ch, at, bytes.len(), unstalled.len(), &bytes[at.min(bytes.len())..bytes.len().min(at + 12)], &unstalled[at.min(unstalled.len())..unstalled.len().min(at + 12)])));
            if verbose {
                for l in render(&log, &w, 300) {
                    println!("{}", l);
                }
            }
            break;
        }
        if stuck {
            out.count("stalled_runs_compared_with_the_unstalled_run", 1);
        }
        let results: Vec<String> = log.ops.iter().enumerate().filter(|(i, _)| !(again && *i == 2)).map(|(_, o)| format!("{}:{:?}", o.kind, o.outcome)).collect();
        match &reference {
            None => reference = Some((bytes, results)),
            Some((rb, rr)) => {
                if *rb != bytes || *rr != results {
                    let at = rb.iter().zip(&bytes).position(|(a, b)| a != b).unwrap_or(rb.len().min(bytes.len()));
                    out.violations.push(viol("C15", "C15/send-buffer-full/stream-depends-on-write-pieces", format!("request given up after {} of {} bytes, then {}: with writes accepted {:?} the outbound stream / results differ from whole-buffer writes at byte {} ({} vs {} bytes; results {:?} vs {:?})", k, len, next.kind(), ch, at, bytes.len(), rb.len(), results, rr)));
                    if verbose {
                        for l in render(&log, &w, 300) {
                            println!("{}", l);
                        }
                    }
                    break;
                }
            }
        }
    }
    out.key(format!("send-buffer-full/{}/then-{}", request.kind(), next.kind()));
    out
}

/// C15, a transport that - once, or from some point on for good - accepts nothing (`Ok(0)` for a
/// non-empty buffer), under every write pattern and at every offset of the outbound stream: the
/// call that was given that answer reports it (WriteZero) wherever in a packet it fell, no call
/// spins, and after a single such answer the later calls finish what was begun: the stream ends up
/// the same as without it.
fn accepts_nothing(rng: &mut Rng, seed: u64, verbose: bool) -> CaseOut {
    let mut out = CaseOut::default();
    let cfg = CaseCfg { rx: 128, tx: 1024, keepalive: 0, ..CaseCfg::default() };
    let mut reqs: Vec<Step> = Vec::new();
    for k in 0..rng.range(2, 4) {
        reqs.push(match rng.below(4) {
            0 => pub1("zero", 1 + k as u32, rng.below(30)),
            1 => pubq(2, "zero2", 10 + k as u32, rng.below(30)),
            2 => Step::Subscribe(SubSpec { filters: vec![FilterSpec { filter: "zero/#".into(), max_qos: 1, no_local: false, rap: false, rh: 0 }], props: vec![], cancel_at: None }),
            _ => Step::Unsubscribe(UnsubSpec { filters: vec!["zero".into(), "x/y".into()], props: vec![], cancel_at: None }),
        });
    }
    let ch = *rng.pick(&[Chunk::All, Chunk::One, Chunk::Fixed(2), Chunk::Fixed(3), Chunk::AltOneAll, Chunk::AllButOne]);
    let build = |faults: Vec<FaultPlan>| {
        let mut s = vec![connect_with(SpMode::Force(false), AckMode::Hold, vec![]), Step::Io { policy: Some(IoPolicy { write: ch, ..IoPolicy::default() }), faults }];
        s.extend(reqs.iter().cloned());
        for _ in 0..4 {
            s.push(poll0());
        }
        s
    };
    let (alog, aworld) = run_script(&cfg, build(vec![]), seed);
    let (a_bytes, connect_len) = {
        let w = aworld.borrow();
        (w.conns[0].out.bytes.clone(), w.conns[0].out.packets.first().map(|p| p.end).unwrap_or(0))
    };
    let _ = alog;
    if a_bytes.len() <= connect_len + 2 {
        return out;
    }
    let n = connect_len + rng.below(a_bytes.len() - connect_len);
    for forever in [false, true] {
        let faults = vec![FaultPlan { at: FaultAt::OutBytes(n), kind: FaultKind::WriteZero }; if forever { 6000 } else { 1 }];
        let (log, world) = run_script(&cfg, build(faults), seed);
        let w = world.borrow();
        out.evaluations += 1;
        out.count("twins_compared", 1);
        let bytes = &w.conns[0].out.bytes;
        let mut hit = false;
        for o in log.ops.iter().filter(|o| o.conn == Some(0) && o.kind != "connect") {
            let zero = w.events[o.ev_call..=o.ev_ret.min(w.events.len() - 1)].iter().any(|e| matches!(e, Ev::Io { kind: crate::world::IoKind::Write, req, ans: IoAns::Zero, .. } if *req > 0));
            if w.events[o.ev_call..=o.ev_ret.min(w.events.len() - 1)].iter().any(|e| matches!(e, Ev::Watchdog | Ev::ClockSpin)) {
                out.violations.push(viol("C15", "C15/accepts-nothing/call-does-not-return", format!("writes accepted {:?}, transport accepts nothing from stream offset {} on ({}): {} exceeded the per-call budget of transport calls instead of reporting it", ch, n, if forever { "for good" } else { "once" }, o.kind)));
                return out;
            }
            if zero {
                hit = true;
                if o.outcome != Outcome::Err(ErrRepr::WriteZero) {
                    let inside = !w.conns[0].out.packets.iter().any(|p| p.start == n) || n != bytes.len();
                    out.violations.push(viol("C15", "C15/accepts-nothing/not-reported", format!("writes accepted {:?}: a write at stream offset {} ({} a packet) was answered Ok(0) and {} returned {:?} instead of WriteZero", ch, bytes.len().min(n.max(connect_len)), if inside { "inside" } else { "at the start of" }, o.kind, o.outcome)));
                    if verbose {
                        for l in render(&log, &w, 300) {
                            println!("{}", l);
                        }
                    }
                    return out;
                }
            }
        }
        if hit {
            out.count("writes_answered_with_nothing_accepted", 1);
            let mid = !aworld.borrow().conns[0].out.packets.iter().any(|p| p.start == bytes.len().min(a_bytes.len())) || !forever;
            if mid {
                out.count("variants_with_split_packets", 1);
            }
            out.nontrivial.push(hash_of(&(abstract_trace(&log, &w), forever, n - connect_len)));
        }
        if forever {
            if !a_bytes.starts_with(bytes) {
                out.violations.push(viol("C15", "C15/accepts-nothing/stream-differs", format!("writes accepted {:?}, nothing accepted from offset {} on: the {} bytes that did go out are not a prefix of the stream without the fault", ch, n, bytes.len())));
            }
        } else if *bytes != a_bytes {
            let at = a_bytes.iter().zip(bytes.iter()).position(|(a, b)| a != b).unwrap_or(a_bytes.len().min(bytes.len()));
            out.violations.push(viol("C15", "C15/accepts-nothing/stream-differs-after-one-refusal", format!("writes accepted {:?}, one write at offset {} answered Ok(0), the application carried on: the outbound stream differs from the one without that answer at byte {} ({} vs {} bytes)", ch, n, at, bytes.len(), a_bytes.len())));
            if verbose {
                for l in render(&log, &w, 300) {
                    println!("{}", l);
                }
            }
        }
    }
    out.key(format!("accepts-nothing/{:?}", ch));
    out
}

/// C15, a packet that meets the broker's Maximum Packet Size exactly (or misses it by a byte or
/// two) is accepted by the transport in pieces of every kind: results and stream as with whole
/// writes. The packet is a request's own, or (limit 5) an acknowledgement the client owes.
fn at_the_limit(rng: &mut Rng, seed: u64, verbose: bool) -> CaseOut {
    use crate::refcodec::{Prop, SPacket};
    let mut out = CaseOut::default();
    let cfg = CaseCfg { rx: 128, tx: 512, keepalive: 0, ..CaseCfg::default() };
    let owed_ack = rng.chance(1, 4);
    let request = match rng.below(4) {
        0 => pub1("lim", 1, rng.below(40)),
        1 => pubq(2, "lim2", 2, rng.below(40)),
        2 => Step::Subscribe(SubSpec { filters: vec![FilterSpec { filter: "lim/#".into(), max_qos: 1, no_local: false, rap: false, rh: 0 }], props: vec![], cancel_at: None }),
        _ => Step::Unsubscribe(UnsubSpec { filters: vec!["lim".into(), "x/y".into()], props: vec![], cancel_at: None }),
    };
    let len = if owed_ack {
        5
    } else {
        let (_l, w) = run_script(&cfg, vec![connect_with(SpMode::Force(false), AckMode::Hold, vec![]), request.clone()], seed);
        let w = w.borrow();
        w.conns[0].out.packets.get(1).map(|p| p.end - p.start).unwrap_or(0)
    };
    if len < 3 {
        return out;
    }
    let limit = (len + *rng.pick(&[0usize, 0, 1, 2])) as u32;
    let chunks = [Chunk::All, Chunk::One, Chunk::Fixed(2), Chunk::Fixed(3), Chunk::AltOneAll, Chunk::AllButOne];
    let mut reference: Option<(Vec<u8>, Vec<String>)> = None;
    for (vi, ch) in chunks.iter().enumerate() {
        let mut steps = vec![Step::Connect(ConnectSpec { policy: IoPolicy { write: *ch, ..IoPolicy::default() }, faults: vec![], connack: ConnackSpec::Normal { sp: SpMode::Force(false), reason: 0, props: vec![Prop::MaximumPacketSize(limit)] }, broker: BrokerPolicy { acks: AckMode::Hold, ping: AckMode::Immediate, fail_pct: 0, longform_pct: 0 }, cancel_at: None })];
        if owed_ack {
            steps.push(Step::Broker(BrokerAct::Send(SPacket::Publish { dup: false, qos: 1, retain: false, topic: "i".into(), pid: Some(9), props: vec![], payload: vec![] })));
        } else {
            steps.push(request.clone());
        }
        for _ in 0..4 {
            steps.push(poll0());
        }
        let (log, world) = run_script(&cfg, steps, seed);
        let w = world.borrow();
        out.evaluations += 1;
        out.count("twins_compared", 1);
        if vi > 0 {
            out.count("packets_at_the_limit_in_pieces", 1);
            out.nontrivial.push(hash_of(&(abstract_trace(&log, &w), vi, len, limit)));
        }
        let bytes = w.conns[0].out.bytes.clone();
        let results: Vec<String> = log.ops.iter().map(|o| format!("{}:{:?}", o.kind, o.outcome)).collect();
        match &reference {
            None => reference = Some((bytes, results)),
            Some((rb, rr)) => {
                if *rb != bytes || *rr != results {
                    let ri = rr.iter().zip(&results).position(|(a, b)| a != b);
                    out.violations.push(viol("C15", "C15/at-the-limit/stream-depends-on-write-pieces", format!("packet of {} bytes under Maximum Packet Size {}: with writes accepted {:?} the outbound stream / results differ from whole writes ({} vs {} bytes; first differing result {:?} vs {:?})", len, limit, ch, bytes.len(), rb.len(), ri.map(|i| &results[i]), ri.map(|i| &rr[i]))));
                    if verbose {
                        for l in render(&log, &w, 300) {
                            println!("{}", l);
                        }
                    }
                    break;
                }
            }
        }
    }
    out.key(format!("at-the-limit/{}/{}", if owed_ack { "ack" } else { request.kind() }, limit as usize - len));
    out
}

/// C15, the transport's send buffer fills up inside an acknowledgement the client owes (PUBACK,
/// PUBREC, PUBCOMP): it accepts the first k bytes, for every k short of the whole packet, and
/// then nothing more; the application gives the call up, lets go of the handle and connects
/// again (resumed). The acknowledgement did not reach the broker in any of the runs, so what the
/// next connection carries must not depend on k.
fn stalled_ack(rng: &mut Rng, seed: u64, verbose: bool) -> CaseOut {
    use crate::refcodec::SPacket;
    let mut out = CaseOut::default();
    let cfg = CaseCfg { rx: 128, tx: 512, keepalive: 0, ..CaseCfg::default() };
    let pid = *rng.pick(&[1u16, 9, 65535]);
    let which = rng.below(3);
    let release = match rng.below(3) {
        0 => Step::DropConn,
        1 => Step::ForgetConn,
        _ => Step::IntoInner,
    };
    let held = rng.below(2);
    let mut prefix = vec![connect_with(SpMode::Force(false), AckMode::Hold, vec![])];
    for k in 0..held {
        prefix.push(pubq(1, "held", k as u32, 3));
    }
    if which == 2 {
        // a QoS 2 exchange as far as PUBREC sent; the PUBCOMP is what gets stuck
        prefix.push(Step::Broker(BrokerAct::Send(SPacket::Publish { dup: false, qos: 2, retain: false, topic: "in".into(), pid: Some(pid), props: vec![], payload: vec![1] })));
        prefix.push(poll0());
        prefix.push(poll0());
    }
    let inbound = match which {
        0 => SPacket::Publish { dup: false, qos: 1, retain: false, topic: "in".into(), pid: Some(pid), props: vec![], payload: vec![1] },
        1 => SPacket::Publish { dup: false, qos: 2, retain: false, topic: "in".into(), pid: Some(pid), props: vec![], payload: vec![1] },
        _ => SPacket::PubRel { pid, reason: None, props: None },
    };
    let len = 4usize;
    let mut reference: Option<(usize, Vec<u8>, Vec<String>)> = None;
    for k in 0..len {
        let mut steps = prefix.clone();
        steps.push(Step::Broker(BrokerAct::WriteGate { after: k, blocks: 1 }));
        steps.push(Step::Broker(BrokerAct::Send(inbound.clone())));
        steps.push(poll0());
        steps.push(poll0());
        steps.push(release.clone());
        let from = steps.len();
        steps.push(connect_with(SpMode::Force(true), AckMode::Hold, vec![]));
        for _ in 0..4 {
            steps.push(poll0());
        }
        steps.push(pub1("last", 8, 1));
        steps.push(poll0());
        let (log, world) = run_script(&cfg, steps, seed);
        let w = world.borrow();
        out.evaluations += 1;
        out.count("twins_compared", 1);
        let stuck = w.conns[0].out.dangling() > 0 || k == 0;
        if stuck {
            out.count("acknowledgements_stuck_on_a_full_send_buffer", 1);
            out.nontrivial.push(hash_of(&(abstract_trace(&log, &w), k, which)));
        }
        let Some(c1) = w.conns.get(1) else { continue };
        let bytes = c1.out.bytes.clone();
        let results: Vec<String> = log.ops.iter().filter(|o| o.step >= from).map(|o| format!("{}:{:?}", o.kind, o.outcome)).collect();
        match &reference {
            None => reference = Some((k, bytes, results)),
            Some((rk, rb, rr)) => {
                if *rb != bytes || *rr != results {
                    let at = rb.iter().zip(&bytes).position(|(a, b)| a != b).unwrap_or(rb.len().min(bytes.len()));
                    out.violations.push(viol("C15", "C15/stalled-acknowledgement/next-connection-depends-on-accepted-bytes", format!("owed acknowledgement for {:?}: with {} bytes accepted before the stall the next connection differs from the run with {} bytes accepted (streams differ at offset {}, {} vs {} bytes)", inbound.type_name(), k, rk, at, bytes.len(), rb.len())));
                    if verbose {
                        for l in render(&log, &w, 300) {
                            println!("{}", l);
                        }
                    }
                    break;
                }
            }
        }
    }
    out.key(format!("stalled-ack/{}/held{}", which, held));
    out
}

/// C15, the transport's send buffer is full when the application disconnects: it accepts the
/// first k bytes of the DISCONNECT (every k from none to all of it) and then nothing more; the
/// application gives the call up, lets go of the handle and connects again. What the next
/// connection carries, and what the calls on it return, must not depend on k.
fn stalled_disconnect(rng: &mut Rng, seed: u64, verbose: bool) -> CaseOut {
    use crate::refcodec::Prop;
    let mut out = CaseOut::default();
    let cfg = CaseCfg { rx: 128, tx: 512, keepalive: 0, ..CaseCfg::default() };
    let disc = Step::Disconnect(DiscSpec { reason: *rng.pick(&[None, Some(0u8), Some(4)]), props: rng.pick(&[None, None, Some(vec![Prop::ReasonString("closing down".into())])]).clone(), cancel_at: None });
    let held = rng.below(3);
    let release = match rng.below(3) {
        0 => Step::DropConn,
        1 => Step::ForgetConn,
        _ => Step::IntoInner,
    };
    let resumed = rng.chance(3, 4);
    let next = match rng.below(3) {
        0 => pub1("n", 7, 2),
        1 => poll0(),
        _ => Step::Subscribe(SubSpec { filters: vec![FilterSpec { filter: "n/#".into(), max_qos: 1, no_local: false, rap: false, rh: 0 }], props: vec![], cancel_at: None }),
    };
    let mut prefix = vec![connect_with(SpMode::Force(false), AckMode::Hold, vec![])];
    for k in 0..held {
        prefix.push(pubq(1 + (k % 2) as u8, "held", k as u32, 3));
    }
    // length of the DISCONNECT
    let len = {
        let mut st = prefix.clone();
        st.push(disc.clone());
        let (_l, w) = run_script(&cfg, st, seed);
        let w = w.borrow();
        w.conns[0].out.packets.last().map(|p| p.end - p.start).unwrap_or(0)
    };
    if len < 2 {
        return out;
    }
    let mut reference: Option<(usize, Vec<u8>, Vec<String>)> = None;
    for k in (0..=len).rev() {
        let mut steps = prefix.clone();
        steps.push(Step::Broker(BrokerAct::WriteGate { after: k, blocks: 1 }));
        steps.push(disc.clone());
        steps.push(release.clone());
        let from = steps.len();
        steps.push(connect_with(SpMode::Force(resumed), AckMode::Hold, vec![]));
        steps.push(next.clone());
        steps.push(poll0());
        steps.push(poll0());
        steps.push(pub1("last", 8, 1));
        steps.push(poll0());
        let (log, world) = run_script(&cfg, steps, seed);
        let w = world.borrow();
        out.evaluations += 1;
        out.count("twins_compared", 1);
        let d = log.ops.iter().find(|o| o.kind == "disconnect");
        if d.is_some_and(|o| o.outcome == Outcome::CallerTimeout) {
            out.count("disconnects_given_up_on_a_full_send_buffer", 1);
            out.nontrivial.push(hash_of(&(abstract_trace(&log, &w), k, len)));
        }
        let Some(c1) = w.conns.get(1) else { continue };
        let bytes = c1.out.bytes.clone();
        let results: Vec<String> = log.ops.iter().filter(|o| o.step >= from).map(|o| format!("{}:{:?}", o.kind, o.outcome)).collect();
        match &reference {
            None => reference = Some((k, bytes, results)),
            Some((rk, rb, rr)) => {
                if *rb != bytes || *rr != results {
                    let at = rb.iter().zip(&bytes).position(|(a, b)| a != b).unwrap_or(rb.len().min(bytes.len()));
                    let ri = rr.iter().zip(&results).position(|(a, b)| a != b);
                    out.violations.push(viol("C15", "C15/stalled-disconnect/next-connection-depends-on-accepted-bytes", format!("DISCONNECT of {} bytes: with {} bytes accepted before the stall the next connection differs from the run with {} bytes accepted (streams differ at offset {}, {} vs {} bytes; first differing result {:?} vs {:?})", len, k, rk, at, bytes.len(), rb.len(), ri.map(|i| &results[i]), ri.map(|i| &rr[i]))));
                    if verbose {
                        for l in render(&log, &w, 300) {
                            println!("{}", l);
                        }
                    }
                    break;
                }
            }
        }
    }
    out.key(format!("stalled-disconnect/held{}/{}", held, if resumed { "resumed" } else { "fresh" }));
    out
}

/// C15, the connection ends while only the first k bytes of a packet have arrived, for every k:
/// what the next connection of the session does must not depend on k (in none of the runs the
/// packet was received, so the session is in the same state).
fn cut_inside_packet(rng: &mut Rng, seed: u64, verbose: bool) -> CaseOut {
    use crate::refcodec::SPacket;
    let mut out = CaseOut::default();
    let cfg = CaseCfg { rx: 128, tx: 512, keepalive: 0, ..CaseCfg::default() };
    let qos = rng.below(3) as u8;
    let pkt = match rng.below(4) {
        0 => SPacket::PingResp,
        1 => SPacket::PubAck { pid: 9, reason: Some(0), props: None },
        _ => SPacket::Publish { dup: false, qos, retain: false, topic: rand_topic(rng, 6), pid: (qos > 0).then_some(5), props: if rng.chance(1, 2) { vec![crate::refcodec::Prop::PayloadFormat(0)] } else { vec![] }, payload: { let n = rng.below(12); rng.bytes(n) } },
    };
    let len = crate::refcodec::encode_server(&pkt).len();
    let ends = *rng.pick(&[0u8, 1, 2]);
    let mut sigs: Vec<(usize, String)> = Vec::new();
    for k in 1..len {
        let mut steps = vec![connect_with(SpMode::Force(false), AckMode::Immediate, vec![]), pub1("held", 1, 3), Step::Broker(BrokerAct::Gate { after: k, blocks: 250 }), Step::Broker(BrokerAct::Send(pkt.clone())), poll0()];
        steps.push(match ends {
            0 => Step::DropConn,
            1 => Step::Io { policy: None, faults: vec![FaultPlan { at: FaultAt::Read(0), kind: FaultKind::Eof }] },
            _ => Step::Io { policy: None, faults: vec![FaultPlan { at: FaultAt::Read(0), kind: FaultKind::Error(ErrKind::ConnectionReset) }] },
        });
        if ends != 0 {
            steps.push(poll0());
            steps.push(Step::DropConn);
        }
        let from = steps.len();
        steps.push(connect_with(SpMode::Force(true), AckMode::Immediate, vec![]));
        steps.push(pub1("next", 2, 2));
        steps.push(poll0());
        steps.push(poll0());
        let (log, world) = run_script(&cfg, steps, seed);
        let w = world.borrow();
        out.evaluations += 1;
        out.count("cut_points", 1);
        let results: Vec<String> = log.ops.iter().filter(|o| o.step >= from).map(|o| format!("{}:{:?}", o.kind, o.outcome)).collect();
        let packets: Vec<String> = w.conns.get(1).map(|c| c.out.packets.iter().map(|p| format!("{:?}", p.pkt)).collect()).unwrap_or_default();
        let hit = w.events.iter().any(|e| matches!(e, Ev::GateHit { .. }));
        if hit {
            out.count("connections_cut_inside_a_packet", 1);
            out.nontrivial.push(hash_of(&(abstract_trace(&log, &w), k, len)));
        }
        let sig = format!("{:?} / {:?}", results, packets);
        if let Some((k0, first)) = sigs.first() {
            if *first != sig {
                out.violations.push(viol("C15", "C15/cut-point-dependence", format!("the connection ended after {} of {} bytes of {}: the next connection differs from the run cut after {} bytes: {} vs {}", k, len, trunc(&format!("{:?}", pkt), 60), k0, trunc(&sig, 300), trunc(first, 300))));
                if verbose {
                    for l in render(&log, &w, 400) {
                        println!("{}", l);
                    }
                }
                break;
            }
        }
        sigs.push((k, sig));
    }
    out.key(format!("cut/{}/ends-{}", match pkt { SPacket::PingResp => "pingresp", SPacket::PubAck { .. } => "puback", _ => "publish" }, ends));
    out
}

/// C15, keep-alive on: the inbound stream stalls inside packets for longer than the client's own
/// keep-alive deadline, so the client itself abandons the read, sends PINGREQ and resumes.
/// Compared with the run without stalls: delivered messages, results of all requests, and the
/// outbound packets other than PINGREQ (the ping schedule legitimately depends on time).
fn keepalive_stalls(rng: &mut Rng, seed: u64, verbose: bool) -> CaseOut {
    let mut out = CaseOut::default();
    let mut profile = c15_profile(rng);
    let ka = *rng.pick(&[1u16, 2, 10]);
    profile.poll_waits = vec![ka as u64 * 2_000_000];
    profile.w_bclose = 0;
    profile.w_bdisc = 0;
    profile.w_drop = 0;
    profile.max_conns = 1;
    profile.w_bpublish = 24;
    profile.w_poll = 20;
    profile.w_recv = 0;
    let cfg = {
        let mut c = gen_cfg(rng, &profile);
        c.keepalive = ka;
        c
    };
    let mut g = Gen::new(rng.next(), profile.clone());
    g.steps_left = rng.range(6, 30);
    struct Whole<'a>(&'a mut Gen);
    impl Driver for Whole<'_> {
        fn next(&mut self, v: &View<'_>) -> Option<Step> {
            let mut s = self.0.next(v)?;
            if let Step::Connect(c) = &mut s {
                c.policy = IoPolicy::default();
            }
            Some(s)
        }
    }
    let (plog, _w) = run_case(&cfg, seed, &mut Whole(&mut g), 60);
    let mut steps = plog.steps.clone();
    for _ in 0..12 {
        steps.push(Step::Poll { max_wait: 0, cancel_at: None });
    }
    let (alog, aworld) = {
        let mut d = Gapped { steps: steps.clone().into(), rng: Rng::new(1), queued: VecDeque::new(), last: None, retries: 0, ping_retries: 0, noise: vec![], gates: 0, gate_pct: 0, own_deadline: true };
        run_case(&cfg, seed, &mut d, steps.len() * 8 + 64)
    };
    let summarize = |log: &RunLog, w: &World| {
        let requests: Vec<(&'static str, Outcome)> = log.ops.iter().filter(|o| !matches!(o.kind, "poll" | "recv" | "drive")).map(|o| (o.kind, o.outcome.clone())).collect();
        let packets: Vec<Vec<Vec<u8>>> = w.conns.iter().map(|c| c.out.packets.iter().filter(|p| !matches!(p.pkt, CPacket::PingReq)).map(|p| c.out.bytes[p.start..p.end].to_vec()).collect()).collect();
        let delivered: Vec<MsgRec> = log.msgs.iter().map(|m| MsgRec { op: 0, ..m.clone() }).collect();
        let errors: Vec<Outcome> = log.ops.iter().filter(|o| matches!(o.outcome, Outcome::Err(_))).map(|o| o.outcome.clone()).collect();
        (requests, packets, delivered, errors)
    };
    let a = summarize(&alog, &aworld.borrow());
    for k in 0..3 {
        let mut d = Gapped { steps: steps.clone().into(), rng: Rng::new(rng.next()), queued: VecDeque::new(), last: None, retries: 0, ping_retries: 0, noise: vec![], gates: 0, gate_pct: 50, own_deadline: true };
        // every other variant also writes through a slow transport: partial writes with a pause
        // between the pieces that outlasts the keep-alive send interval
        let slow = k % 2 == 1;
        let wpolicy = IoPolicy { write: *rng.pick(&[Chunk::One, Chunk::Fixed(3), Chunk::AltOneAll, Chunk::AllButOne]), slow_write_us: (ka as u64 * 600_000).min(2_000_000), ..IoPolicy::default() };
        struct SlowWrites<'a>(&'a mut Gapped, Option<IoPolicy>);
        impl Driver for SlowWrites<'_> {
            fn next(&mut self, v: &View<'_>) -> Option<Step> {
                let mut s = self.0.next(v)?;
                if let (Step::Connect(c), Some(p)) = (&mut s, &self.1) {
                    c.policy = p.clone();
                }
                Some(s)
            }
        }
        // (the other variants split writes as well, without pauses)
        let wpolicy = if slow { wpolicy } else { IoPolicy { slow_write_us: 0, ..wpolicy } };
        let (blog, bworld) = run_case(&cfg, seed, &mut SlowWrites(&mut d, Some(wpolicy)), steps.len() * 60 + 64);
        let bw = bworld.borrow();
        let b = summarize(&blog, &bw);
        out.evaluations += 1;
        // a stall that began while a PINGREQ was unanswered makes the peer look dead: not comparable
        let mut outstanding = 0i32;
        let mut dead_peer_stall = false;
        for e in &bw.events {
            match e {
                Ev::CPkt { conn, idx } if matches!(bw.conns[*conn].out.packets[*idx].pkt, CPacket::PingReq) => outstanding += 1,
                Ev::Consumed { conn, idx } if matches!(bw.conns[*conn].in_pkts[*idx].pkt, Some(crate::refcodec::SPacket::PingResp)) => outstanding -= 1,
                Ev::GateHit { .. } if outstanding > 0 => dead_peer_stall = true,
                // (a pause of the slow transport while a PINGREQ is unanswered counts the same)
                Ev::Time { from, to } if outstanding > 0 && to > from && slow => dead_peer_stall = true,
                _ => {}
            }
        }
        // however the PINGREQ's two bytes are accepted, it goes out once: the unfragmented run
        // never shows a PINGREQ while another one is unanswered (PINGREQs are otherwise left out
        // of the comparison because their schedule depends on time)
        {
            let mut open = 0i32;
            for e in &bw.events {
                match e {
                    Ev::CPkt { conn, idx } if matches!(bw.conns[*conn].out.packets[*idx].pkt, CPacket::PingReq) => {
                        if open > 0 {
                            out.violations.push(viol("C15", "C15/keepalive-stall/pingreq-repeated-while-unanswered", format!("variant {} (writes {:?}): a second PINGREQ was written on conn {} while the first was unanswered", k, bw.conns[*conn].policy.write, conn)));
                            break;
                        }
                        open += 1;
                    }
                    Ev::Consumed { conn, idx } if matches!(bw.conns[*conn].in_pkts[*idx].pkt, Some(crate::refcodec::SPacket::PingResp)) => open = (open - 1).max(0),
                    Ev::ConnBegin { .. } => open = 0,
                    _ => {}
                }
            }
        }
        if dead_peer_stall {
            out.count("variants_skipped_stall_while_ping_unanswered", 1);
            continue;
        }
        out.count("twins_compared", 1);
        let before = out.violations.len();
        if a.0 != b.0 {
            let i = a.0.iter().zip(&b.0).position(|(x, y)| x != y).unwrap_or(a.0.len().min(b.0.len()));
            out.violations.push(viol("C15", format!("C15/keepalive-stall/result-differs/{}", a.0.get(i).map(|x| x.0).unwrap_or("?")), format!("variant {}: request #{} returned {:?}, without stalls {:?}", k, i, b.0.get(i), a.0.get(i))));
        } else if a.2 != b.2 {
            out.violations.push(viol("C15", "C15/keepalive-stall/deliveries-differ", format!("variant {}: {} messages delivered, {} without stalls (first difference at #{})", k, b.2.len(), a.2.len(), a.2.iter().zip(&b.2).position(|(x, y)| x != y).unwrap_or(a.2.len().min(b.2.len())))));
        } else if a.1 != b.1 {
            out.violations.push(viol("C15", "C15/keepalive-stall/packets-differ", format!("variant {}: outbound packets other than PINGREQ differ from the run without stalls", k)));
        } else if a.3 != b.3 {
            out.violations.push(viol("C15", "C15/keepalive-stall/errors-differ", format!("variant {}: errors {:?}, without stalls {:?}", k, b.3, a.3)));
        }
        let dropped_by_client = bw.events.windows(2).filter(|w| matches!(w[0], Ev::GateHit { .. })).count();
        let inside = bw.events.iter().filter(|e| matches!(e, Ev::GateHit { conn, offset } if bw.conns[*conn].in_pkts.iter().any(|p| p.start < *offset && *offset < p.end))).count();
        let pings = bw.conns.iter().map(|c| c.out.packets.iter().filter(|p| matches!(p.pkt, CPacket::PingReq)).count()).sum::<usize>();
        if slow {
            let waits = bw.events.iter().filter(|e| matches!(e, Ev::SlowWrite { .. })).count();
            out.count("slow_partial_writes", waits as u64);
        }
        out.count("stalls_hit", dropped_by_client as u64);
        out.count("stalls_inside_a_packet", inside as u64);
        out.count("pingreqs_sent_during_stalled_runs", pings as u64);
        if inside > 0 && pings > 0 {
            out.count("variants_with_split_packets", 1);
            out.count("keepalive_stall_variants", 1);
            out.nontrivial.push(hash_of(&(abstract_trace(&blog, &bw), k, inside)));
        }
        out.key(format!("policy/keepalive-{}-stalls", ka));
        if verbose && out.violations.len() > before {
            println!("=== run without stalls");
            for l in render(&alog, &aworld.borrow(), 3000) {
                println!("{}", l);
            }
            println!("=== variant {}", k);
            for l in render(&blog, &bw, 3000) {
                println!("{}", l);
            }
        }
    }
    out
}

impl Check for C15 {
    fn id(&self) -> &'static str {
        "C15"
    }
    fn level(&self) -> &'static str {
        "exploration"
    }
    fn rule(&self) -> String {
        "differential twin runs: a generated program (benign faults only: broker DISCONNECT / close) is recorded with whole-buffer reads and writes and re-executed, step for step, under (a) every one of the 2^(n-1) chunkings of the first connection's inbound stream when it is at most 12 bytes long, sampled chunkings (1 byte, 2 bytes, random, splits after byte 1 and inside the length) otherwise, and (b) write acceptance patterns {1 byte, random, alternating 1/all, all-but-one, 3 bytes}, each with and without a Pending before every call. Operation results, delivered messages and the outbound byte stream of every connection must equal the reference. (b') workload send-buffer-full-inside-a-packet: a request (QoS 1/2 publish, SUBSCRIBE, UNSUBSCRIBE, disconnect() with a reason, disconnect_with() with properties) is given up inside its own packet on a full send buffer, the next call (disconnect, poll, QoS 0/1/2 publish, subscribe, unsubscribe) finishes it under six write patterns - and, every other pattern, finds the buffer full a second time while doing so, is given up as well and made again: stream and results as with whole writes and no second stall. (c) time-gapped delivery: the same program with the inbound stream stalling 0..20 bytes into whatever the broker sends next (inside packets), the abandoned poll()/recv() repeated; (d) workload stalls-under-keepalive: keep-alive 1/2/10 s and stalls that outlast the client's own deadline, so that the library itself abandons a read in the middle of a packet, sends PINGREQ and resumes: delivered messages, results of all requests, errors and outbound packets other than PINGREQ must equal the run without stalls. Non-trivial iff the variant split at least one packet; distinct = distinct abstract traces x policy.".into()
    }
    fn assumptions(&self) -> Vec<String> {
        let mut v: Vec<String> = COMMON_ASSUME.iter().map(|s| s.to_string()).collect();
        v.push("the reference broker reacts to completed client packets only, so its answers are identical across variants by construction".into());
        v.push("fragment-twin and exhaustive-chunkings: keep-alive 0, no operation is cancelled, no caller time-outs other than on an idle connection or on a stalled stream (the call is then repeated and the repetition is not compared)".into());
        v.push("stalls-under-keepalive: the ping schedule legitimately depends on time, so PINGREQ packets and the results of poll() calls are not compared; variants in which a stall began while a PINGREQ was unanswered are skipped (the peer then looks dead, which is C10's subject)".into());
        v
    }
    fn workloads(&self) -> Vec<Workload> {
        vec![Workload { name: "fragment-twin", quick: 900, thorough: 600_000 }, Workload { name: "exhaustive-chunkings", quick: 60, thorough: 6000 }, Workload { name: "stalls-under-keepalive", quick: 400, thorough: 600_000 }, Workload { name: "connection-cut-inside-a-packet", quick: 150, thorough: 30_000 }, Workload { name: "send-buffer-full-inside-a-packet", quick: 300, thorough: 60_000 }, Workload { name: "connection-ends-inside-an-outbound-packet", quick: 200, thorough: 40_000 }, Workload { name: "outbound-packets-above-64k", quick: 12, thorough: 600 }, Workload { name: "stalled-disconnect-then-reconnect", quick: 200, thorough: 40_000 }, Workload { name: "stalled-acknowledgement-then-reconnect", quick: 200, thorough: 40_000 }, Workload { name: "packet-at-the-broker-limit-in-pieces", quick: 200, thorough: 40_000 }, Workload { name: "transport-accepts-nothing", quick: 400, thorough: 80_000 }]
    }
    fn min_nontrivial(&self, tier: Tier) -> usize {
        if tier == Tier::Quick { 300 } else { 3000 }
    }
    fn required_counters(&self) -> Vec<&'static str> {
        vec!["twins_compared", "chunkings_enumerated_exhaustively", "variants_with_split_packets", "stalls_inside_a_packet", "calls_repeated_after_a_stall", "keepalive_stall_variants", "slow_partial_writes", "connections_cut_inside_a_packet", "requests_given_up_inside_their_packet", "connections_ended_inside_an_outbound_packet", "outbound_packets_above_64k", "disconnects_given_up_on_a_full_send_buffer", "acknowledgements_stuck_on_a_full_send_buffer", "packets_at_the_limit_in_pieces", "writes_answered_with_nothing_accepted"]
    }
    fn exhaustive(&self) -> bool {
        true
    }
    fn run(&self, workload: usize, seed: u64, _index: u64, tier: Tier, verbose: bool) -> CaseOut {
        let mut out = CaseOut::default();
        let mut rng = Rng::new(seed);
        if workload == 2 {
            return keepalive_stalls(&mut rng, seed, verbose);
        }
        if workload == 3 {
            return cut_inside_packet(&mut rng, seed, verbose);
        }
        if workload == 4 {
            return send_buffer_full(&mut rng, seed, verbose);
        }
        if workload == 5 {
            return ends_inside_outbound(&mut rng, seed, verbose);
        }
        if workload == 6 {
            return big_outbound(&mut rng, seed, verbose);
        }
        if workload == 7 {
            return stalled_disconnect(&mut rng, seed, verbose);
        }
        if workload == 8 {
            return stalled_ack(&mut rng, seed, verbose);
        }
        if workload == 9 {
            return at_the_limit(&mut rng, seed, verbose);
        }
        if workload == 10 {
            return accepts_nothing(&mut rng, seed, verbose);
        }
        let profile = c15_profile(&mut rng);
        let cfg = {
            let mut c = gen_cfg(&mut rng, &profile);
            c.keepalive = 0;
            c
        };
        let (steps, short_stream): (Vec<Step>, bool) = if workload == 1 {
            // tiny scripted program whose inbound stream is short enough to enumerate all chunkings
            use crate::refcodec::SPacket;
            let mut s = vec![connect_with(SpMode::Force(false), AckMode::Immediate, vec![])];
            match rng.below(3) {
                0 => {
                    s.push(pub1("a", 1, 0));
                    s.push(poll0());
                }
                1 => {
                    s.push(Step::Broker(BrokerAct::Send(SPacket::Publish { dup: false, qos: 1, retain: false, topic: "a".into(), pid: Some(1), props: vec![], payload: vec![7] })));
                    s.push(poll0());
                    s.push(poll0());
                }
                _ => {
                    s.push(Step::Broker(BrokerAct::Send(SPacket::PingResp)));
                    s.push(Step::Broker(BrokerAct::Send(SPacket::Publish { dup: false, qos: 0, retain: false, topic: "b".into(), pid: None, props: vec![], payload: vec![] })));
                    s.push(poll0());
                    s.push(poll0());
                }
            }
            s.push(poll0());
            (s, true)
        } else {
            let mut g = Gen::new(rng.next(), profile.clone());
            g.steps_left = rng.range(4, 30);
            struct Whole<'a>(&'a mut Gen);
            impl Driver for Whole<'_> {
                fn next(&mut self, v: &View<'_>) -> Option<Step> {
                    let mut s = self.0.next(v)?;
                    if let Step::Connect(c) = &mut s {
                        c.policy = IoPolicy::default();
                    }
                    Some(s)
                }
            }
            let (plog, _w) = {
                let mut d = Whole(&mut g);
                run_case(&cfg, seed, &mut d, 60)
            };
            (plog.steps.clone(), false)
        };
        let exec = |policy: IoPolicy, chunks: Option<(usize, Vec<usize>)>| {
            let mut d = Refragment { steps: steps.clone().into(), policy, chunks, conns: 0 };
            run_case(&cfg, seed, &mut d, steps.len() + 4)
        };
        let (alog, aworld) = exec(IoPolicy::default(), None);
        let a_obs = observe(&alog, &aworld.borrow());
        let a_res: Vec<(&'static str, Outcome)> = alog.ops.iter().map(|o| (o.kind, o.outcome.clone())).collect();
        let a_streams: Vec<Vec<u8>> = aworld.borrow().conns.iter().map(|c| c.out.bytes.clone()).collect();
        // variants
        let mut variants: Vec<(IoPolicy, Option<(usize, Vec<usize>)>, String)> = Vec::new();
        if short_stream {
            let n = aworld.borrow().conns.first().map(|c| c.in_enq).unwrap_or(0);
            if n >= 2 && n <= 14 {
                for mask in 0u32..(1 << (n - 1)) {
                    let mut ch = Vec::new();
                    let mut run_len = 1;
                    for i in 0..n - 1 {
                        if mask & (1 << i) != 0 {
                            ch.push(run_len);
                            run_len = 1;
                        } else {
                            run_len += 1;
                        }
                    }
                    ch.push(run_len);
                    variants.push((IoPolicy::default(), Some((0, ch)), format!("chunking-{:#x}", mask)));
                }
                out.count("chunkings_enumerated_exhaustively", 1 << (n - 1));
                out.count("exhaustive_stream_bytes", n as u64);
            }
        } else {
            let writes = [Chunk::One, Chunk::Rand, Chunk::AltOneAll, Chunk::AllButOne, Chunk::Fixed(3)];
            let reads = [Chunk::One, Chunk::Fixed(2), Chunk::Rand, Chunk::AltOneAll, Chunk::All];
            let n = if tier == Tier::Quick { 6 } else { 12 };
            for _ in 0..n {
                let pend = *rng.pick(&[Pend::Never, Pend::Always, Pend::Pct(30)]);
                let p = IoPolicy { write: *rng.pick(&writes), read: *rng.pick(&reads), pend_write: pend, pend_flush: pend, pend_read: pend, read_chunks: vec![], slow_write_us: 0 };
                let name = format!("w{:?}-r{:?}-p{:?}", p.write, p.read, pend);
                variants.push((p, None, name));
            }
            // splits right after the first byte and inside the remaining length of the first packets
            variants.push((IoPolicy::default(), Some((0, vec![1, 1, 1, 1, 1, 2, 1])), "split-in-header".into()));
        }
        // time-gapped delivery: the same stream arrives in pieces with pauses in between
        if !short_stream {
            let n = if tier == Tier::Quick { 3 } else { 6 };
            for k in 0..n {
                let p = IoPolicy { write: Chunk::All, read: *rng.pick(&[Chunk::All, Chunk::One, Chunk::Rand]), pend_write: Pend::Never, pend_flush: Pend::Never, pend_read: Pend::Never, read_chunks: vec![], slow_write_us: 0 };
                variants.push((p, None, format!("gapped-{}", k)));
            }
        }
        let mut shown = false;
        for (policy, chunks, name) in variants {
            let gapped = name.starts_with("gapped");
            let (blog, bworld, noise) = if gapped {
                let mut d = Gapped { steps: steps.clone().into(), rng: Rng::new(rng.next()), queued: VecDeque::new(), last: None, retries: 0, ping_retries: 0, noise: vec![], gates: 0, gate_pct: 60, own_deadline: false };
                struct WithPolicy<'a>(&'a mut Gapped, IoPolicy);
                impl Driver for WithPolicy<'_> {
                    fn next(&mut self, v: &View<'_>) -> Option<Step> {
                        let mut s = self.0.next(v)?;
                        if let Step::Connect(c) = &mut s {
                            c.policy = self.1.clone();
                        }
                        Some(s)
                    }
                }
                let (l, w) = run_case(&cfg, seed, &mut WithPolicy(&mut d, policy), steps.len() * 60 + 64);
                (l, w, d.noise)
            } else {
                let (l, w) = exec(policy, chunks);
                (l, w, vec![])
            };
            let bw = bworld.borrow();
            out.evaluations += 1;
            out.count("twins_compared", 1);
            let b_obs = observe(&blog, &bw);
            let b_res: Vec<(&'static str, Outcome)> = blog.ops.iter().enumerate().filter(|(i, _)| !noise.contains(i)).map(|(_, o)| (o.kind, o.outcome.clone())).collect();
            if gapped {
                let hits = bw.events.iter().filter(|e| matches!(e, Ev::GateHit { .. })).count();
                // a stall inside a packet: the reader had taken part of it when it ran dry
                let inside = bw.events.iter().filter(|e| matches!(e, Ev::GateHit { conn, offset } if bw.conns[*conn].in_pkts.iter().any(|p| p.start < *offset && *offset < p.end))).count();
                out.count("stalls_hit", hits as u64);
                out.count("stalls_inside_a_packet", inside as u64);
                out.count("calls_repeated_after_a_stall", noise.len() as u64);
                if inside > 0 {
                    out.count("variants_with_split_packets", 1);
                    out.nontrivial.push(hash_of(&(abstract_trace(&blog, &bw), name.clone(), inside)));
                }
            }
            let before = out.violations.len();
            if a_res != b_res {
                let i = a_res.iter().zip(&b_res).position(|(x, y)| x != y).unwrap_or(a_res.len().min(b_res.len()));
                out.violations.push(viol("C15", format!("C15/result-differs/{}", a_res.get(i).map(|x| x.0).unwrap_or("?")), format!("variant {}: operation #{} returned {:?}, reference {:?}", name, i, b_res.get(i), a_res.get(i))));
            } else if let Some((what, msg)) = diff(&a_obs, &b_obs) {
                out.violations.push(viol("C15", format!("C15/{}", what), format!("variant {}: {}", name, msg)));
            } else {
                let b_streams: Vec<Vec<u8>> = bw.conns.iter().map(|c| c.out.bytes.clone()).collect();
                if a_streams != b_streams {
                    out.violations.push(viol("C15", "C15/byte-stream-differs", format!("variant {}: outbound byte streams differ", name)));
                }
            }
            // did the variant really split a packet?
            let split_in = bw.events.iter().any(|e| matches!(e, Ev::Io { kind: IoKind::Read, ans: IoAns::Bytes(_), conn, .. } if {
                let c = &bw.conns[*conn];
                c.in_pkts.iter().any(|p| p.raw_len > 1)
            })) && bw.conns.iter().any(|c| c.n_read as usize > c.in_pkts.len() * 2);
            let split_out = bw.conns.iter().any(|c| c.n_write > c.out.packets.len() + 1);
            if split_in || split_out {
                out.count("variants_with_split_packets", 1);
                out.nontrivial.push(hash_of(&(abstract_trace(&blog, &bw), name.clone())));
                if out.sample.is_none() {
                    out.sample = Some(serde_json::json!({"variant": name, "reads": bw.conns.iter().map(|c| c.n_read).collect::<Vec<_>>(), "writes": bw.conns.iter().map(|c| c.n_write).collect::<Vec<_>>(), "run": sample_of(&blog, &bw)}));
                }
            }
            out.key(format!("policy/{}", if name.starts_with("chunking") { "exhaustive-chunking" } else { name.as_str() }));
            if verbose && !shown && out.violations.len() > before {
                shown = true;
                println!("=== reference run");
                for l in render(&alog, &aworld.borrow(), 3000) {
                    println!("{}", l);
                }
                println!("=== variant {}", name);
                for l in render(&blog, &bw, 3000) {
                    println!("{}", l);
                }
            }
        }
        let _ = CPacket::PingReq;
        out
    }
}
