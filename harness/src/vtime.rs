//! Thread-local virtual clock behind `embassy-time` (1 MHz ticks).
//! Every worker thread has its own fully controlled clock; wall-clock time is never used.

use core::task::Waker;
use std::cell::{Cell, RefCell};

thread_local! {
    static NOW: Cell<u64> = const { Cell::new(0) };
    static ALARMS: RefCell<Vec<u64>> = const { RefCell::new(Vec::new()) };
}

struct VDriver;

impl embassy_time_driver::Driver for VDriver {
    fn now(&self) -> u64 {
        NOW.with(|n| n.get())
    }
    fn schedule_wake(&self, at: u64, _waker: &Waker) {
        ALARMS.with(|a| a.borrow_mut().push(at));
    }
}

embassy_time_driver::time_driver_impl!(static DRIVER: VDriver = VDriver);

pub fn now() -> u64 {
    NOW.with(|n| n.get())
}

pub fn set(t: u64) {
    NOW.with(|n| n.set(t));
}

/// Move the clock forward (never backwards) and drop alarms that are now due.
pub fn advance_to(t: u64) {
    NOW.with(|n| {
        if t > n.get() {
            n.set(t)
        }
    });
    let now = now();
    ALARMS.with(|a| a.borrow_mut().retain(|&x| x > now));
}

pub fn clear_alarms() {
    ALARMS.with(|a| a.borrow_mut().clear());
}

/// Earliest armed timer strictly useful for waking (may be <= now if it was armed in the past).
pub fn next_alarm() -> Option<u64> {
    ALARMS.with(|a| a.borrow().iter().copied().min())
}

pub fn reset() {
    set(0);
    clear_alarms();
}
