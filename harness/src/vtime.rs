//! Thread-local virtual clock behind `embassy-time` (1 MHz ticks).
//! Every worker thread has its own fully controlled clock; wall-clock time is never used.

use core::task::Waker;
use std::cell::{Cell, RefCell};

thread_local! {
    static NOW: Cell<u64> = const { Cell::new(0) };
    static ALARMS: RefCell<Vec<u64>> = const { RefCell::new(Vec::new()) };
    /// `now()` calls since control last returned to the executor
    static NOW_CALLS: Cell<u64> = const { Cell::new(0) };
    static SPUN: Cell<bool> = const { Cell::new(false) };
}

/// A future that reads the clock this often without ever returning Pending to the executor is
/// busy-waiting on the clock. Virtual time would stand still for ever, so from here on every
/// further read of the clock moves it by 1 ms: the spin ends, and is reported.
const SPIN_THRESHOLD: u64 = 20_000;

struct VDriver;

impl embassy_time_driver::Driver for VDriver {
    fn now(&self) -> u64 {
        let calls = NOW_CALLS.with(|c| {
            c.set(c.get() + 1);
            c.get()
        });
        if calls > SPIN_THRESHOLD {
            SPUN.with(|s| s.set(true));
            NOW.with(|n| n.set(n.get() + 1000));
        }
        NOW.with(|n| n.get())
    }
    fn schedule_wake(&self, at: u64, _waker: &Waker) {
        ALARMS.with(|a| a.borrow_mut().push(at));
    }
}

embassy_time_driver::time_driver_impl!(static DRIVER: VDriver = VDriver);

pub fn now() -> u64 {
    NOW.with(|n| n.get())
}

pub fn set(t: u64) {
    NOW.with(|n| n.set(t));
}

/// Move the clock forward (never backwards) and drop alarms that are now due.
pub fn advance_to(t: u64) {
    NOW.with(|n| {
        if t > n.get() {
            n.set(t)
        }
    });
    let now = now();
    ALARMS.with(|a| a.borrow_mut().retain(|&x| x > now));
}

pub fn clear_alarms() {
    ALARMS.with(|a| a.borrow_mut().clear());
}

/// Earliest armed timer strictly useful for waking (may be <= now if it was armed in the past).
pub fn next_alarm() -> Option<u64> {
    ALARMS.with(|a| a.borrow().iter().copied().min())
}

pub fn reset() {
    set(0);
    clear_alarms();
    yielded();
    take_spun();
}

/// Called by the executor whenever an operation future hands control back (Pending or Ready).
pub fn yielded() {
    NOW_CALLS.with(|c| c.set(0));
}

/// Did a future busy-wait on the clock since the last call? (resets the flag)
pub fn take_spun() -> bool {
    SPUN.with(|s| s.replace(false))
}
