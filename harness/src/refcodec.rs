//! Independent MQTT 5 reference codec, written from the OASIS MQTT 5.0 text.
//! Shares no code with `minimq::{de,ser}`.
//!
//! * strict decoder for the client->server direction (everything minimq writes)
//! * encoder for server->client packets (reference broker, generators)
//! * three-valued classifier for arbitrary server->client byte strings (C08)

use serde::{Deserialize, Serialize};

#[derive(Clone, Debug, PartialEq, Eq, Serialize, Deserialize, Hash)]
pub enum Prop {
    PayloadFormat(u8),
    MessageExpiry(u32),
    ContentType(String),
    ResponseTopic(String),
    CorrelationData(Vec<u8>),
    SubscriptionId(u32),
    SessionExpiry(u32),
    AssignedClientId(String),
    ServerKeepAlive(u16),
    AuthMethod(String),
    AuthData(Vec<u8>),
    RequestProblemInfo(u8),
    WillDelay(u32),
    RequestResponseInfo(u8),
    ResponseInfo(String),
    ServerReference(String),
    ReasonString(String),
    ReceiveMaximum(u16),
    TopicAliasMaximum(u16),
    TopicAlias(u16),
    MaximumQoS(u8),
    RetainAvailable(u8),
    UserProperty(String, String),
    MaximumPacketSize(u32),
    WildcardSubAvailable(u8),
    SubIdAvailable(u8),
    SharedSubAvailable(u8),
}

pub const ALL_PROP_IDS: [u8; 27] = [
    0x01, 0x02, 0x03, 0x08, 0x09, 0x0B, 0x11, 0x12, 0x13, 0x15, 0x16, 0x17, 0x18, 0x19, 0x1A, 0x1C,
    0x1F, 0x21, 0x22, 0x23, 0x24, 0x25, 0x26, 0x27, 0x28, 0x29, 0x2A,
];

impl Prop {
    pub fn id(&self) -> u8 {
        use Prop::*;
        match self {
            PayloadFormat(_) => 0x01,
            MessageExpiry(_) => 0x02,
            ContentType(_) => 0x03,
            ResponseTopic(_) => 0x08,
            CorrelationData(_) => 0x09,
            SubscriptionId(_) => 0x0B,
            SessionExpiry(_) => 0x11,
            AssignedClientId(_) => 0x12,
            ServerKeepAlive(_) => 0x13,
            AuthMethod(_) => 0x15,
            AuthData(_) => 0x16,
            RequestProblemInfo(_) => 0x17,
            WillDelay(_) => 0x18,
            RequestResponseInfo(_) => 0x19,
            ResponseInfo(_) => 0x1A,
            ServerReference(_) => 0x1C,
            ReasonString(_) => 0x1F,
            ReceiveMaximum(_) => 0x21,
            TopicAliasMaximum(_) => 0x22,
            TopicAlias(_) => 0x23,
            MaximumQoS(_) => 0x24,
            RetainAvailable(_) => 0x25,
            UserProperty(_, _) => 0x26,
            MaximumPacketSize(_) => 0x27,
            WildcardSubAvailable(_) => 0x28,
            SubIdAvailable(_) => 0x29,
            SharedSubAvailable(_) => 0x2A,
        }
    }

    pub fn name(id: u8) -> &'static str {
        match id {
            0x01 => "PayloadFormatIndicator",
            0x02 => "MessageExpiryInterval",
            0x03 => "ContentType",
            0x08 => "ResponseTopic",
            0x09 => "CorrelationData",
            0x0B => "SubscriptionIdentifier",
            0x11 => "SessionExpiryInterval",
            0x12 => "AssignedClientIdentifier",
            0x13 => "ServerKeepAlive",
            0x15 => "AuthenticationMethod",
            0x16 => "AuthenticationData",
            0x17 => "RequestProblemInformation",
            0x18 => "WillDelayInterval",
            0x19 => "RequestResponseInformation",
            0x1A => "ResponseInformation",
            0x1C => "ServerReference",
            0x1F => "ReasonString",
            0x21 => "ReceiveMaximum",
            0x22 => "TopicAliasMaximum",
            0x23 => "TopicAlias",
            0x24 => "MaximumQoS",
            0x25 => "RetainAvailable",
            0x26 => "UserProperty",
            0x27 => "MaximumPacketSize",
            0x28 => "WildcardSubscriptionAvailable",
            0x29 => "SubscriptionIdentifierAvailable",
            0x2A => "SharedSubscriptionAvailable",
            _ => "?",
        }
    }

    /// May the property appear more than once in one block?
    pub fn repeatable(id: u8, server_publish: bool) -> bool {
        id == 0x26 || (id == 0x0B && server_publish)
    }

    /// Value-range rule from the spec (independent of packet type).
    pub fn value_ok(&self) -> bool {
        use Prop::*;
        match self {
            PayloadFormat(v) | RequestProblemInfo(v) | RequestResponseInfo(v)
            | RetainAvailable(v) | WildcardSubAvailable(v) | SubIdAvailable(v)
            | SharedSubAvailable(v) => *v <= 1,
            MaximumQoS(v) => *v <= 1,
            SubscriptionId(v) => (1..=268_435_455).contains(v),
            ReceiveMaximum(v) => *v != 0,
            TopicAlias(v) => *v != 0,
            MaximumPacketSize(v) => *v != 0,
            _ => true,
        }
    }
}

// ---------------------------------------------------------------------------------------------
// primitive readers

pub struct Rd<'a> {
    pub b: &'a [u8],
    pub i: usize,
}

impl<'a> Rd<'a> {
    pub fn new(b: &'a [u8]) -> Self {
        Rd { b, i: 0 }
    }
    pub fn left(&self) -> usize {
        self.b.len() - self.i
    }
    pub fn u8(&mut self) -> Result<u8, String> {
        if self.left() < 1 {
            return Err(format!("field runs past packet at {}", self.i));
        }
        let v = self.b[self.i];
        self.i += 1;
        Ok(v)
    }
    pub fn u16(&mut self) -> Result<u16, String> {
        Ok(u16::from_be_bytes([self.u8()?, self.u8()?]))
    }
    pub fn u32(&mut self) -> Result<u32, String> {
        Ok(u32::from_be_bytes([self.u8()?, self.u8()?, self.u8()?, self.u8()?]))
    }
    pub fn take(&mut self, n: usize) -> Result<&'a [u8], String> {
        if self.left() < n {
            return Err(format!("field of {} bytes runs past packet at {}", n, self.i));
        }
        let s = &self.b[self.i..self.i + n];
        self.i += n;
        Ok(s)
    }
    pub fn bin(&mut self) -> Result<Vec<u8>, String> {
        let n = self.u16()? as usize;
        Ok(self.take(n)?.to_vec())
    }
    pub fn str(&mut self) -> Result<String, String> {
        let n = self.u16()? as usize;
        let at = self.i;
        let s = self.take(n)?;
        let s = core::str::from_utf8(s).map_err(|_| format!("invalid UTF-8 at {}", at))?;
        if s.contains('\u{0}') {
            return Err(format!("U+0000 in string at {}", at));
        }
        Ok(s.to_string())
    }
    /// Canonical variable byte integer.
    pub fn varint(&mut self) -> Result<u32, String> {
        let at = self.i;
        let mut v: u32 = 0;
        for k in 0..4 {
            let b = self.u8()?;
            v |= ((b & 0x7f) as u32) << (7 * k);
            if b & 0x80 == 0 {
                if k > 0 && b == 0 {
                    return Err(format!("non-canonical varint at {}", at));
                }
                return Ok(v);
            }
        }
        Err(format!("varint longer than 4 bytes at {}", at))
    }
}

pub fn varint_len(v: u32) -> usize {
    match v {
        0..=0x7f => 1,
        0x80..=0x3fff => 2,
        0x4000..=0x1f_ffff => 3,
        _ => 4,
    }
}

pub fn put_varint(out: &mut Vec<u8>, mut v: u32) {
    loop {
        let mut b = (v & 0x7f) as u8;
        v >>= 7;
        if v != 0 {
            b |= 0x80;
        }
        out.push(b);
        if v == 0 {
            break;
        }
    }
}

fn put_str(out: &mut Vec<u8>, s: &str) {
    out.extend_from_slice(&(s.len() as u16).to_be_bytes());
    out.extend_from_slice(s.as_bytes());
}
fn put_bin(out: &mut Vec<u8>, s: &[u8]) {
    out.extend_from_slice(&(s.len() as u16).to_be_bytes());
    out.extend_from_slice(s);
}

fn read_prop(r: &mut Rd) -> Result<Prop, String> {
    let at = r.i;
    let id = r.varint()?;
    Ok(match id {
        0x01 => Prop::PayloadFormat(r.u8()?),
        0x02 => Prop::MessageExpiry(r.u32()?),
        0x03 => Prop::ContentType(r.str()?),
        0x08 => Prop::ResponseTopic(r.str()?),
        0x09 => Prop::CorrelationData(r.bin()?),
        0x0B => Prop::SubscriptionId(r.varint()?),
        0x11 => Prop::SessionExpiry(r.u32()?),
        0x12 => Prop::AssignedClientId(r.str()?),
        0x13 => Prop::ServerKeepAlive(r.u16()?),
        0x15 => Prop::AuthMethod(r.str()?),
        0x16 => Prop::AuthData(r.bin()?),
        0x17 => Prop::RequestProblemInfo(r.u8()?),
        0x18 => Prop::WillDelay(r.u32()?),
        0x19 => Prop::RequestResponseInfo(r.u8()?),
        0x1A => Prop::ResponseInfo(r.str()?),
        0x1C => Prop::ServerReference(r.str()?),
        0x1F => Prop::ReasonString(r.str()?),
        0x21 => Prop::ReceiveMaximum(r.u16()?),
        0x22 => Prop::TopicAliasMaximum(r.u16()?),
        0x23 => Prop::TopicAlias(r.u16()?),
        0x24 => Prop::MaximumQoS(r.u8()?),
        0x25 => Prop::RetainAvailable(r.u8()?),
        0x26 => {
            let k = r.str()?;
            let v = r.str()?;
            Prop::UserProperty(k, v)
        }
        0x27 => Prop::MaximumPacketSize(r.u32()?),
        0x28 => Prop::WildcardSubAvailable(r.u8()?),
        0x29 => Prop::SubIdAvailable(r.u8()?),
        0x2A => Prop::SharedSubAvailable(r.u8()?),
        other => return Err(format!("unknown property id {:#x} at {}", other, at)),
    })
}

/// Read a property block: varint length, then properties exactly filling it.
pub fn read_props(r: &mut Rd) -> Result<Vec<Prop>, String> {
    let n = r.varint()? as usize;
    let at = r.i;
    let block = r
        .take(n)
        .map_err(|_| format!("property block of {} bytes runs past packet at {}", n, at))?;
    let mut pr = Rd::new(block);
    let mut out = Vec::new();
    while pr.left() > 0 {
        out.push(read_prop(&mut pr).map_err(|e| format!("in property block at {}: {}", at, e))?);
    }
    Ok(out)
}

pub fn encode_prop(out: &mut Vec<u8>, p: &Prop) {
    out.push(p.id());
    use Prop::*;
    match p {
        PayloadFormat(v) | RequestProblemInfo(v) | RequestResponseInfo(v) | MaximumQoS(v)
        | RetainAvailable(v) | WildcardSubAvailable(v) | SubIdAvailable(v)
        | SharedSubAvailable(v) => out.push(*v),
        MessageExpiry(v) | SessionExpiry(v) | WillDelay(v) | MaximumPacketSize(v) => {
            out.extend_from_slice(&v.to_be_bytes())
        }
        ServerKeepAlive(v) | ReceiveMaximum(v) | TopicAliasMaximum(v) | TopicAlias(v) => {
            out.extend_from_slice(&v.to_be_bytes())
        }
        ContentType(s) | ResponseTopic(s) | AssignedClientId(s) | AuthMethod(s)
        | ResponseInfo(s) | ServerReference(s) | ReasonString(s) => put_str(out, s),
        CorrelationData(d) | AuthData(d) => put_bin(out, d),
        SubscriptionId(v) => put_varint(out, *v),
        UserProperty(k, v) => {
            put_str(out, k);
            put_str(out, v);
        }
    }
}

pub fn encode_props(out: &mut Vec<u8>, props: &[Prop]) {
    let mut block = Vec::new();
    for p in props {
        encode_prop(&mut block, p);
    }
    put_varint(out, block.len() as u32);
    out.extend_from_slice(&block);
}

pub fn props_encoded_len(props: &[Prop]) -> usize {
    let mut block = Vec::new();
    encode_props(&mut block, props);
    block.len()
}

fn check_props(props: &[Prop], allowed: &[u8], what: &str, server_publish: bool) -> Result<(), String> {
    let mut seen: Vec<u8> = Vec::new();
    for p in props {
        let id = p.id();
        if !allowed.contains(&id) {
            return Err(format!("property {} not allowed in {}", Prop::name(id), what));
        }
        if seen.contains(&id) && !Prop::repeatable(id, server_publish) {
            return Err(format!("property {} repeated in {}", Prop::name(id), what));
        }
        if !p.value_ok() {
            return Err(format!("property {} has illegal value in {}: {:?}", Prop::name(id), what, p));
        }
        seen.push(id);
    }
    Ok(())
}

// ---------------------------------------------------------------------------------------------
// client -> server packets

#[derive(Clone, Debug, PartialEq, Eq, Serialize)]
pub struct WillRec {
    pub qos: u8,
    pub retain: bool,
    pub props: Vec<Prop>,
    pub topic: String,
    pub payload: Vec<u8>,
}

#[derive(Clone, Debug, PartialEq, Eq, Serialize)]
pub enum CPacket {
    Connect {
        clean_start: bool,
        keepalive: u16,
        props: Vec<Prop>,
        client_id: String,
        will: Option<WillRec>,
        username: Option<String>,
        password: Option<Vec<u8>>,
    },
    Publish {
        dup: bool,
        qos: u8,
        retain: bool,
        topic: String,
        pid: Option<u16>,
        props: Vec<Prop>,
        payload: Vec<u8>,
    },
    PubAck { pid: u16, reason: u8, props: Vec<Prop> },
    PubRec { pid: u16, reason: u8, props: Vec<Prop> },
    PubRel { pid: u16, reason: u8, props: Vec<Prop> },
    PubComp { pid: u16, reason: u8, props: Vec<Prop> },
    Subscribe { pid: u16, props: Vec<Prop>, filters: Vec<(String, u8)> },
    Unsubscribe { pid: u16, props: Vec<Prop>, filters: Vec<String> },
    PingReq,
    Disconnect { reason: u8, props: Vec<Prop> },
}

impl CPacket {
    pub fn type_name(&self) -> &'static str {
        match self {
            CPacket::Connect { .. } => "CONNECT",
            CPacket::Publish { .. } => "PUBLISH",
            CPacket::PubAck { .. } => "PUBACK",
            CPacket::PubRec { .. } => "PUBREC",
            CPacket::PubRel { .. } => "PUBREL",
            CPacket::PubComp { .. } => "PUBCOMP",
            CPacket::Subscribe { .. } => "SUBSCRIBE",
            CPacket::Unsubscribe { .. } => "UNSUBSCRIBE",
            CPacket::PingReq => "PINGREQ",
            CPacket::Disconnect { .. } => "DISCONNECT",
        }
    }
    /// Packet identifier of identifier-bearing packets.
    pub fn pid(&self) -> Option<u16> {
        match self {
            CPacket::Publish { pid, .. } => *pid,
            CPacket::PubAck { pid, .. }
            | CPacket::PubRec { pid, .. }
            | CPacket::PubRel { pid, .. }
            | CPacket::PubComp { pid, .. }
            | CPacket::Subscribe { pid, .. }
            | CPacket::Unsubscribe { pid, .. } => Some(*pid),
            _ => None,
        }
    }
}

pub const TYPE_NAMES: [&str; 16] = [
    "RESERVED0", "CONNECT", "CONNACK", "PUBLISH", "PUBACK", "PUBREC", "PUBREL", "PUBCOMP",
    "SUBSCRIBE", "SUBACK", "UNSUBSCRIBE", "UNSUBACK", "PINGREQ", "PINGRESP", "DISCONNECT", "AUTH",
];

const P_CONNECT: &[u8] = &[0x11, 0x21, 0x27, 0x22, 0x19, 0x17, 0x26, 0x15, 0x16];
const P_WILL: &[u8] = &[0x18, 0x01, 0x02, 0x03, 0x08, 0x09, 0x26];
const P_PUBLISH_C: &[u8] = &[0x01, 0x02, 0x23, 0x08, 0x09, 0x26, 0x03];
const P_PUBLISH_S: &[u8] = &[0x01, 0x02, 0x23, 0x08, 0x09, 0x26, 0x03, 0x0B];
const P_ACK: &[u8] = &[0x1F, 0x26];
const P_SUBSCRIBE: &[u8] = &[0x0B, 0x26];
const P_UNSUBSCRIBE: &[u8] = &[0x26];
const P_DISCONNECT_C: &[u8] = &[0x11, 0x1F, 0x26, 0x1C];
const P_DISCONNECT_S: &[u8] = &[0x1F, 0x26, 0x1C, 0x11];
const P_CONNACK: &[u8] = &[
    0x11, 0x21, 0x24, 0x25, 0x27, 0x12, 0x22, 0x1F, 0x26, 0x28, 0x29, 0x2A, 0x13, 0x1A, 0x1C, 0x15,
    0x16,
];

const R_PUBACK: &[u8] = &[0x00, 0x10, 0x80, 0x83, 0x87, 0x90, 0x91, 0x97, 0x99];
const R_PUBREL: &[u8] = &[0x00, 0x92];
const R_DISCONNECT_C: &[u8] = &[
    0x00, 0x04, 0x80, 0x81, 0x82, 0x83, 0x90, 0x93, 0x94, 0x95, 0x96, 0x97, 0x98, 0x99,
];
pub const R_DISCONNECT_S: &[u8] = &[
    0x00, 0x80, 0x81, 0x82, 0x83, 0x87, 0x89, 0x8B, 0x8D, 0x8E, 0x8F, 0x90, 0x93, 0x94, 0x95, 0x96,
    0x97, 0x98, 0x99, 0x9A, 0x9B, 0x9C, 0x9D, 0x9E, 0xA0, 0xA1, 0xA2,
];
pub const R_CONNACK: &[u8] = &[
    0x00, 0x80, 0x81, 0x82, 0x83, 0x84, 0x85, 0x86, 0x87, 0x88, 0x89, 0x8A, 0x8C, 0x90, 0x95, 0x97,
    0x99, 0x9A, 0x9B, 0x9C, 0x9D, 0x9F,
];
pub const R_SUBACK: &[u8] = &[0x00, 0x01, 0x02, 0x80, 0x83, 0x87, 0x8F, 0x91, 0x97, 0x9E, 0xA1, 0xA2];
pub const R_UNSUBACK: &[u8] = &[0x00, 0x11, 0x80, 0x83, 0x87, 0x8F, 0x91];

fn ack_body(r: &mut Rd, name: &str, reasons: &[u8]) -> Result<(u16, u8, Vec<Prop>), String> {
    let pid = r.u16()?;
    if pid == 0 {
        return Err(format!("{} with packet identifier 0", name));
    }
    let (reason, props) = if r.left() == 0 {
        (0, vec![])
    } else {
        let reason = r.u8()?;
        let props = if r.left() == 0 { vec![] } else { read_props(r)? };
        (reason, props)
    };
    if !reasons.contains(&reason) {
        return Err(format!("{} with reason code {:#x} not defined for it", name, reason));
    }
    check_props(&props, P_ACK, name, false)?;
    Ok((pid, reason, props))
}

/// Strictly decode one complete client->server frame (fixed header included).
pub fn decode_client(frame: &[u8]) -> Result<CPacket, String> {
    let mut r = Rd::new(frame);
    let b0 = r.u8()?;
    let rl = r.varint()? as usize;
    if r.left() != rl {
        return Err(format!("remaining length {} but {} bytes follow", rl, r.left()));
    }
    let ty = b0 >> 4;
    let flags = b0 & 0x0f;
    let need_flags = |want: u8| -> Result<(), String> {
        if flags != want {
            Err(format!(
                "{} with fixed-header flags {:#06b}, must be {:#06b}",
                TYPE_NAMES[ty as usize], flags, want
            ))
        } else {
            Ok(())
        }
    };
    let pkt = match ty {
        1 => {
            need_flags(0)?;
            let name = r.str()?;
            if name != "MQTT" {
                return Err("CONNECT protocol name is not MQTT".into());
            }
            let level = r.u8()?;
            if level != 5 {
                return Err(format!("CONNECT protocol level {}", level));
            }
            let cf = r.u8()?;
            if cf & 1 != 0 {
                return Err("CONNECT reserved flag set".into());
            }
            let clean_start = cf & 2 != 0;
            let will_flag = cf & 4 != 0;
            let will_qos = (cf >> 3) & 3;
            let will_retain = cf & 0x20 != 0;
            let pw_flag = cf & 0x40 != 0;
            let un_flag = cf & 0x80 != 0;
            if will_qos == 3 {
                return Err("CONNECT will QoS 3".into());
            }
            if !will_flag && (will_qos != 0 || will_retain) {
                return Err("CONNECT will QoS/retain set without will flag".into());
            }
            let keepalive = r.u16()?;
            let props = read_props(&mut r)?;
            check_props(&props, P_CONNECT, "CONNECT", false)?;
            let client_id = r.str()?;
            let will = if will_flag {
                let wprops = read_props(&mut r)?;
                check_props(&wprops, P_WILL, "will", false)?;
                let topic = r.str()?;
                if topic.is_empty() || topic.contains(['#', '+']) {
                    return Err("will topic empty or with wildcard".into());
                }
                let payload = r.bin()?;
                Some(WillRec {
                    qos: will_qos,
                    retain: will_retain,
                    props: wprops,
                    topic,
                    payload,
                })
            } else {
                None
            };
            let username = if un_flag { Some(r.str()?) } else { None };
            let password = if pw_flag { Some(r.bin()?) } else { None };
            CPacket::Connect {
                clean_start,
                keepalive,
                props,
                client_id,
                will,
                username,
                password,
            }
        }
        3 => {
            let dup = flags & 8 != 0;
            let qos = (flags >> 1) & 3;
            let retain = flags & 1 != 0;
            if qos == 3 {
                return Err("PUBLISH with QoS 3".into());
            }
            if qos == 0 && dup {
                return Err("PUBLISH QoS 0 with DUP".into());
            }
            let topic = r.str()?;
            if topic.contains(['#', '+']) {
                return Err("PUBLISH topic name with wildcard".into());
            }
            let pid = if qos > 0 {
                let pid = r.u16()?;
                if pid == 0 {
                    return Err("PUBLISH with packet identifier 0".into());
                }
                Some(pid)
            } else {
                None
            };
            let props = read_props(&mut r)?;
            check_props(&props, P_PUBLISH_C, "PUBLISH", false)?;
            if topic.is_empty() && !props.iter().any(|p| matches!(p, Prop::TopicAlias(_))) {
                return Err("PUBLISH with empty topic and no alias".into());
            }
            let payload = r.take(r.left())?.to_vec();
            CPacket::Publish {
                dup,
                qos,
                retain,
                topic,
                pid,
                props,
                payload,
            }
        }
        4 => {
            need_flags(0)?;
            let (pid, reason, props) = ack_body(&mut r, "PUBACK", R_PUBACK)?;
            CPacket::PubAck { pid, reason, props }
        }
        5 => {
            need_flags(0)?;
            let (pid, reason, props) = ack_body(&mut r, "PUBREC", R_PUBACK)?;
            CPacket::PubRec { pid, reason, props }
        }
        6 => {
            need_flags(2)?;
            let (pid, reason, props) = ack_body(&mut r, "PUBREL", R_PUBREL)?;
            CPacket::PubRel { pid, reason, props }
        }
        7 => {
            need_flags(0)?;
            let (pid, reason, props) = ack_body(&mut r, "PUBCOMP", R_PUBREL)?;
            CPacket::PubComp { pid, reason, props }
        }
        8 => {
            need_flags(2)?;
            let pid = r.u16()?;
            if pid == 0 {
                return Err("SUBSCRIBE with packet identifier 0".into());
            }
            let props = read_props(&mut r)?;
            check_props(&props, P_SUBSCRIBE, "SUBSCRIBE", false)?;
            let mut filters = Vec::new();
            while r.left() > 0 {
                let f = r.str()?;
                if f.is_empty() {
                    return Err("SUBSCRIBE with empty topic filter".into());
                }
                let o = r.u8()?;
                if o & 0xC0 != 0 {
                    return Err("SUBSCRIBE options reserved bits set".into());
                }
                if o & 3 == 3 {
                    return Err("SUBSCRIBE options QoS 3".into());
                }
                if (o >> 4) & 3 == 3 {
                    return Err("SUBSCRIBE options retain handling 3".into());
                }
                filters.push((f, o));
            }
            if filters.is_empty() {
                return Err("SUBSCRIBE without topic filter".into());
            }
            CPacket::Subscribe { pid, props, filters }
        }
        10 => {
            need_flags(2)?;
            let pid = r.u16()?;
            if pid == 0 {
                return Err("UNSUBSCRIBE with packet identifier 0".into());
            }
            let props = read_props(&mut r)?;
            check_props(&props, P_UNSUBSCRIBE, "UNSUBSCRIBE", false)?;
            let mut filters = Vec::new();
            while r.left() > 0 {
                let f = r.str()?;
                if f.is_empty() {
                    return Err("UNSUBSCRIBE with empty topic filter".into());
                }
                filters.push(f);
            }
            if filters.is_empty() {
                return Err("UNSUBSCRIBE without topic filter".into());
            }
            CPacket::Unsubscribe { pid, props, filters }
        }
        12 => {
            need_flags(0)?;
            CPacket::PingReq
        }
        14 => {
            need_flags(0)?;
            let (reason, props) = if r.left() == 0 {
                (0, vec![])
            } else {
                let reason = r.u8()?;
                let props = if r.left() == 0 { vec![] } else { read_props(&mut r)? };
                (reason, props)
            };
            if !R_DISCONNECT_C.contains(&reason) {
                return Err(format!("DISCONNECT with reason {:#x} not defined for clients", reason));
            }
            check_props(&props, P_DISCONNECT_C, "DISCONNECT", false)?;
            CPacket::Disconnect { reason, props }
        }
        0 | 2 | 9 | 11 | 13 | 15 => {
            return Err(format!(
                "packet type {} ({}) is not a legal client packet here",
                ty, TYPE_NAMES[ty as usize]
            ));
        }
        _ => unreachable!(),
    };
    if r.left() != 0 {
        return Err(format!("{} trailing bytes after {}", r.left(), pkt.type_name()));
    }
    Ok(pkt)
}

/// A decoded client packet with its position in the connection's outbound stream.
#[derive(Clone, Debug, Serialize)]
pub struct CRec {
    pub start: usize,
    pub end: usize,
    pub b0: u8,
    pub pkt: CPacket,
    /// virtual time at which the last byte was accepted by the transport
    pub t_done: u64,
    /// virtual time at which the next successful flush completed (u64::MAX if never)
    pub t_flushed: u64,
    /// index into the global event log of the write call that completed the packet
    pub ev: usize,
}

/// Incremental framer + strict decoder for one connection's outbound stream.
#[derive(Default, Clone)]
pub struct ClientStream {
    pub bytes: Vec<u8>,
    pub parsed_upto: usize,
    pub packets: Vec<CRec>,
    /// fatal: the stream could not be framed / decoded any further from this offset
    pub error: Option<(usize, String)>,
    /// non-fatal: packets that only decode after their fixed-header flags are repaired
    pub soft_errors: Vec<(usize, String)>,
}

impl ClientStream {
    /// Feed bytes; returns indices of packets completed by this feed.
    pub fn feed(&mut self, data: &[u8], now: u64, ev: usize) -> Vec<usize> {
        self.bytes.extend_from_slice(data);
        let mut done = Vec::new();
        if self.error.is_some() {
            return done;
        }
        loop {
            let buf = &self.bytes[self.parsed_upto..];
            if buf.len() < 2 {
                break;
            }
            // remaining length
            let mut rl: usize = 0;
            let mut n = 0;
            let mut complete = false;
            let mut bad = false;
            for k in 0..4 {
                if 1 + k >= buf.len() {
                    break;
                }
                let b = buf[1 + k];
                rl |= ((b & 0x7f) as usize) << (7 * k);
                n = k + 1;
                if b & 0x80 == 0 {
                    complete = true;
                    if k > 0 && b == 0 {
                        bad = true;
                    }
                    break;
                }
            }
            if !complete {
                if n == 4 {
                    self.error = Some((self.parsed_upto, "remaining length longer than 4 bytes".into()));
                }
                break;
            }
            if bad {
                self.error = Some((self.parsed_upto, "non-canonical remaining length".into()));
                break;
            }
            let total = 1 + n + rl;
            if buf.len() < total {
                // early sanity on the first byte so garbage is reported where it starts
                let ty = buf[0] >> 4;
                if matches!(ty, 0 | 2 | 9 | 11 | 13 | 15) {
                    self.error = Some((
                        self.parsed_upto,
                        format!("packet type {} is not a client packet", ty),
                    ));
                }
                break;
            }
            let mut decoded = decode_client(&buf[..total]);
            if let Err(e) = &decoded {
                // keep other monitors sighted: retry with the flag nibble the type demands
                let ty = buf[0] >> 4;
                let fixed = match ty {
                    6 | 8 | 10 => Some((ty << 4) | 2),
                    3 => None,
                    _ => Some(ty << 4),
                };
                if let Some(b0) = fixed.filter(|b0| *b0 != buf[0]) {
                    let mut copy = buf[..total].to_vec();
                    copy[0] = b0;
                    if let Ok(pkt) = decode_client(&copy) {
                        self.soft_errors.push((self.parsed_upto, e.clone()));
                        decoded = Ok(pkt);
                    }
                }
            }
            match decoded {
                Ok(pkt) => {
                    let start = self.parsed_upto;
                    self.packets.push(CRec {
                        start,
                        end: start + total,
                        b0: buf[0],
                        pkt,
                        t_done: now,
                        t_flushed: u64::MAX,
                        ev,
                    });
                    done.push(self.packets.len() - 1);
                    self.parsed_upto += total;
                }
                Err(e) => {
                    self.error = Some((self.parsed_upto, e));
                    break;
                }
            }
        }
        done
    }

    pub fn flushed(&mut self, now: u64) {
        for p in self.packets.iter_mut().rev() {
            if p.t_flushed != u64::MAX {
                break;
            }
            p.t_flushed = now;
        }
    }

    /// Bytes of a dangling partial packet at the end of the stream.
    pub fn dangling(&self) -> usize {
        self.bytes.len() - self.parsed_upto
    }
}

// ---------------------------------------------------------------------------------------------
// server -> client packets

#[derive(Clone, Debug, PartialEq, Eq, Serialize, Deserialize)]
pub enum SPacket {
    ConnAck { sp: bool, reason: u8, props: Vec<Prop> },
    Publish {
        dup: bool,
        qos: u8,
        retain: bool,
        topic: String,
        pid: Option<u16>,
        props: Vec<Prop>,
        payload: Vec<u8>,
    },
    /// `reason`/`props` None = short form (omitted on the wire)
    PubAck { pid: u16, reason: Option<u8>, props: Option<Vec<Prop>> },
    PubRec { pid: u16, reason: Option<u8>, props: Option<Vec<Prop>> },
    PubRel { pid: u16, reason: Option<u8>, props: Option<Vec<Prop>> },
    PubComp { pid: u16, reason: Option<u8>, props: Option<Vec<Prop>> },
    SubAck { pid: u16, props: Vec<Prop>, codes: Vec<u8> },
    UnsubAck { pid: u16, props: Vec<Prop>, codes: Vec<u8> },
    PingResp,
    Disconnect { reason: Option<u8>, props: Option<Vec<Prop>> },
}

impl SPacket {
    pub fn type_name(&self) -> &'static str {
        match self {
            SPacket::ConnAck { .. } => "CONNACK",
            SPacket::Publish { .. } => "PUBLISH",
            SPacket::PubAck { .. } => "PUBACK",
            SPacket::PubRec { .. } => "PUBREC",
            SPacket::PubRel { .. } => "PUBREL",
            SPacket::PubComp { .. } => "PUBCOMP",
            SPacket::SubAck { .. } => "SUBACK",
            SPacket::UnsubAck { .. } => "UNSUBACK",
            SPacket::PingResp => "PINGRESP",
            SPacket::Disconnect { .. } => "DISCONNECT",
        }
    }
    pub fn ack(kind: u8, pid: u16, reason: u8) -> SPacket {
        let (r, p) = if reason == 0 { (None, None) } else { (Some(reason), None) };
        match kind {
            4 => SPacket::PubAck { pid, reason: r, props: p },
            5 => SPacket::PubRec { pid, reason: r, props: p },
            6 => SPacket::PubRel { pid, reason: r, props: p },
            7 => SPacket::PubComp { pid, reason: r, props: p },
            _ => panic!("ack kind"),
        }
    }
}

fn frame(b0: u8, body: &[u8]) -> Vec<u8> {
    let mut out = vec![b0];
    put_varint(&mut out, body.len() as u32);
    out.extend_from_slice(body);
    out
}

pub fn encode_server(p: &SPacket) -> Vec<u8> {
    let mut b = Vec::new();
    match p {
        SPacket::ConnAck { sp, reason, props } => {
            b.push(*sp as u8);
            b.push(*reason);
            encode_props(&mut b, props);
            frame(0x20, &b)
        }
        SPacket::Publish {
            dup,
            qos,
            retain,
            topic,
            pid,
            props,
            payload,
        } => {
            put_str(&mut b, topic);
            if let Some(pid) = pid {
                b.extend_from_slice(&pid.to_be_bytes());
            }
            encode_props(&mut b, props);
            b.extend_from_slice(payload);
            frame(0x30 | ((*dup as u8) << 3) | (qos << 1) | (*retain as u8), &b)
        }
        SPacket::PubAck { pid, reason, props }
        | SPacket::PubRec { pid, reason, props }
        | SPacket::PubRel { pid, reason, props }
        | SPacket::PubComp { pid, reason, props } => {
            b.extend_from_slice(&pid.to_be_bytes());
            if reason.is_some() || props.is_some() {
                b.push(reason.unwrap_or(0));
                if let Some(props) = props {
                    encode_props(&mut b, props);
                }
            }
            let b0 = match p {
                SPacket::PubAck { .. } => 0x40,
                SPacket::PubRec { .. } => 0x50,
                SPacket::PubRel { .. } => 0x62,
                _ => 0x70,
            };
            frame(b0, &b)
        }
        SPacket::SubAck { pid, props, codes } | SPacket::UnsubAck { pid, props, codes } => {
            b.extend_from_slice(&pid.to_be_bytes());
            encode_props(&mut b, props);
            b.extend_from_slice(codes);
            frame(if matches!(p, SPacket::SubAck { .. }) { 0x90 } else { 0xB0 }, &b)
        }
        SPacket::PingResp => frame(0xD0, &b),
        SPacket::Disconnect { reason, props } => {
            if reason.is_some() || props.is_some() {
                b.push(reason.unwrap_or(0));
                if let Some(props) = props {
                    encode_props(&mut b, props);
                }
            }
            frame(0xE0, &b)
        }
    }
}

/// Verdict of the reference classifier on one framed server->client packet.
#[derive(Clone, Debug, PartialEq, Eq, Serialize)]
pub enum Class {
    /// spec-valid, must be accepted with exactly these fields
    MustAccept(SPacket),
    /// malformed by one of the rules C08 enumerates; the string names the rule
    MustReject(&'static str),
    /// neither enumerated as must-accept nor as must-reject; only "no panic, clean outcome"
    DontCare(&'static str),
}

/// Split the first packet off an arbitrary server->client byte string.
/// Returns (frame length or None if incomplete, early verdict if the header itself is malformed).
pub enum Framing {
    Incomplete,
    /// the fixed header itself is malformed (bad varint); everything from here is poisoned
    BadHeader(&'static str),
    Frame(usize),
}

pub fn frame_server(buf: &[u8]) -> Framing {
    if buf.len() < 2 {
        return Framing::Incomplete;
    }
    let mut rl: usize = 0;
    for k in 0..4 {
        if 1 + k >= buf.len() {
            return Framing::Incomplete;
        }
        let b = buf[1 + k];
        rl |= ((b & 0x7f) as usize) << (7 * k);
        if b & 0x80 == 0 {
            if k > 0 && b == 0 {
                return Framing::BadHeader("non-canonical remaining length");
            }
            let total = 1 + k + 1 + rl;
            return if buf.len() >= total {
                Framing::Frame(total)
            } else {
                Framing::Incomplete
            };
        }
    }
    Framing::BadHeader("remaining length longer than 4 bytes")
}

fn str_lenient(r: &mut Rd) -> Result<Result<String, &'static str>, ()> {
    // Ok(Ok(s)) valid, Ok(Err(rule)) = well-delimited but invalid content, Err(()) = runs past
    let n = r.u16().map_err(|_| ())? as usize;
    let s = r.take(n).map_err(|_| ())?;
    match core::str::from_utf8(s) {
        Ok(s) if s.contains('\u{0}') => Ok(Err("nul")),
        Ok(s) => Ok(Ok(s.to_string())),
        Err(_) => Ok(Err("utf8")),
    }
}

/// Properties of a server packet: Ok(props) if the block is fully well-formed for `allowed`.
/// Err(MustReject) if the block length itself is malformed or runs past the packet;
/// Err(DontCare) if the block is delimited correctly but its content is off (lazy decoding).
fn server_props(r: &mut Rd, allowed: &[u8], server_publish: bool) -> Result<Vec<Prop>, Class> {
    let start = r.i;
    let n = match r.varint() {
        Ok(n) => n as usize,
        Err(e) => {
            return Err(if e.contains("past packet") {
                Class::MustReject("property length runs past the packet")
            } else {
                Class::MustReject("non-canonical or oversized property length")
            });
        }
    };
    let _ = start;
    let block = match r.take(n) {
        Ok(b) => b,
        Err(_) => return Err(Class::MustReject("property block runs past the packet")),
    };
    let mut pr = Rd::new(block);
    let mut props = Vec::new();
    while pr.left() > 0 {
        match read_prop(&mut pr) {
            Ok(p) => props.push(p),
            // a CONNACK's properties are all read during the handshake: one whose value runs past the
            // block is a field running past its container. (Other packets' property blocks are
            // decoded lazily, when the application iterates them.)
            Err(e) if e.contains("past packet") && allowed == P_CONNACK => return Err(Class::MustReject("property value runs past the property block")),
            // ... likewise a property identifier written as a non-canonical or oversized
            // variable-length integer
            Err(e) if (e.contains("non-canonical varint") || e.contains("varint longer than 4 bytes")) && allowed == P_CONNACK => return Err(Class::MustReject("non-canonical or oversized variable-length integer in a CONNACK property")),
            // ... and an identifier beyond the one-byte range, which MQTT 5 assigns to no property
            Err(e) if e.contains("unknown property id") && allowed == P_CONNACK && e.split("id ").nth(1).and_then(|x| x.split(' ').next()).and_then(|x| u32::from_str_radix(x.trim_start_matches("0x"), 16).ok()).is_some_and(|id| id > 0xFF) => return Err(Class::MustReject("property identifier above 255 in a CONNACK")),
            Err(_) => return Err(Class::DontCare("malformed content inside property block")),
        }
    }
    if check_props(&props, allowed, "", server_publish).is_err() {
        return Err(Class::DontCare("property not legal / repeated / bad value for this packet"));
    }
    if props.iter().any(|p| matches!(p, Prop::AuthMethod(_) | Prop::AuthData(_))) {
        return Err(Class::DontCare("enhanced authentication not requested"));
    }
    if props.iter().any(|p| matches!(p, Prop::TopicAlias(_))) {
        return Err(Class::DontCare("topic alias not requested"));
    }
    Ok(props)
}

/// Classify one complete frame (as delimited by `frame_server`) of at most `rx_cap` bytes.
pub fn classify_server(frame: &[u8], rx_cap: usize) -> Class {
    if frame.len() > rx_cap {
        return Class::MustReject("packet larger than the receive buffer");
    }
    let mut r = Rd::new(frame);
    let b0 = r.u8().unwrap();
    let _ = r.varint();
    let ty = b0 >> 4;
    let flags = b0 & 0x0f;
    match ty {
        0 => return Class::MustReject("reserved packet type 0"),
        1 | 8 | 10 | 12 => return Class::MustReject("client-only packet type"),
        15 => return Class::MustReject("AUTH without enhanced authentication"),
        _ => {}
    }
    let flags_ok = match ty {
        3 => true,
        6 => flags == 2,
        _ => flags == 0,
    };
    if !flags_ok {
        return Class::MustReject("illegal fixed-header flags");
    }
    macro_rules! past {
        ($e:expr) => {
            match $e {
                Ok(v) => v,
                Err(_) => return Class::MustReject("field runs past the packet"),
            }
        };
    }
    match ty {
        2 => {
            let f = past!(r.u8());
            let reason = past!(r.u8());
            let props = match server_props(&mut r, P_CONNACK, false) {
                Ok(p) => p,
                // a refusing CONNACK may be reported by its reason code before its properties are read
                Err(Class::MustReject("property value runs past the property block" | "non-canonical or oversized variable-length integer in a CONNACK property" | "property identifier above 255 in a CONNACK")) if reason != 0 => return Class::DontCare("malformed properties in a CONNACK that does not accept the connection (a refusal, or a reason code MQTT 5 does not define for CONNACK)"),
                Err(c) => return c,
            };
            if r.left() != 0 {
                return Class::MustReject("trailing bytes");
            }
            if f > 1 {
                // bits 7-1 of the acknowledge flags are reserved and must be 0 [MQTT-3.2.2-1]:
                // illegal flags, like a non-zero reserved nibble in a fixed header
                return Class::MustReject("reserved bits set in the CONNACK acknowledge flags");
            }
            if !R_CONNACK.contains(&reason) {
                return Class::DontCare("CONNACK reason code not defined");
            }
            if f == 1 && reason != 0 {
                return Class::DontCare("CONNACK session present with error code");
            }
            Class::MustAccept(SPacket::ConnAck { sp: f == 1, reason, props })
        }
        3 => {
            let dup = flags & 8 != 0;
            let qos = (flags >> 1) & 3;
            let retain = flags & 1 != 0;
            if qos == 3 {
                return Class::MustReject("QoS 3");
            }
            let topic = match str_lenient(&mut r) {
                Err(()) => return Class::MustReject("field runs past the packet"),
                Ok(Err("utf8")) => return Class::MustReject("invalid UTF-8 topic"),
                Ok(Err(_)) => return Class::DontCare("U+0000 in topic"),
                Ok(Ok(t)) => t,
            };
            let pid = if qos > 0 { Some(past!(r.u16())) } else { None };
            let props = match server_props(&mut r, P_PUBLISH_S, true) {
                Ok(p) => p,
                Err(c) => return c,
            };
            let payload = r.take(r.left()).unwrap().to_vec();
            if pid == Some(0) {
                return Class::DontCare("packet identifier 0");
            }
            if qos == 0 && dup {
                return Class::DontCare("DUP on QoS 0");
            }
            if topic.is_empty() {
                return Class::DontCare("empty topic without alias");
            }
            if topic.contains(['#', '+']) {
                return Class::DontCare("wildcard in topic name");
            }
            Class::MustAccept(SPacket::Publish {
                dup,
                qos,
                retain,
                topic,
                pid,
                props,
                payload,
            })
        }
        4 | 5 | 6 | 7 => {
            let pid = past!(r.u16());
            let (reason, props) = if r.left() == 0 {
                (None, None)
            } else {
                let reason = r.u8().unwrap();
                if r.left() == 0 {
                    (Some(reason), None)
                } else {
                    match server_props(&mut r, P_ACK, false) {
                        Ok(p) => (Some(reason), Some(p)),
                        Err(c) => return c,
                    }
                }
            };
            if r.left() != 0 {
                return Class::MustReject("trailing bytes");
            }
            if pid == 0 {
                return Class::DontCare("packet identifier 0");
            }
            let legal: &[u8] = if ty == 4 || ty == 5 { R_PUBACK } else { R_PUBREL };
            if !legal.contains(&reason.unwrap_or(0)) {
                return Class::DontCare("reason code not defined for this packet");
            }
            Class::MustAccept(match ty {
                4 => SPacket::PubAck { pid, reason, props },
                5 => SPacket::PubRec { pid, reason, props },
                6 => SPacket::PubRel { pid, reason, props },
                _ => SPacket::PubComp { pid, reason, props },
            })
        }
        9 | 11 => {
            let pid = past!(r.u16());
            let props = match server_props(&mut r, P_ACK, false) {
                Ok(p) => p,
                Err(c) => return c,
            };
            let codes = r.take(r.left()).unwrap().to_vec();
            if pid == 0 {
                return Class::DontCare("packet identifier 0");
            }
            if codes.is_empty() {
                return Class::DontCare("empty reason code list");
            }
            let legal: &[u8] = if ty == 9 { R_SUBACK } else { R_UNSUBACK };
            if codes.iter().any(|c| !legal.contains(c)) {
                return Class::DontCare("reason code not defined for this packet");
            }
            Class::MustAccept(if ty == 9 {
                SPacket::SubAck { pid, props, codes }
            } else {
                SPacket::UnsubAck { pid, props, codes }
            })
        }
        13 => {
            if r.left() != 0 {
                return Class::MustReject("trailing bytes");
            }
            Class::MustAccept(SPacket::PingResp)
        }
        14 => {
            let (reason, props) = if r.left() == 0 {
                (None, None)
            } else {
                let reason = r.u8().unwrap();
                if r.left() == 0 {
                    (Some(reason), None)
                } else {
                    match server_props(&mut r, P_DISCONNECT_S, false) {
                        Ok(p) => (Some(reason), Some(p)),
                        Err(c) => return c,
                    }
                }
            };
            if r.left() != 0 {
                return Class::MustReject("trailing bytes");
            }
            if !R_DISCONNECT_S.contains(&reason.unwrap_or(0)) {
                return Class::DontCare("reason code not defined for this packet");
            }
            if props.as_ref().is_some_and(|p| p.iter().any(|p| matches!(p, Prop::SessionExpiry(_)))) {
                return Class::DontCare("server DISCONNECT with session expiry");
            }
            Class::MustAccept(SPacket::Disconnect { reason, props })
        }
        _ => unreachable!(),
    }
}

/// Does the strict client-stream decoder allow property `id` in this context?
/// (0 publish, 1 will, 2 subscribe, 3 unsubscribe, 4 disconnect)
pub fn client_allows(ctx: u8, id: u8) -> bool {
    let set: &[u8] = match ctx {
        0 => P_PUBLISH_C,
        1 => P_WILL,
        2 => P_SUBSCRIBE,
        3 => P_UNSUBSCRIBE,
        _ => P_DISCONNECT_C,
    };
    set.contains(&id)
}

#[cfg(test)]
mod tests {
    use super::*;

    #[test]
    fn decodes_spec_examples() {
        // PUBLISH QoS 1 with DUP, topic ABC, id 0xBEEF, payload AB CD
        let p = decode_client(&[0x3A, 0x0a, 0, 3, 0x41, 0x42, 0x43, 0xBE, 0xEF, 0, 0xAB, 0xCD]).unwrap();
        assert_eq!(p, CPacket::Publish { dup: true, qos: 1, retain: false, topic: "ABC".into(), pid: Some(0xBEEF), props: vec![], payload: vec![0xAB, 0xCD] });
        // SUBSCRIBE id 16, filter ABC, options 0
        let p = decode_client(&[0x82, 0x09, 0, 0x10, 0, 0, 3, 0x41, 0x42, 0x43, 0]).unwrap();
        assert_eq!(p, CPacket::Subscribe { pid: 16, props: vec![], filters: vec![("ABC".into(), 0)] });
        // PUBREL must carry flags 0010
        assert!(decode_client(&[0x62, 0x02, 0, 5]).is_ok());
        assert!(decode_client(&[0x60, 0x02, 0, 5]).is_err());
        // packet identifier 0, QoS 3, non-canonical length, trailing garbage, empty filter list
        assert!(decode_client(&[0x32, 0x06, 0, 1, b'a', 0, 0, 0]).is_err());
        assert!(decode_client(&[0x36, 0x06, 0, 1, b'a', 0, 1, 0]).is_err());
        assert!(decode_client(&[0xC0, 0x80, 0x00]).is_err());
        assert!(decode_client(&[0xC0, 0x01, 0x00]).is_err());
        assert!(decode_client(&[0x82, 0x03, 0, 1, 0]).is_err());
        // DISCONNECT short and long forms
        assert_eq!(decode_client(&[0xE0, 0x00]).unwrap(), CPacket::Disconnect { reason: 0, props: vec![] });
        assert_eq!(decode_client(&[0xE0, 0x02, 0x04, 0x00]).unwrap(), CPacket::Disconnect { reason: 4, props: vec![] });
        // CONNECT with will QoS 1 + retain, user name and password
        let mut c = vec![0x10, 0, 0, 4, b'M', b'Q', b'T', b'T', 5, 0b1110_1110, 0, 60, 0, 0, 1, b'c', 0, 0, 1, b'w', 0, 1, 9, 0, 1, b'u', 0, 1, 7];
        c[1] = (c.len() - 2) as u8;
        match decode_client(&c).unwrap() {
            CPacket::Connect { clean_start, keepalive, will: Some(w), username, password, .. } => {
                assert!(clean_start && keepalive == 60 && w.qos == 1 && w.retain && w.topic == "w" && w.payload == vec![9]);
                assert_eq!((username.as_deref(), password), (Some("u"), Some(vec![7])));
            }
            other => panic!("{:?}", other),
        }
    }

    #[test]
    fn classifier_three_values() {
        // valid PINGRESP, PINGRESP with flags, PINGRESP with a body, type 0, AUTH, client-only type
        assert_eq!(classify_server(&[0xD0, 0], 64), Class::MustAccept(SPacket::PingResp));
        assert!(matches!(classify_server(&[0xD1, 0], 64), Class::MustReject(_)));
        assert!(matches!(classify_server(&[0xD0, 1, 0], 64), Class::MustReject(_)));
        assert!(matches!(classify_server(&[0x00, 0], 64), Class::MustReject(_)));
        assert!(matches!(classify_server(&[0xF0, 0], 64), Class::MustReject(_)));
        assert!(matches!(classify_server(&[0x82, 0], 64), Class::MustReject(_)));
        // PUBLISH: QoS 3, topic running past the packet, invalid UTF-8 topic, packet id 0 (DontCare), too large
        assert!(matches!(classify_server(&[0x36, 3, 0, 1, b'a'], 64), Class::MustReject("QoS 3")));
        assert!(matches!(classify_server(&[0x30, 3, 0, 9, b'a'], 64), Class::MustReject(_)));
        assert!(matches!(classify_server(&[0x30, 4, 0, 1, 0xFF, 0], 64), Class::MustReject("invalid UTF-8 topic")));
        assert!(matches!(classify_server(&[0x32, 6, 0, 1, b'a', 0, 0, 0], 64), Class::DontCare(_)));
        assert!(matches!(classify_server(&[0x30, 4, 0, 1, b'a', 0], 5), Class::MustReject(_)));
        // property block: length past the packet is MustReject, unknown property inside is DontCare
        assert!(matches!(classify_server(&[0x30, 4, 0, 1, b'a', 9], 64), Class::MustReject(_)));
        assert!(matches!(classify_server(&[0x30, 6, 0, 1, b'a', 2, 0x7E, 0], 64), Class::DontCare(_)));
        // framing
        assert!(matches!(frame_server(&[0x30, 0x80, 0x00]), Framing::BadHeader(_)));
        assert!(matches!(frame_server(&[0x30, 0xFF, 0xFF, 0xFF, 0xFF, 1]), Framing::BadHeader(_)));
        assert!(matches!(frame_server(&[0x30, 0x05, 1]), Framing::Incomplete));
    }

    #[test]
    fn roundtrip_server_packets() {
        let pkts = vec![
            SPacket::ConnAck { sp: false, reason: 0, props: vec![Prop::ReceiveMaximum(3)] },
            SPacket::Publish {
                dup: false,
                qos: 1,
                retain: true,
                topic: "a/b".into(),
                pid: Some(7),
                props: vec![Prop::UserProperty("k".into(), "v".into()), Prop::SubscriptionId(300)],
                payload: vec![1, 2, 3],
            },
            SPacket::PubAck { pid: 9, reason: None, props: None },
            SPacket::PubRec { pid: 9, reason: Some(0x80), props: Some(vec![]) },
            SPacket::SubAck { pid: 1, props: vec![], codes: vec![0, 1, 0x80] },
            SPacket::PingResp,
            SPacket::Disconnect { reason: Some(0x8e), props: None },
        ];
        for p in pkts {
            let bytes = encode_server(&p);
            match frame_server(&bytes) {
                Framing::Frame(n) => assert_eq!(n, bytes.len()),
                _ => panic!("framing"),
            }
            assert_eq!(classify_server(&bytes, 1 << 20), Class::MustAccept(p));
        }
    }

    #[test]
    fn client_decoder_rejects_dup_subscribe() {
        let good = [0x82u8, 0x06, 0, 1, 0, 0, 1, b'a', 0];
        // remaining length 7: pid(2) props(1) filter(2+1) opts(1)
        let mut g = good.to_vec();
        g[1] = 7;
        assert!(decode_client(&g).is_ok());
        g[0] = 0x8A;
        assert!(decode_client(&g).is_err());
    }
}

#[cfg(test)]
mod surplus_tests {
    use super::*;
    #[test]
    fn lone_identifier_is_rejected() {
        for f in [vec![0x20u8, 0x04, 0x00, 0x00, 0x01, 0x26], vec![0x20, 0x04, 0x00, 0x00, 0x01, 0x21], vec![0x20, 0x07, 0x00, 0x00, 0x04, 0x21, 0x00, 0x05, 0x27]] {
            let c = classify_server(&f, 128);
            println!("{:02x?} -> {:?}", f, c);
            assert!(matches!(c, Class::MustReject(_)));
        }
    }
}
