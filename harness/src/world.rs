//! Simulated transport, reference broker and the global event log.

use crate::refcodec::{self as rc, CPacket, ClientStream, Prop, SPacket};
use crate::rng::Rng;
use crate::steps::*;
use crate::vtime;
use core::future::poll_fn;
use core::task::Poll;
use embedded_io_async::{ErrorKind, ErrorType, Read, Write};
use serde::Serialize;
use std::cell::RefCell;
use std::collections::{BTreeMap, VecDeque};
use std::rc::Rc;

pub type Shared = Rc<RefCell<World>>;

#[derive(Clone, Copy, Debug, PartialEq, Eq)]
pub struct SimErr(pub ErrKind);

impl core::fmt::Display for SimErr {
    fn fmt(&self, f: &mut core::fmt::Formatter<'_>) -> core::fmt::Result {
        write!(f, "{:?}", self.0)
    }
}
impl std::error::Error for SimErr {}

impl embedded_io_async::Error for SimErr {
    fn kind(&self) -> ErrorKind {
        match self.0 {
            ErrKind::ConnectionReset => ErrorKind::ConnectionReset,
            ErrKind::BrokenPipe => ErrorKind::BrokenPipe,
            ErrKind::TimedOut => ErrorKind::TimedOut,
            ErrKind::Interrupted => ErrorKind::Interrupted,
            ErrKind::NotConnected => ErrorKind::NotConnected,
            ErrKind::ConnectionAborted => ErrorKind::ConnectionAborted,
            ErrKind::Other => ErrorKind::Other,
            ErrKind::WriteZero => ErrorKind::WriteZero,
        }
    }
}

#[derive(Clone, Copy, Debug, PartialEq, Eq, Serialize, Hash)]
pub enum IoKind {
    Read,
    Write,
    Flush,
}

#[derive(Clone, Copy, Debug, PartialEq, Eq, Serialize)]
pub enum PendWhy {
    Injected,
    ReadEmpty,
    Frozen,
}

#[derive(Clone, Copy, Debug, PartialEq, Eq, Serialize)]
pub enum IoAns {
    Bytes(usize),
    Done,
    Pending(PendWhy),
    Err(ErrKind),
    Eof,
    Zero,
}

/// Global, totally ordered event log of one execution.
#[derive(Clone, Debug, Serialize)]
pub enum Ev {
    Step { idx: usize },
    OpCall { op: usize },
    OpRet { op: usize },
    Io { conn: usize, kind: IoKind, req: usize, ans: IoAns, t: u64 },
    /// client packet `idx` of `conn` completed on the wire
    CPkt { conn: usize, idx: usize },
    Flushed { conn: usize },
    /// broker packet `idx` of `conn` became readable
    SPkt { conn: usize, idx: usize },
    /// the client read the last byte of broker packet `idx`
    Consumed { conn: usize, idx: usize },
    Delivered { msg: usize },
    Probe { idx: usize },
    Time { from: u64, to: u64 },
    ConnBegin { conn: usize },
    ConnEnd { conn: usize },
    Watchdog,
    /// a future busy-waited on the clock without yielding (virtual time had to be forced on)
    ClockSpin,
    /// the transport was busy for a while between two pieces of a partially accepted buffer
    SlowWrite { conn: usize, from: u64, to: u64 },
    /// data arrived at `from`, the waiting task was polled at `to`
    LateWake { conn: usize, from: u64, to: u64 },
    /// a read found the inbound stream stalled at a gate (the rest of the data has not arrived yet)
    GateHit { conn: usize, offset: usize },
}

#[derive(Clone, Debug, Serialize)]
pub struct InPkt {
    pub start: usize,
    pub end: usize,
    pub pkt: Option<SPacket>,
    pub raw_len: usize,
    #[serde(skip)]
    pub raw: Vec<u8>,
    pub t_enq: u64,
    pub t_consumed: Option<u64>,
    pub ev_consumed: Option<usize>,
    pub ev_enq: usize,
}

#[derive(Clone, Debug, Serialize)]
pub struct HeldAck {
    pub pkt: SPacket,
}

pub struct Conn {
    pub idx: usize,
    pub policy: IoPolicy,
    pub faults: Vec<FaultPlan>,
    pub rng: Rng,
    /// broker decisions draw from their own stream so that I/O scheduling cannot change them
    pub brng: Rng,
    pub out: ClientStream,
    pub inq: VecDeque<u8>,
    pub in_pkts: Vec<InPkt>,
    pub in_enq: usize,
    pub in_read: usize,
    pub scheduled: Vec<(u64, SPacket)>,
    pub held: Vec<SPacket>,
    pub close_after_drain: bool,
    pub n_io: usize,
    pub n_read: usize,
    pub n_write: usize,
    pub n_flush: usize,
    /// executed + pending-entered call counts, for "no I/O after latch"
    pub touches: usize,
    pub in_call: Option<IoKind>,
    pub alt: bool,
    pub connack: ConnackSpec,
    pub broker: BrokerPolicy,
    pub connack_sent: Option<(bool, u8, Vec<Prop>)>,
    pub connect_seen: bool,
    pub disconnect_seen: bool,
    pub ended: bool,
    /// the transport reported an error / EOF at least once
    pub faulted: bool,
    /// inbound stream stalls: bytes from `offset` on arrive only after `blocks` reads found nothing
    pub gates: Vec<Gate>,
    /// the previous write call accepted only part of the buffer it was offered
    pub last_write_partial: bool,
    /// outbound stalls: once `offset` bytes are out, the transport accepts nothing more until
    /// `blocks` write calls have found it busy
    pub wgates: Vec<Gate>,
}

#[derive(Clone, Copy, Debug, Serialize)]
pub struct Gate {
    pub offset: usize,
    pub blocks: u8,
}

/// Broker-side session state that survives connections.
#[derive(Default, Clone, Debug)]
pub struct BrokerSession {
    pub exists: bool,
    /// client->server QoS 2 ids: PUBLISH received, PUBREL not yet
    pub c2s_qos2: Vec<u16>,
    /// server->client in-flight: pid -> phase (1 = awaiting PUBACK, 2 = awaiting PUBREC, 3 = awaiting PUBCOMP)
    pub s2c: BTreeMap<u16, u8>,
    pub assigned_id: Option<String>,
}

pub struct World {
    pub events: Vec<Ev>,
    pub conns: Vec<Conn>,
    pub session: BrokerSession,
    pub rng: Rng,
    pub pend_why: Option<PendWhy>,
    // watchdog
    pub budget_calls: usize,
    pub budget_bytes: usize,
    pub op_calls: usize,
    pub op_bytes: usize,
    pub frozen: bool,
    pub watchdog_tripped: bool,
    /// How many operations of this case hit the I/O budget.
    pub watchdog_trips: u32,
    pub clock_spin: bool,
    /// see `BrokerAct::WakeDelay`
    pub wake_delay_us: u64,
    /// see `BrokerAct::TimerLatency`
    pub timer_latency_us: u64,
    /// packets the broker sends straight behind its next successful CONNACK
    pub pipelined: Vec<SPacket>,
    /// this case's transports deliver to the broker only what has been flushed
    pub buffered: bool,
    /// (conn, packet index) of complete client packets written but not yet flushed
    pub unflushed: Vec<(usize, usize)>,
    /// the slow-transport pause of the current operation has been taken
    pub slow_write_done: bool,
}

impl World {
    pub fn new(seed: u64) -> Shared {
        Rc::new(RefCell::new(World {
            events: Vec::new(),
            conns: Vec::new(),
            session: BrokerSession::default(),
            rng: Rng::new(seed),
            pend_why: None,
            budget_calls: 4096,
            budget_bytes: 1 << 20,
            op_calls: 0,
            op_bytes: 0,
            frozen: false,
            watchdog_tripped: false,
            watchdog_trips: 0,
            clock_spin: false,
            slow_write_done: false,
            wake_delay_us: 0,
            timer_latency_us: 0,
            // one case in three runs on a transport that keeps what it was given until flush() is
            // called (a buffered writer): the broker sees nothing of a packet before that
            pipelined: Vec::new(),
            buffered: seed.wrapping_mul(0x9E37_79B9_7F4A_7C15).rotate_left(17) % 3 == 0,
            unflushed: Vec::new(),
        }))
    }

    pub fn ev(&mut self, e: Ev) -> usize {
        self.events.push(e);
        self.events.len() - 1
    }

    pub fn begin_op(&mut self) {
        self.slow_write_done = false;
        self.op_calls = 0;
        self.op_bytes = 0;
        self.frozen = false;
        self.pend_why = None;
    }

    /// A pending I/O call was dropped together with its future.
    pub fn cancel_io(&mut self) {
        if let Some(c) = self.conns.last_mut() {
            c.in_call = None;
        }
    }

    pub fn open_conn(&mut self, spec: &ConnectSpec) -> usize {
        let idx = self.conns.len();
        let rng = self.rng.fork();
        let brng = self.rng.fork();
        self.conns.push(Conn {
            idx,
            policy: spec.policy.clone(),
            faults: spec.faults.clone(),
            rng,
            brng,
            out: ClientStream::default(),
            inq: VecDeque::new(),
            in_pkts: Vec::new(),
            in_enq: 0,
            in_read: 0,
            scheduled: Vec::new(),
            gates: Vec::new(),
            last_write_partial: false,
            wgates: Vec::new(),
            held: Vec::new(),
            close_after_drain: false,
            n_io: 0,
            n_read: 0,
            n_write: 0,
            n_flush: 0,
            touches: 0,
            in_call: None,
            alt: false,
            connack: spec.connack.clone(),
            broker: spec.broker.clone(),
            connack_sent: None,
            connect_seen: false,
            disconnect_seen: false,
            ended: false,
            faulted: false,
        });
        self.ev(Ev::ConnBegin { conn: idx });
        idx
    }

    pub fn end_conn(&mut self, conn: usize) {
        if !self.conns[conn].ended {
            self.conns[conn].ended = true;
            // acknowledgements the broker had not sent yet die with the connection
            self.conns[conn].held.clear();
            self.conns[conn].scheduled.clear();
            // (what a buffered transport still held is lost with it)
            self.unflushed.retain(|(c, _)| *c != conn);
            self.ev(Ev::ConnEnd { conn });
        }
    }

    fn enqueue_raw(&mut self, conn: usize, raw: Vec<u8>, pkt: Option<SPacket>) {
        let now = vtime::now();
        let evi = self.events.len();
        let c = &mut self.conns[conn];
        let start = c.in_enq;
        c.in_enq += raw.len();
        c.inq.extend(raw.iter().copied());
        c.in_pkts.push(InPkt {
            start,
            end: c.in_enq,
            pkt,
            raw_len: raw.len(),
            raw,
            t_enq: now,
            t_consumed: None,
            ev_consumed: None,
            ev_enq: evi,
        });
        let idx = c.in_pkts.len() - 1;
        self.ev(Ev::SPkt { conn, idx });
    }

    /// Make a server packet readable now (tracks broker->client in-flight state).
    pub fn send_now(&mut self, conn: usize, pkt: SPacket) {
        match &pkt {
            SPacket::Publish { qos, pid: Some(pid), .. } => {
                if *qos == 1 {
                    self.session.s2c.insert(*pid, 1);
                } else if *qos == 2 {
                    self.session.s2c.entry(*pid).or_insert(2);
                }
            }
            SPacket::PubRel { pid, .. } => {
                if self.session.s2c.contains_key(pid) {
                    self.session.s2c.insert(*pid, 3);
                }
            }
            _ => {}
        }
        let raw = rc::encode_server(&pkt);
        self.enqueue_raw(conn, raw, Some(pkt));
    }

    pub fn send_raw(&mut self, conn: usize, raw: Vec<u8>) {
        self.enqueue_raw(conn, raw, None);
    }

    fn respond(&mut self, conn: usize, pkt: SPacket, mode: AckMode) {
        match mode {
            AckMode::Immediate => self.send_now(conn, pkt),
            AckMode::Hold => self.conns[conn].held.push(pkt),
            AckMode::Delay(d) => {
                let due = vtime::now() + d;
                self.conns[conn].scheduled.push((due, pkt));
            }
            AckMode::Never => {}
        }
    }

    pub fn next_scheduled(&self) -> Option<u64> {
        self.conns
            .last()
            .filter(|c| !c.ended)
            .and_then(|c| c.scheduled.iter().map(|s| s.0).min())
    }

    pub fn deliver_due(&mut self) {
        let now = vtime::now();
        let Some(conn) = self.conns.len().checked_sub(1) else { return };
        if self.conns[conn].ended {
            return;
        }
        let mut due: Vec<(u64, SPacket)> = Vec::new();
        let c = &mut self.conns[conn];
        let mut i = 0;
        while i < c.scheduled.len() {
            if c.scheduled[i].0 <= now {
                due.push(c.scheduled.remove(i));
            } else {
                i += 1;
            }
        }
        due.sort_by_key(|d| d.0);
        for (_, p) in due {
            self.send_now(conn, p);
        }
    }

    pub fn release_held(&mut self, n: usize, order: Order) -> usize {
        let Some(conn) = self.conns.len().checked_sub(1) else { return 0 };
        if self.conns[conn].ended {
            return 0;
        }
        let mut held = std::mem::take(&mut self.conns[conn].held);
        match order {
            Order::Fifo => {}
            Order::Lifo => held.reverse(),
            Order::Shuffle(s) => Rng::new(s).shuffle(&mut held),
        }
        let k = n.min(held.len());
        let rest = held.split_off(k);
        // keep the unreleased ones in their original relative order
        let mut rest = rest;
        if matches!(order, Order::Lifo) {
            rest.reverse();
        }
        self.conns[conn].held = rest;
        for p in held {
            self.send_now(conn, p);
        }
        k
    }

    fn ack_pkt(&mut self, conn: usize, kind: u8, pid: u16, fail_codes: &[u8]) -> SPacket {
        let (fail_pct, long_pct) = {
            let b = &self.conns[conn].broker;
            (b.fail_pct, b.longform_pct)
        };
        // what the client said it can take (Maximum Packet Size of its CONNECT)
        let client_max = self.conns[conn].out.packets.first().and_then(|p| match &p.pkt {
            CPacket::Connect { props, .. } => props.iter().find_map(|q| if let Prop::MaximumPacketSize(m) = q { Some(*m as usize) } else { None }),
            _ => None,
        });
        let rng = &mut self.conns[conn].brng;
        let reason = if fail_pct > 0 && rng.chance(fail_pct as u32, 100) {
            *rng.pick(fail_codes)
        } else {
            0
        };
        let long = long_pct > 0 && rng.chance(long_pct as u32, 100);
        let (r, p) = if long {
            let props = if rng.chance(1, 2) {
                vec![]
            } else if client_max.is_some_and(|m| m >= 300) && rng.chance(1, 2) {
                // an acknowledgement whose Remaining Length needs two bytes (a talkative broker)
                let n = 124 + rng.below(100);
                vec![Prop::ReasonString("because ".repeat(n / 8 + 1)[..n].to_string())]
            } else {
                vec![Prop::ReasonString("why".into()), Prop::UserProperty("k".into(), "v".into())]
            };
            (Some(reason), Some(props))
        } else if reason != 0 {
            (Some(reason), None)
        } else {
            (None, None)
        };
        match kind {
            4 => SPacket::PubAck { pid, reason: r, props: p },
            5 => SPacket::PubRec { pid, reason: r, props: p },
            6 => SPacket::PubRel { pid, reason: r, props: p },
            _ => SPacket::PubComp { pid, reason: r, props: p },
        }
    }

    /// Reference broker reaction to one completed client packet.
    fn on_client_packet(&mut self, conn: usize, pkt: &CPacket) {
        let acks = self.conns[conn].broker.acks;
        match pkt {
            CPacket::Connect { clean_start, .. } => {
                if self.conns[conn].connect_seen {
                    return;
                }
                self.conns[conn].connect_seen = true;
                let spec = self.conns[conn].connack.clone();
                match spec {
                    ConnackSpec::Normal { sp, reason, props } => {
                        if *clean_start {
                            let keep_id = self.session.assigned_id.clone();
                            self.session = BrokerSession::default();
                            self.session.assigned_id = keep_id;
                        }
                        let sp = match sp {
                            SpMode::Honest => self.session.exists && !*clean_start,
                            SpMode::Force(b) => b,
                        };
                        let sp = sp && reason == 0;
                        if reason == 0 {
                            if !sp {
                                let keep_id = self.session.assigned_id.clone();
                                self.session = BrokerSession::default();
                                self.session.assigned_id = keep_id;
                            }
                            self.session.exists = true;
                            for p in &props {
                                if let Prop::AssignedClientId(id) = p {
                                    self.session.assigned_id = Some(id.clone());
                                }
                            }
                        }
                        self.conns[conn].connack_sent = Some((sp, reason, props.clone()));
                        self.send_now(conn, SPacket::ConnAck { sp, reason, props });
                        let queued = std::mem::take(&mut self.pipelined);
                        if reason != 0 {
                            self.conns[conn].close_after_drain = true;
                        } else {
                            for p in queued {
                                self.send_now(conn, p);
                            }
                        }
                    }
                    ConnackSpec::Raw(bytes) => self.send_raw(conn, bytes),
                    ConnackSpec::Disconnect(reason) => {
                        self.send_now(conn, SPacket::Disconnect { reason: Some(reason), props: None });
                        self.conns[conn].close_after_drain = true;
                    }
                    ConnackSpec::Eof => self.conns[conn].close_after_drain = true,
                    ConnackSpec::Silent => {}
                }
            }
            CPacket::Publish { qos, pid, .. } => match (*qos, *pid) {
                (1, Some(pid)) => {
                    let p = self.ack_pkt(conn, 4, pid, &[0x80, 0x83, 0x87, 0x90, 0x97, 0x99, 0x10]);
                    self.respond(conn, p, acks);
                }
                (2, Some(pid)) => {
                    let dup = self.session.c2s_qos2.contains(&pid);
                    let p = if dup {
                        SPacket::PubRec { pid, reason: None, props: None }
                    } else {
                        self.ack_pkt(conn, 5, pid, &[0x80, 0x83, 0x87, 0x90, 0x97, 0x99, 0x10, 0x10])
                    };
                    let ok = matches!(&p, SPacket::PubRec { reason, .. } if reason.unwrap_or(0) < 0x80);
                    if ok && !dup {
                        self.session.c2s_qos2.push(pid);
                    }
                    self.respond(conn, p, acks);
                }
                _ => {}
            },
            CPacket::PubRel { pid, .. } => {
                let known = self.session.c2s_qos2.iter().position(|x| x == pid);
                let p = match known {
                    Some(i) => {
                        self.session.c2s_qos2.remove(i);
                        self.ack_pkt(conn, 7, *pid, &[0x92])
                    }
                    None => SPacket::PubComp { pid: *pid, reason: Some(0x92), props: None },
                };
                self.respond(conn, p, acks);
            }
            CPacket::Subscribe { pid, filters, .. } => {
                let fail_pct = self.conns[conn].broker.fail_pct;
                let rng = &mut self.conns[conn].brng;
                let codes: Vec<u8> = filters
                    .iter()
                    .map(|(_, o)| {
                        if fail_pct > 0 && rng.chance(fail_pct as u32, 100) {
                            *rng.pick(&[0x80u8, 0x83, 0x87, 0x8F, 0x97, 0x9E, 0xA1, 0xA2])
                        } else {
                            o & 3
                        }
                    })
                    .collect();
                let p = SPacket::SubAck { pid: *pid, props: vec![], codes };
                self.respond(conn, p, acks);
            }
            CPacket::Unsubscribe { pid, filters, .. } => {
                let fail_pct = self.conns[conn].broker.fail_pct;
                let rng = &mut self.conns[conn].brng;
                let codes: Vec<u8> = filters
                    .iter()
                    .map(|_| {
                        if fail_pct > 0 && rng.chance(fail_pct as u32, 100) {
                            *rng.pick(&[0x80u8, 0x83, 0x87, 0x8F])
                        } else if rng.chance(1, 4) {
                            0x11
                        } else {
                            0
                        }
                    })
                    .collect();
                let p = SPacket::UnsubAck { pid: *pid, props: vec![], codes };
                self.respond(conn, p, acks);
            }
            CPacket::PingReq => {
                let mode = self.conns[conn].broker.ping;
                self.respond(conn, SPacket::PingResp, mode);
            }
            CPacket::PubAck { pid, .. } => {
                if self.session.s2c.get(pid) == Some(&1) {
                    self.session.s2c.remove(pid);
                }
            }
            CPacket::PubRec { pid, reason, .. } => {
                if self.session.s2c.get(pid) == Some(&2) {
                    if *reason >= 0x80 {
                        self.session.s2c.remove(pid);
                    } else {
                        // a conformant broker answers PUBREC with PUBREL
                        self.session.s2c.insert(*pid, 3);
                        let p = SPacket::PubRel { pid: *pid, reason: None, props: None };
                        self.respond(conn, p, acks);
                    }
                } else if self.session.s2c.get(pid) == Some(&3) {
                    let p = SPacket::PubRel { pid: *pid, reason: None, props: None };
                    self.respond(conn, p, acks);
                }
            }
            CPacket::PubComp { pid, .. } => {
                if self.session.s2c.get(pid) == Some(&3) {
                    self.session.s2c.remove(pid);
                }
            }
            CPacket::Disconnect { .. } => {
                self.conns[conn].disconnect_seen = true;
            }
        }
    }

    fn chunk(c: &mut Conn, mode: Chunk, avail: usize) -> usize {
        debug_assert!(avail > 0);
        let k = match mode {
            Chunk::All => avail,
            Chunk::One => 1,
            Chunk::Rand => 1 + c.rng.below(avail),
            Chunk::AltOneAll => {
                c.alt = !c.alt;
                if c.alt { 1 } else { avail }
            }
            Chunk::AllButOne => {
                if avail > 1 { avail - 1 } else { 1 }
            }
            Chunk::Fixed(n) => n.max(1),
        };
        k.min(avail)
    }

    fn should_pend(c: &mut Conn, mode: Pend) -> bool {
        match mode {
            Pend::Never => false,
            Pend::Always => true,
            Pend::Pct(p) => c.rng.chance(p as u32, 100),
        }
    }

    fn take_fault(c: &mut Conn, kind: IoKind) -> Option<FaultKind> {
        let (n_io, n_k, out_len) = (
            c.n_io,
            match kind {
                IoKind::Read => c.n_read,
                IoKind::Write => c.n_write,
                IoKind::Flush => c.n_flush,
            },
            c.out.bytes.len(),
        );
        let pos = c.faults.iter().position(|f| match (f.at, kind) {
            (FaultAt::Io(i), _) => i == n_io,
            (FaultAt::Write(i), IoKind::Write) => i == n_k,
            (FaultAt::Read(i), IoKind::Read) => i == n_k,
            (FaultAt::Flush(i), IoKind::Flush) => i == n_k,
            (FaultAt::OutBytes(n), IoKind::Write) => out_len >= n,
            _ => false,
        })?;
        let f = c.faults.remove(pos);
        // fault kinds that make no sense for the call degrade to a plain error
        Some(match (f.kind, kind) {
            (FaultKind::Eof, IoKind::Read) => FaultKind::Eof,
            (FaultKind::WriteZero, IoKind::Write) => FaultKind::WriteZero,
            (FaultKind::Error(e), _) => FaultKind::Error(e),
            (_, _) => FaultKind::Error(ErrKind::ConnectionReset),
        })
    }

    /// Common prologue of an I/O call. Returns Some(answer) if the call ends here.
    fn io_enter(&mut self, conn: usize, kind: IoKind, req: usize) -> Option<IoAns> {
        let now = vtime::now();
        if self.frozen {
            self.pend_why = Some(PendWhy::Frozen);
            return Some(IoAns::Pending(PendWhy::Frozen));
        }
        self.op_calls += 1;
        if self.op_calls > self.budget_calls || self.op_bytes > self.budget_bytes {
            self.frozen = true;
            self.watchdog_tripped = true;
            self.watchdog_trips += 1;
            self.ev(Ev::Watchdog);
            self.pend_why = Some(PendWhy::Frozen);
            return Some(IoAns::Pending(PendWhy::Frozen));
        }
        let c = &mut self.conns[conn];
        c.touches += 1;
        let fresh = c.in_call != Some(kind);
        if fresh {
            c.in_call = Some(kind);
            let mode = match kind {
                IoKind::Read => c.policy.pend_read,
                IoKind::Write => c.policy.pend_write,
                IoKind::Flush => c.policy.pend_flush,
            };
            // an injected Pending on read is only meaningful when data is available
            let applicable = kind != IoKind::Read || !c.inq.is_empty();
            if applicable && Self::should_pend(c, mode) {
                self.pend_why = Some(PendWhy::Injected);
                self.ev(Ev::Io { conn, kind, req, ans: IoAns::Pending(PendWhy::Injected), t: now });
                return Some(IoAns::Pending(PendWhy::Injected));
            }
        }
        None
    }

    fn io_done(&mut self, conn: usize, kind: IoKind, req: usize, ans: IoAns) {
        let now = vtime::now();
        let c = &mut self.conns[conn];
        c.in_call = None;
        c.n_io += 1;
        match kind {
            IoKind::Read => c.n_read += 1,
            IoKind::Write => c.n_write += 1,
            IoKind::Flush => c.n_flush += 1,
        }
        if matches!(ans, IoAns::Err(_) | IoAns::Eof) {
            c.faulted = true;
        }
        self.ev(Ev::Io { conn, kind, req, ans, t: now });
    }

    pub fn do_write(&mut self, conn: usize, buf: &[u8]) -> Poll<Result<usize, SimErr>> {
        if let Some(a) = self.io_enter(conn, IoKind::Write, buf.len()) {
            debug_assert!(matches!(a, IoAns::Pending(_)));
            return Poll::Pending;
        }
        if buf.is_empty() {
            self.io_done(conn, IoKind::Write, 0, IoAns::Bytes(0));
            return Poll::Ready(Ok(0));
        }
        if let Some(f) = Self::take_fault(&mut self.conns[conn], IoKind::Write) {
            return match f {
                FaultKind::WriteZero => {
                    self.io_done(conn, IoKind::Write, buf.len(), IoAns::Zero);
                    Poll::Ready(Ok(0))
                }
                FaultKind::Error(e) => {
                    self.io_done(conn, IoKind::Write, buf.len(), IoAns::Err(e));
                    Poll::Ready(Err(SimErr(e)))
                }
                FaultKind::Eof => unreachable!(),
            };
        }
        // a transport whose send buffer is full: nothing is accepted for now
        {
            let c = &mut self.conns[conn];
            let out_len = c.out.bytes.len();
            c.wgates.retain(|g| g.blocks > 0);
            if let Some(g) = c.wgates.iter_mut().find(|g| g.offset <= out_len) {
                g.blocks -= 1;
                self.pend_why = Some(PendWhy::ReadEmpty);
                let now = vtime::now();
                self.ev(Ev::Io { conn, kind: IoKind::Write, req: buf.len(), ans: IoAns::Pending(PendWhy::ReadEmpty), t: now });
                return Poll::Pending;
            }
        }
        // a slow transport: time passes between the pieces of a partially accepted buffer
        if self.conns[conn].last_write_partial && self.conns[conn].policy.slow_write_us > 0 && !self.slow_write_done {
            // (once per operation: a transport that is slow all the time looks like a dead peer)
            self.slow_write_done = true;
            let from = vtime::now();
            vtime::advance_to(from + self.conns[conn].policy.slow_write_us);
            self.ev(Ev::Time { from, to: vtime::now() });
            self.ev(Ev::SlowWrite { conn, from, to: vtime::now() });
        }
        let now = vtime::now();
        let c = &mut self.conns[conn];
        let mode = c.policy.write;
        let mut k = Self::chunk(c, mode, buf.len());
        // do not run past an OutBytes fault boundary
        let out_len = c.out.bytes.len();
        for g in &c.wgates {
            if g.offset > out_len {
                k = k.min(g.offset - out_len);
            }
        }
        for f in &c.faults {
            if let FaultAt::OutBytes(n) = f.at {
                if n > out_len {
                    k = k.min(n - out_len);
                }
            }
        }
        self.op_bytes += k;
        self.conns[conn].last_write_partial = k < buf.len();
        let evi = self.events.len();
        let done = self.conns[conn].out.feed(&buf[..k], now, evi);
        self.io_done(conn, IoKind::Write, buf.len(), IoAns::Bytes(k));
        for idx in done {
            self.ev(Ev::CPkt { conn, idx });
            if self.buffered {
                self.unflushed.push((conn, idx));
                continue;
            }
            let pkt = self.conns[conn].out.packets[idx].pkt.clone();
            self.on_client_packet(conn, &pkt);
        }
        Poll::Ready(Ok(k))
    }

    pub fn do_flush(&mut self, conn: usize) -> Poll<Result<(), SimErr>> {
        if let Some(_a) = self.io_enter(conn, IoKind::Flush, 0) {
            return Poll::Pending;
        }
        if let Some(f) = Self::take_fault(&mut self.conns[conn], IoKind::Flush) {
            let FaultKind::Error(e) = f else { unreachable!() };
            self.io_done(conn, IoKind::Flush, 0, IoAns::Err(e));
            return Poll::Ready(Err(SimErr(e)));
        }
        let now = vtime::now();
        self.conns[conn].out.flushed(now);
        self.io_done(conn, IoKind::Flush, 0, IoAns::Done);
        self.ev(Ev::Flushed { conn });
        // a buffered transport hands over what it held
        let held: Vec<(usize, usize)> = self.unflushed.iter().copied().filter(|(c, _)| *c == conn).collect();
        self.unflushed.retain(|(c, _)| *c != conn);
        for (c, idx) in held {
            let pkt = self.conns[c].out.packets[idx].pkt.clone();
            self.on_client_packet(c, &pkt);
        }
        Poll::Ready(Ok(()))
    }

    pub fn do_read(&mut self, conn: usize, buf: &mut [u8]) -> Poll<Result<usize, SimErr>> {
        if let Some(_a) = self.io_enter(conn, IoKind::Read, buf.len()) {
            return Poll::Pending;
        }
        if buf.is_empty() {
            self.io_done(conn, IoKind::Read, 0, IoAns::Bytes(0));
            return Poll::Ready(Ok(0));
        }
        if let Some(f) = Self::take_fault(&mut self.conns[conn], IoKind::Read) {
            return match f {
                FaultKind::Eof => {
                    self.io_done(conn, IoKind::Read, buf.len(), IoAns::Eof);
                    Poll::Ready(Ok(0))
                }
                FaultKind::Error(e) => {
                    self.io_done(conn, IoKind::Read, buf.len(), IoAns::Err(e));
                    Poll::Ready(Err(SimErr(e)))
                }
                FaultKind::WriteZero => unreachable!(),
            };
        }
        let now = vtime::now();
        let c = &mut self.conns[conn];
        while c.gates.first().is_some_and(|g| g.offset < c.in_read || g.blocks == 0) {
            c.gates.remove(0);
        }
        let gate_room = c.gates.first().map(|g| g.offset - c.in_read);
        if gate_room == Some(0) && !c.inq.is_empty() {
            let offset = c.in_read;
            c.gates[0].blocks -= 1;
            self.pend_why = Some(PendWhy::ReadEmpty);
            self.ev(Ev::GateHit { conn, offset });
            self.ev(Ev::Io { conn, kind: IoKind::Read, req: buf.len(), ans: IoAns::Pending(PendWhy::ReadEmpty), t: now });
            return Poll::Pending;
        }
        let c = &mut self.conns[conn];
        if c.inq.is_empty() {
            if c.close_after_drain {
                self.io_done(conn, IoKind::Read, buf.len(), IoAns::Eof);
                return Poll::Ready(Ok(0));
            }
            // stays "in call": a re-poll of the same read is not a new call
            self.pend_why = Some(PendWhy::ReadEmpty);
            self.ev(Ev::Io {
                conn,
                kind: IoKind::Read,
                req: buf.len(),
                ans: IoAns::Pending(PendWhy::ReadEmpty),
                t: now,
            });
            return Poll::Pending;
        }
        let avail = buf.len().min(c.inq.len()).min(gate_room.unwrap_or(usize::MAX));
        let k = if !c.policy.read_chunks.is_empty() {
            c.policy.read_chunks.remove(0).max(1).min(avail)
        } else {
            let mode = c.policy.read;
            Self::chunk(c, mode, avail)
        };
        for b in buf.iter_mut().take(k) {
            *b = c.inq.pop_front().unwrap();
        }
        c.in_read += k;
        let in_read = c.in_read;
        let evi = self.events.len();
        let mut consumed = Vec::new();
        for (i, p) in self.conns[conn].in_pkts.iter_mut().enumerate() {
            if p.t_consumed.is_none() && p.end <= in_read {
                p.t_consumed = Some(now);
                p.ev_consumed = Some(evi);
                consumed.push(i);
            }
        }
        self.io_done(conn, IoKind::Read, buf.len(), IoAns::Bytes(k));
        for idx in consumed {
            self.ev(Ev::Consumed { conn, idx });
        }
        Poll::Ready(Ok(k))
    }
}

/// The transport handed to `Session::connect`. It holds the world weakly: a handle that the
/// workload leaks with `mem::forget` must not keep the whole execution record alive.
pub struct SimIo {
    pub world: std::rc::Weak<RefCell<World>>,
    pub conn: usize,
}

impl SimIo {
    pub fn new(world: &Shared, conn: usize) -> Self {
        SimIo { world: Rc::downgrade(world), conn }
    }
}

impl Drop for SimIo {
    fn drop(&mut self) {
        if let Some(w) = self.world.upgrade() {
            if let Ok(mut w) = w.try_borrow_mut() {
                w.end_conn(self.conn);
            }
        }
    }
}

impl ErrorType for SimIo {
    type Error = SimErr;
}

impl Read for SimIo {
    async fn read(&mut self, buf: &mut [u8]) -> Result<usize, Self::Error> {
        let Some(w) = self.world.upgrade() else { return Err(SimErr(ErrKind::NotConnected)) };
        poll_fn(|_cx| w.borrow_mut().do_read(self.conn, buf)).await
    }
}

impl Write for SimIo {
    async fn write(&mut self, buf: &[u8]) -> Result<usize, Self::Error> {
        let Some(w) = self.world.upgrade() else { return Err(SimErr(ErrKind::NotConnected)) };
        poll_fn(|_cx| w.borrow_mut().do_write(self.conn, buf)).await
    }
    async fn flush(&mut self) -> Result<(), Self::Error> {
        let Some(w) = self.world.upgrade() else { return Err(SimErr(ErrKind::NotConnected)) };
        poll_fn(|_cx| w.borrow_mut().do_flush(self.conn)).await
    }
}
