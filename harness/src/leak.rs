//! C17 (second half): after everything has been acknowledged, a session that lived through a
//! long history accepts exactly the same requests as a brand-new one (probe-battery twin).

use crate::checks::*;
use crate::exec::*;
use crate::genr::*;
use crate::monitors as m;
use crate::rng::Rng;
use crate::runner::*;
use crate::steps::*;
use crate::trace::*;
use std::collections::VecDeque;

/// Measures what a quiescent, connected session accepts. Fully determined by the outcomes it sees.
pub struct Battery {
    phase: u8,
    lo: usize,
    hi: usize,
    mid: usize,
    queue: VecDeque<Step>,
    count: usize,
    awaiting: bool,
    pub transcript: Vec<String>,
    tx: usize,
}

impl Battery {
    pub fn new(tx: usize) -> Self {
        Battery { phase: 0, lo: 0, hi: tx + 1, mid: 0, queue: VecDeque::new(), count: 0, awaiting: false, transcript: vec![], tx }
    }
    fn publ(qos: u8, len: usize) -> Step {
        Step::Publish(PubSpec { topic: "b".into(), payload: PayloadSpec::Fill { len, tag: 0xBA77, ascii: false }, qos, retain: false, props: vec![], correlate: None, cancel_at: None })
    }
    fn policy(acks: AckMode) -> Step {
        Step::Broker(BrokerAct::Policy(BrokerPolicy { acks, ping: AckMode::Immediate, fail_pct: 0, longform_pct: 0 }))
    }
    fn drain(&mut self, n: usize) {
        for _ in 0..n {
            self.queue.push_back(Step::Poll { max_wait: 0, cancel_at: None });
        }
    }
}

fn last_request_outcome(v: &View<'_>) -> Option<Outcome> {
    v.log.ops.iter().rev().find(|o| matches!(o.kind, "publish0" | "publish1" | "publish2" | "subscribe")).map(|o| o.outcome.clone())
}

impl Driver for Battery {
    fn next(&mut self, v: &View<'_>) -> Option<Step> {
        loop {
            if let Some(s) = self.queue.pop_front() {
                return Some(s);
            }
            if !v.has_handle || !v.is_connected {
                self.transcript.push("handle-dead".into());
                return None;
            }
            if self.transcript.is_empty() {
                // what the session itself says it would accept (the gate an application asks
                // before it publishes), before anything is probed
                self.transcript.push(format!("can_publish = {:?}", v.can_publish));
            }
            match self.phase {
                // bisect the largest QoS 1 payload (acks immediate, so each probe is freed again)
                0 | 8 => {
                    let qos = if self.phase == 0 { 1 } else { 0 };
                    if self.awaiting {
                        self.awaiting = false;
                        let ok = matches!(last_request_outcome(v), Some(Outcome::Ok(_)));
                        self.transcript.push(format!("q{} len {} -> {}", qos, self.mid, if ok { "ok".to_string() } else { format!("{:?}", last_request_outcome(v)) }));
                        if ok {
                            self.lo = self.mid;
                        } else {
                            self.hi = self.mid;
                        }
                    } else if self.transcript.iter().all(|t| !t.starts_with(&format!("q{} len", qos))) {
                        // first probe: empty payload must be known
                        self.lo = 0;
                        self.hi = self.tx + 1;
                        self.queue.push_back(Battery::policy(AckMode::Immediate));
                    }
                    if self.hi - self.lo <= 1 {
                        self.transcript.push(format!("max q{} payload = {}", qos, self.lo));
                        // (the largest packet the arena takes has just been acknowledged)
                        self.transcript.push(format!("can_publish after the largest packet was acknowledged (held {}) = {:?}", v.snap.tx.retained.len() + v.snap.tx.release.len(), v.can_publish));
                        self.phase += 1;
                        continue;
                    }
                    self.mid = (self.lo + self.hi) / 2;
                    self.queue.push_back(Battery::publ(qos, self.mid));
                    self.drain(3);
                    self.awaiting = true;
                }
                // count minimum-size requests until refusal, acks withheld
                1 | 3 | 5 => {
                    self.queue.push_back(Battery::policy(AckMode::Hold));
                    self.count = 0;
                    self.phase += 1;
                    self.awaiting = false;
                }
                2 | 4 | 6 => {
                    let what = match self.phase {
                        2 => "q1",
                        4 => "q2",
                        _ => "sub",
                    };
                    if self.awaiting {
                        self.awaiting = false;
                        let o = last_request_outcome(v);
                        if matches!(o, Some(Outcome::Ok(_))) {
                            self.count += 1;
                        } else {
                            self.transcript.push(format!("{} accepted {} then {:?}", what, self.count, o));
                            // free everything again
                            self.queue.push_back(Battery::policy(AckMode::Immediate));
                            self.queue.push_back(Step::Broker(BrokerAct::Release { n: 99, order: Order::Fifo }));
                            self.drain(40);
                            self.phase += 1;
                            continue;
                        }
                    }
                    if self.count > 40 {
                        self.transcript.push(format!("{} accepted more than 40", what));
                        self.phase += 1;
                        continue;
                    }
                    self.queue.push_back(match self.phase {
                        2 => Battery::publ(1, 0),
                        4 => Battery::publ(2, 0),
                        _ => Step::Subscribe(SubSpec { filters: vec![FilterSpec { filter: "b".into(), max_qos: 0, no_local: false, rap: false, rh: 0 }], props: vec![], cancel_at: None }),
                    });
                    self.awaiting = true;
                }
                7 => {
                    // everything must be free again before the QoS 0 bisection
                    self.transcript.push(format!("quiescent-after-release = {}", v.snap.tx.retained.is_empty() && v.snap.tx.release.is_empty()));
                    self.transcript.push(format!("can_publish after release (held {}) = {:?}", v.snap.tx.retained.len() + v.snap.tx.release.len(), v.can_publish));
                    self.phase = 8;
                    self.awaiting = false;
                }
                _ => return None,
            }
        }
    }
}

struct Chain<A, B> {
    a: A,
    b: B,
    in_b: bool,
    pub b_from: Option<usize>,
}

impl<A: Driver, B: Driver> Driver for Chain<A, B> {
    fn next(&mut self, v: &View<'_>) -> Option<Step> {
        if !self.in_b {
            if let Some(s) = self.a.next(v) {
                return Some(s);
            }
            self.in_b = true;
            self.b_from = Some(v.log.steps.len());
        }
        self.b.next(v)
    }
}

fn churn(r: &mut Rng) -> Profile {
    let mut p = Profile::default();
    p.name = "arena-churn";
    p.w_pub = [8, 16, 12];
    p.w_sub = 3;
    p.w_unsub = 2;
    p.w_release = 22;
    p.w_poll = 24;
    p.w_drive = 6;
    p.w_drop = 2;
    p.w_forget = 0;
    p.w_into_inner = 1;
    p.w_disconnect = 0;
    p.w_bclose = 1;
    p.w_bdisc = 1;
    p.w_bpublish = 6;
    p.w_bstale = 1;
    p.w_fault = 1;
    p.ack_modes = vec![AckMode::Hold, AckMode::Hold, AckMode::Immediate];
    p.fail_pcts = vec![0, 0, 20];
    p.sp_w = [3, 10, 1];
    p.bad_connack_pct = 3;
    p.conn_fault_pct = 8;
    p.max_conns = 12;
    p.rm_choices = vec![None];
    // some brokers limit the packet size: requests above it are refused and must occupy nothing
    p.mps_choices = vec![None, None, None, Some(48), Some(120)];
    // (a broker that caps the QoS: with auto-downgrade on, publishes above the cap go out at the
    // cap - downgraded to QoS 0 they must not occupy anything)
    p.maxqos_choices = vec![None, None, None, Some(0), Some(1)];
    p.assigned_id_pct = 0;
    p.extra_connack_props_pct = 0;
    p.will_pct = 0;
    p.auth_pct = 0;
    p.downgrade_pct = 50;
    // (under Miri - about a thousand times slower - the arenas of 16 KiB and 64 KiB are left to the
    // native run: one battery on such an arena took a shard beyond half an hour)
    p.tx_choices = if cfg!(miri) { vec![64, 96, 128, 256, 512, 1024, 4096, 1024, 256] } else { vec![64, 96, 128, 256, 512, 1024, 4096, 16384, 65536] };
    p.rx_choices = vec![64, 128];
    p.payload_max = *r.pick(&[8usize, 30, 60, 200, 3000]);
    p.cancel_pct = 8;
    p
}

pub struct C17;

impl Check for C17 {
    fn id(&self) -> &'static str {
        "C17"
    }
    fn level(&self) -> &'static str {
        "exploration"
    }
    fn rule(&self) -> String {
        "(integrity) on generated arena-churn histories (arenas 64 B..64 KiB, payloads empty..arena-filling, acks released first/last/shuffled, QoS 0 publishes and reconnects interleaved) every retransmission is compared byte-wise with the first transmission, and after every step the arena copy of every retained entry (verif hook) is compared with its first transmission and the arena layout invariant is checked; (leak) twin run: the aged session is drained by the benign continuation, then a deterministic probe battery (largest QoS 1 payload by bisection, number of minimum-size QoS 1 / QoS 2 / SUBSCRIBE requests accepted with acks withheld, largest QoS 0 payload) runs on it and on a brand-new session with identical buffers; the two transcripts (which include what can_publish() says before the battery, after the largest packet was acknowledged and after everything was released) must be identical, and in either session can_publish() is true for every QoS whenever nothing is held; (send window) a window of 1, 2, 3 or 8 slots (Receive Maximum 1/2/3/8/20/absent) is filled with QoS 1/2 publishes, with SUBSCRIBE/UNSUBSCRIBE requests in between, every exchange is ended by PUBACK / PUBREC with each success and failure code (short and long form), PUBCOMP, SUBACK or UNSUBACK in any order over one to three rounds, after which exactly as many new QoS 1 publishes as the window holds must be accepted and the next one refused; an identifier appears at most once in the retained table and at most once in the release table at every snapshot; (graceful close) arenas of 48..512 bytes are filled to the brim with unacknowledged packets, the application disconnects with a DISCONNECT carrying properties sized around the remaining room (accepted or refused for lack of room) and resumes the session: what is replayed equals the first transmission. Non-trivial iff an acknowledgement removed a non-last entry (compaction moved packets) during the history; distinct = abstract traces.".into()
    }
    fn assumptions(&self) -> Vec<String> {
        let mut v: Vec<String> = COMMON_ASSUME.iter().map(|s| s.to_string()).collect();
        v.push("arena bytes are read through the verif hook (read-only)".into());
        v
    }
    fn workloads(&self) -> Vec<Workload> {
        vec![Workload { name: "arena-churn+battery", quick: 2500, thorough: 150_000 }, Workload { name: "long-history+battery", quick: 60, thorough: 3000 }, Workload { name: "send-window-recovery", quick: if cfg!(miri) { 20 } else { 1200 }, thorough: if cfg!(miri) { 20 } else { 400_000 } }, Workload { name: "graceful-close-on-a-full-arena", quick: if cfg!(miri) { 10 } else { 1500 }, thorough: if cfg!(miri) { 10 } else { 150_000 } }, Workload { name: "identifier-wrap", quick: if cfg!(miri) { 2 } else { 400 }, thorough: if cfg!(miri) { 2 } else { 40_000 } }, Workload { name: "pooled-scripts", quick: if cfg!(miri) { 2 } else { crate::checks::POOLED.0 }, thorough: if cfg!(miri) { 2 } else { crate::checks::POOLED.1 } }]
    }
    fn min_nontrivial(&self, tier: Tier) -> usize {
        if tier == Tier::Quick { 200 } else { 2000 }
    }
    fn required_counters(&self) -> Vec<&'static str> {
        vec!["compactions_moving_entries", "arena_entries_compared", "batteries_compared", "retransmissions_compared", "refused_requests_checked", "acknowledged_entries_freed", "continuations_on_a_fresh_broker_session", "send_windows_refilled", "exchanges_ended_by_a_failure_code", "windows_with_subscribe_requests_in_between", "repeated_pubrecs", "graceful_closes_with_retained_packets", "graceful_closes_refused_for_lack_of_room"]
    }
    fn run(&self, workload: usize, seed: u64, _index: u64, tier: Tier, verbose: bool) -> CaseOut {
        let mut out = CaseOut::default();
        let mut rng = Rng::new(seed);
        if workload == 2 {
            return window_recovery(&mut rng, seed, verbose);
        }
        if workload == 3 {
            return close_on_full_arena(&mut rng, seed, verbose);
        }
        if workload == 5 {
            // the scripted scenarios of the other checks, judged by the integrity rules
            let (cfg, steps) = crate::scripts::pooled_script(&mut rng, _index, tier);
            let (log, world) = crate::checks::run_script(&cfg, steps, seed);
            let w = world.borrow();
            let t = Trace::new(&log, &w);
            let nt = m::c17::check(&t, &mut out);
            crate::checks::finish_case("C17", &log, &w, &mut out, nt, verbose);
            return out;
        }
        if workload == 4 {
            // the identifier counter comes round while long-lived operations hold identifiers on
            // both sides of 65535 -> 1 (the C07 script): acknowledgements in any order still free
            // exactly their own entry, and what stays retained stays intact
            let (cfg, steps) = crate::checks::wrap_script(&mut rng, _index, tier);
            let (log, world) = crate::checks::run_script(&cfg, steps, seed);
            let w = world.borrow();
            let t = Trace::new(&log, &w);
            let nt = m::c17::check(&t, &mut out);
            out.count("histories_crossing_the_identifier_wrap", 1);
            crate::checks::finish_case("C17", &log, &w, &mut out, nt, verbose);
            return out;
        }
        let profile = churn(&mut rng);
        let cfg = {
            let mut c = gen_cfg(&mut rng, &profile);
            c.keepalive = 0;
            c
        };
        // under Miri (about 1000x slower) the histories are kept short
        let steps = if workload == 1 { if tier == Tier::Quick { 1500 } else { 10_000 } } else if cfg!(miri) { rng.range(10, 40) } else { rng.range(20, 160) };
        let mut g = Gen::new(rng.next(), profile.clone());
        g.steps_left = steps;
        if workload == 1 {
            g.p.max_conns = 200;
        }
        let mut d = Chain { a: WithEpilogue::new(g, 120), b: Battery::new(cfg.tx), in_b: false, b_from: None };
        // one continuation in three finds the broker without the session: whatever the old
        // session held (a full send window, a full arena) must be gone without residue
        d.a.force_fresh = rng.chance(1, 3);
        if d.a.force_fresh {
            out.count("continuations_on_a_fresh_broker_session", 1);
        }
        let (mut log, world) = run_case(&cfg, seed, &mut d, steps + 2000);
        log.epilogue = true;
        log.epilogue_from = d.a.from_step;
        let aged: Vec<String> = d.b.transcript.clone();
        let w = world.borrow();
        let t = Trace::new(&log, &w);
        let nt = m::c17::check(&t, &mut out);
        out.count("history_steps", log.steps.len() as u64);
        // was the aged session really drained before the battery started?
        let drained = d.b_from.and_then(|s| log.probes.iter().find(|p| p.step >= s.saturating_sub(1) && p.has_handle)).is_some_and(|p| p.quiescent && p.is_connected);
        if drained {
            // brand-new twin
            let mut fresh = Chain { a: Script::new(vec![Step::Connect(benign_connect(false))]), b: Battery::new(cfg.tx), in_b: false, b_from: None };
            let (flog, fworld) = run_case(&cfg, seed, &mut fresh, 2000);
            out.count("batteries_compared", 1);
            // absolute, for either session: with nothing held and the connection up, the
            // session says it can take a publish of every QoS (arenas here are 64 bytes and more)
            for (who, tr) in [("aged", &aged), ("brand-new", &fresh.b.transcript)] {
                for l in tr.iter().filter(|l| l.starts_with("can_publish after") && l.contains("(held 0)") && l.contains("false")) {
                    out.violations.push(viol("C17", "C17/leak/cannot-publish-on-an-empty-session", format!("{} session, transmit arena {} bytes, nothing held, connection up: `{}`", who, cfg.tx, l)));
                    break;
                }
            }
            if aged != fresh.b.transcript {
                let i = aged.iter().zip(&fresh.b.transcript).position(|(a, b)| a != b).unwrap_or(aged.len().min(fresh.b.transcript.len()));
                let what = aged.get(i).map(|s| s.split(' ').next().unwrap_or("?").to_string()).unwrap_or_else(|| "length".into());
                out.violations.push(viol("C17", format!("C17/leak/{}", what), format!("probe battery differs at line {}: aged session `{}` vs brand-new session `{}`", i, aged.get(i).cloned().unwrap_or_default(), fresh.b.transcript.get(i).cloned().unwrap_or_default())));
                if verbose {
                    println!("aged battery: {:#?}\nfresh battery: {:#?}", aged, fresh.b.transcript);
                }
            } else if out.sample.is_none() && nt {
                out.sample = Some(serde_json::json!({"cfg": cfg, "history_steps": log.steps.len(), "battery": aged}));
            }
            let _ = (flog, fworld);
        } else {
            out.count("batteries_skipped_not_drained", 1);
        }
        finish_case("C17", &log, &w, &mut out, nt, verbose);
        out
    }
}

/// C17, in-flight slots: a send window (Receive Maximum 1..8) is filled with QoS 1 / QoS 2
/// publishes, every exchange is ended in one of the ways MQTT 5 knows (PUBACK or PUBREC with a
/// success or failure code, short and long form; PUBCOMP), in any order; afterwards the session
/// must accept exactly as many publishes as the window holds, like a brand-new one.
fn window_recovery(rng: &mut Rng, seed: u64, verbose: bool) -> CaseOut {
    use crate::checks::{connect_with, poll0, pubq, run_script};
    use crate::exec::{ErrRepr, OkKind, Outcome};
    use crate::refcodec::{Prop, SPacket};
    use crate::steps::{BrokerAct, FilterSpec, SpMode, SubSpec, UnsubSpec};
    let mut out = CaseOut::default();
    let rm: Option<u16> = *rng.pick(&[Some(1u16), Some(1), Some(2), Some(3), Some(8), None, Some(20)]);
    let window = rm.map(|r| r.min(8)).unwrap_or(8) as usize;
    let cfg = CaseCfg { rx: 128, tx: 4096, keepalive: 0, ..CaseCfg::default() };
    // (half of the connections also announce a Maximum Packet Size well below the arena: a publish
    // can then be refused for the broker's sake although the arena would hold it)
    let limit: Option<u32> = if rng.chance(1, 2) { Some(1000) } else { None };
    let mut cprops = rm.map(|r| vec![Prop::ReceiveMaximum(r)]).unwrap_or_default();
    if let Some(l) = limit {
        cprops.push(Prop::MaximumPacketSize(l));
    }
    let mut steps = vec![connect_with(SpMode::Force(false), AckMode::Hold, cprops)];
    let rounds = 1 + rng.below(3);
    let mut pid = 0u16;
    let mut ended_by: Vec<String> = Vec::new();
    let codes = [0x80u8, 0x83, 0x87, 0x90, 0x91, 0x97, 0x99];
    for _ in 0..rounds {
        // fill the window (sometimes not completely)
        // (subscribe / unsubscribe requests share the table of retained packets, not the window)
        let subs = rng.below(3);
        let n = if rng.chance(1, 4) { 1 + rng.below(window) } else { window }.min(8 - subs);
        let mut open: Vec<(u16, u8)> = Vec::new();
        let mut subs_left = subs;
        for k in 0..n {
            if subs_left > 0 && rng.chance(1, 2) {
                subs_left -= 1;
                pid += 1;
                let sub = rng.chance(1, 2);
                steps.push(if sub { Step::Subscribe(SubSpec { filters: vec![FilterSpec { filter: "s/#".into(), max_qos: 1, no_local: false, rap: false, rh: 0 }], props: vec![], cancel_at: None }) } else { Step::Unsubscribe(UnsubSpec { filters: vec!["s".into()], props: vec![], cancel_at: None }) });
                open.push((pid, if sub { 8 } else { 10 }));
            }
            pid += 1;
            let qos = 1 + rng.below(2) as u8;
            steps.push(pubq(qos, "w", pid as u32, k % 3));
            open.push((pid, qos));
        }
        while subs_left > 0 {
            subs_left -= 1;
            pid += 1;
            steps.push(Step::Subscribe(SubSpec { filters: vec![FilterSpec { filter: "s/#".into(), max_qos: 1, no_local: false, rap: false, rh: 0 }], props: vec![], cancel_at: None }));
            open.push((pid, 8));
        }
        steps.push(poll0());
        rng.shuffle(&mut open);
        for (id, qos) in open {
            let fail = rng.chance(1, 2);
            let reason: Option<u8> = if fail { Some(*rng.pick(&codes)) } else { *rng.pick(&[None, Some(0u8), Some(0x10)]) };
            let props = if reason.is_some() && rng.chance(1, 4) { Some(vec![Prop::ReasonString("r".into())]) } else { None };
            if qos >= 8 {
                let code = if fail { 0x80 } else { 0 };
                steps.push(Step::Broker(BrokerAct::Send(if qos == 8 { SPacket::SubAck { pid: id, props: vec![], codes: vec![code] } } else { SPacket::UnsubAck { pid: id, props: vec![], codes: vec![code] } })));
                steps.push(poll0());
                ended_by.push(format!("{}/{:#x}", if qos == 8 { "SUBACK" } else { "UNSUBACK" }, code));
                out.count("windows_with_subscribe_requests_in_between", 1);
                continue;
            }
            if qos == 1 {
                steps.push(Step::Broker(BrokerAct::Send(SPacket::PubAck { pid: id, reason, props })));
                steps.push(poll0());
                ended_by.push(format!("PUBACK/{:?}", reason));
            } else {
                steps.push(Step::Broker(BrokerAct::Send(SPacket::PubRec { pid: id, reason, props })));
                steps.push(poll0());
                ended_by.push(format!("PUBREC/{:?}", reason));
                if !fail {
                    steps.push(poll0());
                    // a broker may repeat its PUBREC (it did not see the PUBREL yet)
                    if rng.chance(1, 4) {
                        steps.push(Step::Broker(BrokerAct::Send(SPacket::PubRec { pid: id, reason: *rng.pick(&[None, Some(0u8)]), props: None })));
                        steps.push(poll0());
                        steps.push(poll0());
                        out.count("repeated_pubrecs", 1);
                    }
                    steps.push(Step::Broker(BrokerAct::Send(SPacket::PubComp { pid: id, reason: *rng.pick(&[None, Some(0u8), Some(0x92)]), props: None })));
                    steps.push(poll0());
                }
            }
            if fail {
                out.count("exchanges_ended_by_a_failure_code", 1);
            }
        }
    }
    steps.push(poll0());
    // refill: window + 1 requests with acknowledgements withheld
    let probe_from = steps.len();
    // (every other case: requests that are refused locally - a payload closure that fails, one
    // that claims more bytes than it wrote, a payload the arena cannot hold, a packet above the
    // broker's Maximum Packet Size - are made when
    // exactly one slot of the window is free: they take none)
    let refused_in_between = rng.chance(1, 2);
    for k in 0..window + 1 {
        if refused_in_between && k + 1 == window {
            for _ in 0..1 + rng.below(2) {
                let payload = match rng.below(if limit.is_some() { 5 } else { 3 }) {
                    0 => crate::steps::PayloadSpec::Fail,
                    1 => crate::steps::PayloadSpec::Lie { claim: 5000 },
                    2 => crate::steps::PayloadSpec::Fill { len: 5000, tag: 0x9100, ascii: false },
                    // fits the arena, exceeds the broker's limit
                    _ => crate::steps::PayloadSpec::Fill { len: 1000 + rng.below(2000), tag: 0x9101, ascii: false },
                };
                steps.push(Step::Publish(crate::steps::PubSpec { topic: "refused".into(), payload, qos: 1 + rng.below(2) as u8, retain: false, props: vec![], correlate: None, cancel_at: None }));
            }
            out.count("refused_requests_with_one_slot_free", 1);
        }
        steps.push(pubq(1, "probe", 0x9000 + k as u32, 1));
    }
    let (log, world) = run_script(&cfg, steps, seed);
    let w = world.borrow();
    out.evaluations += 1;
    let probes: Vec<&crate::exec::OpRec> = log.ops.iter().filter(|o| o.step >= probe_from && o.kind == "publish1" && matches!(&log.steps[o.step], Step::Publish(p) if p.topic == "probe")).collect();
    let quiescent_before = log.ops.iter().find(|o| o.step >= probe_from).and_then(|o| o.snap_before.as_ref()).is_some_and(|sn| sn.tx.retained.is_empty() && sn.tx.release.is_empty());
    for (i, o) in log.ops.iter().enumerate() {
        for sn in [&o.snap_before, &o.snap_after].into_iter().flatten() {
            out.count("slot_tables_inspected", 1);
            if let Some(d) = crate::monitors::c17::twice(&sn.tx) {
                out.violations.push(viol("C17", "C17/slots/one-exchange-occupies-two-slots", format!("op#{} {}: {}", i, o.kind, d)));
                if verbose {
                    for l in render(&log, &w, 400) {
                        println!("{}", l);
                    }
                }
                return out;
            }
        }
    }
    if probes.len() == window + 1 && quiescent_before {
        out.count("send_windows_refilled", 1);
        let accepted = probes.iter().filter(|o| matches!(o.outcome, Outcome::Ok(OkKind::Handle(_)))).count();
        let last_refused = matches!(probes.last().unwrap().outcome, Outcome::Err(ErrRepr::NotReady | ErrRepr::InflightExhausted));
        out.key(format!("window={}/last-ended-by={}", window, ended_by.last().cloned().unwrap_or_default()));
        out.nontrivial.push(crate::trace::hash_of(&(window, ended_by.clone())));
        if accepted != window || !last_refused {
            let first_bad = probes.iter().position(|o| !matches!(o.outcome, Outcome::Ok(_))).unwrap_or(0);
            out.violations.push(viol("C17", format!("C17/leak/send-window/after-{}", ended_by.last().map(|e| e.split('/').next().unwrap_or("?").to_string()).unwrap_or_default()), format!("window of {} (Receive Maximum {:?}), every exchange ended ({:?}), nothing in flight: {} of {} new QoS 1 publishes accepted, request {} returned {:?}; a brand-new session accepts exactly {}", window, rm, ended_by, accepted, window + 1, first_bad, probes.get(first_bad).map(|o| &o.outcome), window)));
            if verbose {
                for l in render(&log, &w, 400) {
                    println!("{}", l);
                }
            }
        }
    } else if probes.len() == window + 1 && !w.watchdog_tripped && log.ops.iter().all(|o| !matches!(o.outcome, Outcome::Watchdog | Outcome::CallerTimeout | Outcome::Cancelled)) {
        // the broker ended every exchange and every call came back: whatever is still held now
        // is a slot that no acknowledgement will ever free
        let sn = log.ops.iter().find(|o| o.step >= probe_from).and_then(|o| o.snap_before.as_ref());
        out.violations.push(viol("C17", "C17/leak/entries-remain-after-every-exchange-ended", format!("window of {} (Receive Maximum {:?}), every exchange ended ({:?}) and every call returned, yet retained {:?} / release {:?} are still held", window, rm, ended_by, sn.map(|s| s.tx.retained.iter().map(|e| e.packet_id).collect::<Vec<_>>()), sn.map(|s| s.tx.release.iter().map(|e| e.packet_id).collect::<Vec<_>>()))));
        if verbose {
            for l in render(&log, &w, 400) {
                println!("{}", l);
            }
        }
    } else {
        out.count("send_window_cases_not_drained", 1);
    }
    out
}

/// C17, integrity across a graceful close: the arena is (nearly) filled with unacknowledged
/// packets, then the application disconnects with a DISCONNECT that carries properties (such a
/// packet is encoded in the free part of the arena - if there is any room), and resumes the
/// session on a new connection. Whatever the outcome of the disconnect, what is replayed is what
/// was transmitted first.
fn close_on_full_arena(rng: &mut Rng, seed: u64, verbose: bool) -> CaseOut {
    use crate::checks::{connect_with, poll0, pubq, run_script};
    use crate::refcodec::Prop;
    use crate::steps::{BrokerAct, DiscSpec, FilterSpec, Order, SpMode, SubSpec};
    let mut out = CaseOut::default();
    let tx = *rng.pick(&[48usize, 64, 96, 128, 200, 256, 512]);
    let cfg = CaseCfg { rx: 128, tx, keepalive: 0, ..CaseCfg::default() };
    let mut steps = vec![connect_with(SpMode::Force(false), AckMode::Hold, vec![])];
    // fill: requests of assorted sizes, some of them refused for lack of room
    let mut left = tx as i64;
    let mut n = 0;
    while n < 8 && left > 12 {
        let len = match rng.below(4) {
            0 => (left as usize).saturating_sub(12 + rng.below(6)),
            1 => rng.below(10),
            _ => rng.below((left as usize).min(120)),
        };
        if rng.chance(1, 6) {
            steps.push(Step::Subscribe(SubSpec { filters: vec![FilterSpec { filter: "f/#".into(), max_qos: 1, no_local: false, rap: false, rh: 0 }], props: vec![], cancel_at: None }));
            left -= 13;
        } else {
            steps.push(pubq(1 + rng.below(2) as u8, "f", n as u32, len));
            left -= len as i64 + 10;
        }
        n += 1;
    }
    steps.push(poll0());
    // now and then the oldest is acknowledged, so that the arena has a hole at its start
    if rng.chance(1, 3) {
        steps.push(Step::Broker(BrokerAct::Release { n: 1, order: Order::Fifo }));
        steps.push(poll0());
        steps.push(poll0());
    }
    let room = left.max(0) as usize;
    let props = match rng.below(5) {
        0 => vec![Prop::SessionExpiry(3600)],
        1 => vec![Prop::ReasonString("x".repeat(rng.below(room + 24)))],
        2 => vec![Prop::UserProperty("k".into(), "v".repeat(rng.below(room + 24)))],
        3 => vec![Prop::ReasonString("bye".into()), Prop::SessionExpiry(1), Prop::UserProperty("a".into(), "b".into())],
        _ => vec![Prop::ReasonString("x".repeat(room.saturating_sub(rng.below(12))))],
    };
    steps.push(Step::Disconnect(DiscSpec { reason: *rng.pick(&[None, Some(0u8), Some(4)]), props: Some(props), cancel_at: None }));
    steps.push(Step::DropConn);
    steps.push(connect_with(SpMode::Force(true), AckMode::Hold, vec![]));
    for _ in 0..n + 2 {
        steps.push(poll0());
    }
    steps.push(Step::Broker(BrokerAct::Release { n: 99, order: Order::Fifo }));
    for _ in 0..n + 2 {
        steps.push(poll0());
    }
    let (log, world) = run_script(&cfg, steps, seed);
    let w = world.borrow();
    let t = Trace::new(&log, &w);
    out.evaluations += 1;
    let nt = m::c17::check(&t, &mut out);
    let disc = log.ops.iter().find(|o| o.kind == "disconnect");
    if let Some(d) = disc {
        let held = d.snap_before.as_ref().map(|s| s.tx.retained.len()).unwrap_or(0);
        if held > 0 {
            out.count("graceful_closes_with_retained_packets", 1);
            if matches!(d.outcome, crate::exec::Outcome::Err(_)) {
                out.count("graceful_closes_refused_for_lack_of_room", 1);
            }
        }
        out.key(format!("close/{}/{:?}", tx, matches!(d.outcome, crate::exec::Outcome::Ok(_))));
    }
    finish_case("C17", &log, &w, &mut out, nt, verbose);
    out
}
