//! C20 helper: answer an inbound publish through `reply()` / `reply_owned()` and decode what
//! the resulting publication puts on the wire (on an auxiliary session, because the inbound
//! message keeps the receiving connection borrowed).

use crate::exec::*;
use crate::refcodec::{CPacket, Prop};
use crate::steps::*;
use crate::world::*;
use core::pin::pin;
use minimq::{Buffers, ConfigBuilder, InboundPublish, Property, Publication, ResourceError, Session};

pub const CAP_MENU: [usize; 6] = [0, 1, 8, 64, 1024, 65535];

fn aux_publish(p: Publication<'_, &[u8]>) -> Option<CPacket> {
    let saved_now = crate::vtime::now();
    let world = World::new(1);
    let mut rx = vec![0u8; 64];
    let mut tx = vec![0u8; 3 * 65536 + 1024];
    let mut session = Session::new(
        ConfigBuilder::new(Buffers::new(&mut rx, &mut tx))
            .client_id("aux")
            .unwrap()
            .keepalive_interval(0),
    );
    let spec = ConnectSpec::default();
    let cidx = world.borrow_mut().open_conn(&spec);
    let io = SimIo::new(&world, cidx);
    let opts = OpOpts { cancel_at: None, deadline: u64::MAX };
    let mut pend = 0;
    let conn = {
        let fut = session.connect(io);
        let fut = pin!(fut);
        match run_op(&world, fut, opts, &mut pend) {
            Ran::Done(Ok(c)) => c,
            _ => return None,
        }
    };
    let mut conn = conn;
    let sent = {
        let fut = conn.publish(p);
        let fut = pin!(fut);
        matches!(run_op(&world, fut, opts, &mut pend), Ran::Done(Ok(_)))
    };
    drop(conn);
    crate::vtime::set(saved_now);
    crate::vtime::clear_alarms();
    if !sent {
        return None;
    }
    let w = world.borrow();
    w.conns[0].out.packets.iter().find_map(|r| match &r.pkt {
        p @ CPacket::Publish { .. } => Some(p.clone()),
        _ => None,
    })
}

static DECOY: [Property<'static>; 1] = [Property::UserProperty("decoy", "decoy")];

fn owned<const T: usize, const C: usize>(
    m: &InboundPublish<'_>,
    payload: &[u8],
    user: Option<&[Property<'_>]>,
    qos: u8,
) -> (Option<Result<(), ErrRepr>>, Option<String>, Option<Vec<u8>>, Option<CPacket>) {
    match m.reply_owned::<T, C>() {
        Ok(None) => (None, None, None, None),
        Err(ResourceError::BufferTooSmall) => (Some(Err(ErrRepr::BufferTooSmall)), None, None, None),
        Err(_) => (Some(Err(ErrRepr::Other)), None, None, None),
        Ok(Some(t)) => {
            let mut p = t.publication(payload).qos(qos_of(qos));
            if let Some(u) = user {
                // one reply in three attaches a first list and then replaces it
                if (payload.len() + u.len()) % 3 == 0 {
                    p = p.properties(&DECOY);
                }
                p = p.properties(u);
            }
            let sent = aux_publish(p);
            (
                Some(Ok(())),
                Some(t.topic().to_string()),
                t.correlation_data().map(|d| d.to_vec()),
                sent,
            )
        }
    }
}

macro_rules! owned_menu {
    ($m:expr, $payload:expr, $user:expr, $qos:expr, $tc:expr, $cc:expr; $($t:literal),*) => {
        match $tc {
            $( $t => owned_c::<$t>($m, $payload, $user, $qos, $cc), )*
            _ => panic!("topic capacity {} not in menu", $tc),
        }
    };
}

fn owned_c<const T: usize>(
    m: &InboundPublish<'_>,
    payload: &[u8],
    user: Option<&[Property<'_>]>,
    qos: u8,
    cc: usize,
) -> (Option<Result<(), ErrRepr>>, Option<String>, Option<Vec<u8>>, Option<CPacket>) {
    match cc {
        0 => owned::<T, 0>(m, payload, user, qos),
        1 => owned::<T, 1>(m, payload, user, qos),
        8 => owned::<T, 8>(m, payload, user, qos),
        64 => owned::<T, 64>(m, payload, user, qos),
        1024 => owned::<T, 1024>(m, payload, user, qos),
        65535 => owned::<T, 65535>(m, payload, user, qos),
        _ => panic!("correlation capacity {} not in menu", cc),
    }
}

pub fn answer(
    m: &InboundPublish<'_>,
    msg: usize,
    mode: &ReplyMode,
    payload: &[u8],
    user_props: &Option<Vec<Prop>>,
    qos: u8,
) -> ReplyRec {
    let user: Option<Vec<Property<'_>>> = user_props.as_ref().map(|v| v.iter().map(to_property).collect());
    let (offered, helper_topic, helper_corr, sent) = match mode {
        ReplyMode::Borrowed => match m.reply(payload) {
            None => (None, None, None, None),
            Some(p) => {
                let mut p = p.qos(qos_of(qos));
                if let Some(u) = &user {
                    if (payload.len() + u.len()) % 3 == 0 {
                        p = p.properties(&DECOY);
                    }
                    p = p.properties(u);
                }
                (
                    Some(Ok(())),
                    m.response_topic().map(|s| s.to_string()),
                    m.correlation_data().map(|d| d.to_vec()),
                    aux_publish(p),
                )
            }
        },
        ReplyMode::Owned { topic_cap, corr_cap } => {
            owned_menu!(m, payload, user.as_deref(), qos, *topic_cap, *corr_cap; 0, 1, 8, 64, 1024, 65535)
        }
    };
    ReplyRec {
        msg,
        mode: mode.clone(),
        offered,
        helper_topic,
        helper_corr,
        sent,
        payload: payload.to_vec(),
        user_props: user_props.clone(),
    }
}
