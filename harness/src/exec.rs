//! Executes workload steps against the real `minimq::Session` / `Connection`.

use crate::refcodec::Prop;
use crate::steps::*;
use crate::vtime;
use crate::world::*;
use core::future::Future;
use core::pin::{Pin, pin};
use core::task::{Context, Poll, Waker};
use minimq::verif::VerifSnapshot;
use minimq::{
    Buffers, ConfigBuilder, ConnectEvent, Connection, Disconnect, Error, InboundPublish, Op,
    PeerError, Property, PubError, Publication, QoS, ReasonCode, ResourceError, RetainHandling,
    Session, SubscriptionOptions, TopicFilter, Will,
};
use serde::Serialize;

pub type Snap = VerifSnapshot;

#[derive(Clone, Debug, PartialEq, Eq, Serialize, Hash)]
pub enum ErrRepr {
    NotReady,
    Disconnected,
    InvalidRequest,
    Rejected(u8),
    InvalidPacket,
    BufferTooSmall,
    PacketTooLarge,
    InflightExhausted,
    Transport(ErrKind),
    WriteZero,
    Payload,
    Other,
}

#[derive(Clone, Debug, PartialEq, Eq, Serialize)]
pub enum OkKind {
    Connected,
    Reconnected,
    /// index into RunLog::handles
    Handle(usize),
    NoHandle,
    None,
    Msg(usize),
    Unit,
}

#[derive(Clone, Debug, PartialEq, Eq, Serialize)]
pub enum Outcome {
    Ok(OkKind),
    Err(ErrRepr),
    Cancelled,
    CallerTimeout,
    Watchdog,
    /// the step could not be issued (no connection handle)
    Skipped,
}

impl Outcome {
    pub fn is_err(&self, e: &ErrRepr) -> bool {
        matches!(self, Outcome::Err(x) if x == e)
    }
}

pub fn err_repr(e: &Error<SimErr>) -> ErrRepr {
    match e {
        Error::NotReady => ErrRepr::NotReady,
        Error::Disconnected => ErrRepr::Disconnected,
        Error::InvalidRequest => ErrRepr::InvalidRequest,
        Error::Peer(PeerError::Rejected(c)) => ErrRepr::Rejected(u8::from(*c)),
        Error::Peer(PeerError::InvalidPacket) => ErrRepr::InvalidPacket,
        Error::Resource(ResourceError::BufferTooSmall) => ErrRepr::BufferTooSmall,
        Error::Resource(ResourceError::PacketTooLarge) => ErrRepr::PacketTooLarge,
        Error::Resource(ResourceError::InflightExhausted) => ErrRepr::InflightExhausted,
        Error::Transport(e) => ErrRepr::Transport(e.0),
        Error::WriteZero => ErrRepr::WriteZero,
        _ => ErrRepr::Other,
    }
}

#[derive(Clone, Debug, Serialize)]
pub struct OpRec {
    pub step: usize,
    pub kind: &'static str,
    pub conn: Option<usize>,
    pub t_call: u64,
    pub t_ret: u64,
    pub outcome: Outcome,
    pub pendings: usize,
    pub ev_call: usize,
    pub ev_ret: usize,
    pub touches_before: usize,
    pub touches_after: usize,
    pub out_before: usize,
    pub out_after: usize,
    pub pkts_before: usize,
    pub pkts_after: usize,
    /// packet ids newly present in the retained list after the call (hook)
    pub new_retained: Vec<u16>,
    #[serde(skip)]
    pub snap_before: Option<Snap>,
    #[serde(skip)]
    pub snap_after: Option<Snap>,
    /// was the handle live (is_connected) when the call was made
    pub live_before: bool,
    pub live_after: bool,
}

#[derive(Clone, Debug, Serialize)]
pub struct HandleRec {
    pub op: usize,
    pub kind: &'static str,
    pub conn: usize,
    pub pid: Option<u16>,
}

#[derive(Clone, Debug, Serialize, PartialEq, Eq)]
pub struct MsgRec {
    pub conn: usize,
    pub op: usize,
    pub topic: String,
    pub payload: Vec<u8>,
    pub qos: u8,
    pub retain: bool,
    pub props: Vec<Result<Prop, ()>>,
    pub response_topic: Option<String>,
    pub correlation: Option<Vec<u8>>,
}

#[derive(Clone, Debug, Serialize)]
pub struct ProbeRec {
    pub t: u64,
    /// index of this probe's event in the global event list
    pub ev: usize,
    pub step: usize,
    pub conn: Option<usize>,
    pub has_handle: bool,
    pub is_connected: bool,
    pub can_publish: [bool; 3],
    pub quiescent: bool,
    /// per handle: bit0 pending, bit1 complete, bit2 invalidated
    pub status: Vec<u8>,
    /// the same through `Connection::is_pending/..` (None when there is no handle)
    pub status_conn: Option<Vec<u8>>,
    #[serde(skip)]
    pub snap: Option<Snap>,
    pub touches: usize,
    /// arena bytes of every retained entry (hook), in retained order
    #[serde(skip)]
    pub arena: Vec<(u16, Vec<u8>)>,
}

#[derive(Clone, Debug, Serialize)]
pub struct ReplyRec {
    pub msg: usize,
    pub mode: ReplyMode,
    /// None: helper offered no reply; Some(Err): owned copy reported an error
    pub offered: Option<Result<(), ErrRepr>>,
    pub helper_topic: Option<String>,
    pub helper_corr: Option<Vec<u8>>,
    /// decoded PUBLISH produced from the reply publication (on an auxiliary session)
    pub sent: Option<crate::refcodec::CPacket>,
    pub payload: Vec<u8>,
    pub user_props: Option<Vec<Prop>>,
}

#[derive(Default)]
pub struct RunLog {
    pub cfg: CaseCfg,
    pub steps: Vec<Step>,
    pub ops: Vec<OpRec>,
    pub handles: Vec<HandleRec>,
    pub msgs: Vec<MsgRec>,
    pub probes: Vec<ProbeRec>,
    pub replies: Vec<ReplyRec>,
    pub setup_error: Option<String>,
    /// buffer sizes as the library reports them: (ConfigBuilder::rx_len, tx_len, Session::max_rx_packet_size, max_tx_packet_size)
    pub reported_sizes: Option<(usize, usize, usize, usize)>,
    /// the session was configured from one backing buffer (`ConfigBuilder::from_buffer`)
    pub from_one_buffer: bool,
    /// the program ended with the benign continuation (reconnect + poll until idle)
    pub epilogue: bool,
    /// the generator was allowed to make the broker violate the protocol
    pub hostile: bool,
    /// index of the first step of the benign continuation
    pub epilogue_from: Option<usize>,
    /// first step of the part of the benign continuation that stays on the live connection
    pub stay_from: Option<usize>,
    pub epilogue_polls_max: usize,
}

static DECOY_PROPS: [Property<'static>; 2] = [Property::UserProperty("decoy", "decoy"), Property::MessageExpiryInterval(7)];

pub fn to_property<'a>(p: &'a Prop) -> Property<'a> {
    match p {
        Prop::PayloadFormat(v) => Property::PayloadFormatIndicator(*v),
        Prop::MessageExpiry(v) => Property::MessageExpiryInterval(*v),
        Prop::ContentType(s) => Property::ContentType(s),
        Prop::ResponseTopic(s) => Property::ResponseTopic(s),
        Prop::CorrelationData(d) => Property::CorrelationData(d),
        Prop::SubscriptionId(v) => Property::SubscriptionIdentifier(*v),
        Prop::SessionExpiry(v) => Property::SessionExpiryInterval(*v),
        Prop::AssignedClientId(s) => Property::AssignedClientIdentifier(s),
        Prop::ServerKeepAlive(v) => Property::ServerKeepAlive(*v),
        Prop::AuthMethod(s) => Property::AuthenticationMethod(s),
        Prop::AuthData(d) => Property::AuthenticationData(d),
        Prop::RequestProblemInfo(v) => Property::RequestProblemInformation(*v),
        Prop::WillDelay(v) => Property::WillDelayInterval(*v),
        Prop::RequestResponseInfo(v) => Property::RequestResponseInformation(*v),
        Prop::ResponseInfo(s) => Property::ResponseInformation(s),
        Prop::ServerReference(s) => Property::ServerReference(s),
        Prop::ReasonString(s) => Property::ReasonString(s),
        Prop::ReceiveMaximum(v) => Property::ReceiveMaximum(*v),
        Prop::TopicAliasMaximum(v) => Property::TopicAliasMaximum(*v),
        Prop::TopicAlias(v) => Property::TopicAlias(*v),
        Prop::MaximumQoS(v) => Property::MaximumQoS(*v),
        Prop::RetainAvailable(v) => Property::RetainAvailable(*v),
        Prop::UserProperty(k, v) => Property::UserProperty(k, v),
        Prop::MaximumPacketSize(v) => Property::MaximumPacketSize(*v),
        Prop::WildcardSubAvailable(v) => Property::WildcardSubscriptionAvailable(*v),
        Prop::SubIdAvailable(v) => Property::SubscriptionIdentifierAvailable(*v),
        Prop::SharedSubAvailable(v) => Property::SharedSubscriptionAvailable(*v),
    }
}

pub fn from_property(p: &Property<'_>) -> Prop {
    match p {
        Property::PayloadFormatIndicator(v) => Prop::PayloadFormat(*v),
        Property::MessageExpiryInterval(v) => Prop::MessageExpiry(*v),
        Property::ContentType(s) => Prop::ContentType(s.to_string()),
        Property::ResponseTopic(s) => Prop::ResponseTopic(s.to_string()),
        Property::CorrelationData(d) => Prop::CorrelationData(d.to_vec()),
        Property::SubscriptionIdentifier(v) => Prop::SubscriptionId(*v),
        Property::SessionExpiryInterval(v) => Prop::SessionExpiry(*v),
        Property::AssignedClientIdentifier(s) => Prop::AssignedClientId(s.to_string()),
        Property::ServerKeepAlive(v) => Prop::ServerKeepAlive(*v),
        Property::AuthenticationMethod(s) => Prop::AuthMethod(s.to_string()),
        Property::AuthenticationData(d) => Prop::AuthData(d.to_vec()),
        Property::RequestProblemInformation(v) => Prop::RequestProblemInfo(*v),
        Property::WillDelayInterval(v) => Prop::WillDelay(*v),
        Property::RequestResponseInformation(v) => Prop::RequestResponseInfo(*v),
        Property::ResponseInformation(s) => Prop::ResponseInfo(s.to_string()),
        Property::ServerReference(s) => Prop::ServerReference(s.to_string()),
        Property::ReasonString(s) => Prop::ReasonString(s.to_string()),
        Property::ReceiveMaximum(v) => Prop::ReceiveMaximum(*v),
        Property::TopicAliasMaximum(v) => Prop::TopicAliasMaximum(*v),
        Property::TopicAlias(v) => Prop::TopicAlias(*v),
        Property::MaximumQoS(v) => Prop::MaximumQoS(*v),
        Property::RetainAvailable(v) => Prop::RetainAvailable(*v),
        Property::UserProperty(k, v) => Prop::UserProperty(k.to_string(), v.to_string()),
        Property::MaximumPacketSize(v) => Prop::MaximumPacketSize(*v),
        Property::WildcardSubscriptionAvailable(v) => Prop::WildcardSubAvailable(*v),
        Property::SubscriptionIdentifierAvailable(v) => Prop::SubIdAvailable(*v),
        Property::SharedSubscriptionAvailable(v) => Prop::SharedSubAvailable(*v),
    }
}

pub fn qos_of(q: u8) -> QoS {
    match q {
        0 => QoS::AtMostOnce,
        1 => QoS::AtLeastOnce,
        _ => QoS::ExactlyOnce,
    }
}

fn copy_msg(m: &InboundPublish<'_>, conn: usize, op: usize) -> MsgRec {
    MsgRec {
        conn,
        op,
        topic: m.topic().to_string(),
        payload: m.payload().to_vec(),
        qos: m.qos() as u8,
        retain: m.retained(),
        props: m
            .properties()
            .iter()
            .map(|p| p.map(|p| from_property(&p)).map_err(|_| ()))
            .collect(),
        response_topic: m.response_topic().map(|s| s.to_string()),
        correlation: m.correlation_data().map(|d| d.to_vec()),
    }
}

pub enum Ran<T> {
    Done(T),
    Cancelled,
    CallerTimeout,
    Watchdog,
}

#[derive(Clone, Copy)]
pub struct OpOpts {
    pub cancel_at: Option<usize>,
    pub deadline: u64,
}

/// Poll one operation future to completion under the virtual-time / fault-injection regime.
pub fn run_op<F: Future>(world: &Shared, mut fut: Pin<&mut F>, opts: OpOpts, pendings: &mut usize) -> Ran<F::Output> {
    let mut cx = Context::from_waker(Waker::noop());
    vtime::clear_alarms();
    world.borrow_mut().begin_op();
    loop {
        vtime::yielded();
        let polled = fut.as_mut().poll(&mut cx);
        if vtime::take_spun() {
            let mut w = world.borrow_mut();
            w.clock_spin = true;
            w.ev(Ev::ClockSpin);
        }
        match polled {
            Poll::Ready(v) => return Ran::Done(v),
            Poll::Pending => {
                let why = world.borrow_mut().pend_why.take();
                *pendings += 1;
                if opts.cancel_at == Some(*pendings) {
                    world.borrow_mut().cancel_io();
                    return Ran::Cancelled;
                }
                match why {
                    Some(PendWhy::Injected) => continue,
                    Some(PendWhy::Frozen) => {
                        world.borrow_mut().cancel_io();
                        return Ran::Watchdog;
                    }
                    Some(PendWhy::ReadEmpty) | None => {
                        let now = vtime::now();
                        let nb = world.borrow().next_scheduled();
                        let nt = vtime::next_alarm();
                        let next = match (nb, nt) {
                            (Some(a), Some(b)) => Some(a.min(b)),
                            (a, b) => a.or(b),
                        };
                        match next {
                            None => {
                                // nothing is scheduled and the client armed no timer: a caller
                                // that waits for a bounded time has waited that long
                                if opts.deadline != u64::MAX && opts.deadline > now {
                                    vtime::advance_to(opts.deadline);
                                    world.borrow_mut().ev(Ev::Time { from: now, to: vtime::now() });
                                }
                                world.borrow_mut().cancel_io();
                                return Ran::CallerTimeout;
                            }
                            Some(t) if t > opts.deadline => {
                                let from = now;
                                vtime::advance_to(opts.deadline);
                                world.borrow_mut().ev(Ev::Time { from, to: vtime::now() });
                                world.borrow_mut().cancel_io();
                                return Ran::CallerTimeout;
                            }
                            Some(t) => {
                                let from = now;
                                // a timer of the client is what comes next: it fires a little late
                                let lat = world.borrow().timer_latency_us;
                                let t = if lat > 0 && nt == Some(t) && nb.is_none_or(|b| b > t) { t.saturating_add(lat).min(nb.unwrap_or(u64::MAX)).min(opts.deadline.max(t)) } else { t };
                                vtime::advance_to(t.max(now));
                                if vtime::now() != from {
                                    world.borrow_mut().ev(Ev::Time { from, to: vtime::now() });
                                }
                                let before = world.borrow().conns.last().map(|c| c.in_enq).unwrap_or(0);
                                world.borrow_mut().deliver_due();
                                // a sluggish executor polls the woken task only a while later
                                let (delay, arrived) = {
                                    let w = world.borrow();
                                    (w.wake_delay_us, w.conns.last().map(|c| c.in_enq).unwrap_or(0) > before)
                                };
                                if delay > 0 && arrived {
                                    let from = vtime::now();
                                    vtime::advance_to(from.saturating_add(delay).min(opts.deadline.max(from)));
                                    if vtime::now() != from {
                                        let mut w = world.borrow_mut();
                                        let conn = w.conns.len() - 1;
                                        w.ev(Ev::Time { from, to: vtime::now() });
                                        w.ev(Ev::LateWake { conn, from, to: vtime::now() });
                                    }
                                }
                            }
                        }
                    }
                }
            }
        }
    }
}

pub trait Driver {
    fn next(&mut self, view: &View<'_>) -> Option<Step>;
}

pub struct View<'a> {
    pub world: &'a World,
    pub log: &'a RunLog,
    pub has_handle: bool,
    pub is_connected: bool,
    pub snap: &'a Snap,
    pub can_publish: [bool; 3],
}

/// Replays a fixed list of steps.
pub struct Script {
    pub steps: std::collections::VecDeque<Step>,
}
impl Script {
    pub fn new(steps: Vec<Step>) -> Self {
        Script { steps: steps.into() }
    }
}
impl Driver for Script {
    fn next(&mut self, _view: &View<'_>) -> Option<Step> {
        self.steps.pop_front()
    }
}


pub enum ReleaseHow {
    Drop,
    Forget,
    IntoInner,
}

pub struct Exec<'d> {
    pub world: Shared,
    pub log: RunLog,
    driver: &'d mut dyn Driver,
    ops: Vec<Op>,
    pushback: Option<Step>,
    step_idx: usize,
    pub max_steps: usize,
}

type Conn<'a, 'buf> = Connection<'a, 'buf, SimIo>;

enum AfterStep {
    Continue,
    Release(ReleaseHow),
}

macro_rules! run_conn_op {
    ($self:ident, $conn:ident, $kind:expr, $opts:expr, $fut:expr) => {{
        let snap = $conn.session().verif_snapshot();
        let live = $conn.is_connected();
        let op = $self.begin_op($kind, snap, live);
        let mut pend = 0usize;
        let ran = {
            let fut = $fut;
            let fut = pin!(fut);
            run_op(&$self.world, fut, $opts, &mut pend)
        };
        (op, ran, pend)
    }};
}

fn outcome_of<T>(ran: Ran<Result<T, ErrRepr>>, ok: impl FnOnce(T) -> OkKind) -> Outcome {
    match ran {
        Ran::Done(Ok(v)) => Outcome::Ok(ok(v)),
        Ran::Done(Err(e)) => Outcome::Err(e),
        Ran::Cancelled => Outcome::Cancelled,
        Ran::CallerTimeout => Outcome::CallerTimeout,
        Ran::Watchdog => Outcome::Watchdog,
    }
}

fn pub_err<P>(e: PubError<P, SimErr>) -> ErrRepr {
    match e {
        PubError::Session(e) => err_repr(&e),
        PubError::Payload(_) => ErrRepr::Payload,
    }
}

impl<'d> Exec<'d> {
    pub fn new(world: Shared, cfg: CaseCfg, driver: &'d mut dyn Driver, max_steps: usize) -> Self {
        Exec {
            world,
            log: RunLog { cfg, ..RunLog::default() },
            driver,
            ops: Vec::new(),
            pushback: None,
            step_idx: 0,
            max_steps,
        }
    }

    fn cur_conn(&self) -> Option<usize> {
        self.world.borrow().conns.len().checked_sub(1)
    }

    fn conn_counters(&self) -> (usize, usize, usize) {
        let w = self.world.borrow();
        match w.conns.last() {
            Some(c) => (c.touches, c.out.bytes.len(), c.out.packets.len()),
            None => (0, 0, 0),
        }
    }

    fn next_step(&mut self, session: &Session<'_>, conn: Option<&Conn<'_, '_>>) -> Option<Step> {
        if let Some(s) = self.pushback.take() {
            return Some(s);
        }
        if self.log.steps.len() >= self.max_steps {
            return None;
        }
        let snap = session.verif_snapshot();
        let (has_handle, is_connected, can_publish) = match conn {
            Some(c) => (
                true,
                c.is_connected(),
                [
                    c.can_publish(QoS::AtMostOnce),
                    c.can_publish(QoS::AtLeastOnce),
                    c.can_publish(QoS::ExactlyOnce),
                ],
            ),
            None => (false, false, [false; 3]),
        };
        // A client that spins inside one call will do so in every later call too: after a few
        // exhausted I/O budgets the case ends, so that its event log stays bounded.
        if self.world.borrow().watchdog_trips >= 3 {
            return None;
        }
        let s = {
            let w = self.world.borrow();
            let view = View {
                world: &w,
                log: &self.log,
                has_handle,
                is_connected,
                snap: &snap,
                can_publish,
            };
            self.driver.next(&view)?
        };
        self.log.steps.push(s.clone());
        self.step_idx = self.log.steps.len() - 1;
        let idx = self.step_idx;
        self.world.borrow_mut().ev(Ev::Step { idx });
        Some(s)
    }

    fn probe(&mut self, session: &Session<'_>, conn: Option<&Conn<'_, '_>>) {
        let status = self
            .ops
            .iter()
            .map(|op| {
                (session.is_pending(op) as u8)
                    | ((session.is_complete(op) as u8) << 1)
                    | ((session.is_invalidated(op) as u8) << 2)
            })
            .collect();
        // the same question asked through the connection handle (when there is one)
        let status_conn: Option<Vec<u8>> = conn.map(|c| {
            self.ops
                .iter()
                .map(|op| (c.is_pending(op) as u8) | ((c.is_complete(op) as u8) << 1) | ((c.is_invalidated(op) as u8) << 2))
                .collect()
        });
        let (touches, _, _) = self.conn_counters();
        let ev_index = self.world.borrow().events.len();
        let rec = ProbeRec {
            t: vtime::now(),
            ev: ev_index,
            step: self.step_idx,
            conn: self.cur_conn(),
            has_handle: conn.is_some(),
            is_connected: conn.is_some_and(|c| c.is_connected()),
            can_publish: match conn {
                Some(c) => [
                    c.can_publish(QoS::AtMostOnce),
                    c.can_publish(QoS::AtLeastOnce),
                    c.can_publish(QoS::ExactlyOnce),
                ],
                None => [false; 3],
            },
            quiescent: session.is_publish_quiescent(),
            status,
            status_conn,
            snap: Some(session.verif_snapshot()),
            touches,
            arena: {
                let s = session.verif_snapshot();
                s.tx.retained.iter().map(|e| (e.packet_id, session.verif_tx_bytes(e.offset, e.len).to_vec())).collect()
            },
        };
        self.log.probes.push(rec);
        let idx = self.log.probes.len() - 1;
        self.world.borrow_mut().ev(Ev::Probe { idx });
    }

    fn begin_op(&mut self, kind: &'static str, snap: Snap, live: bool) -> usize {
        let (touches, out, pkts) = self.conn_counters();
        let op = self.log.ops.len();
        let ev_call = self.world.borrow_mut().ev(Ev::OpCall { op });
        self.log.ops.push(OpRec {
            step: self.step_idx,
            kind,
            conn: self.cur_conn(),
            t_call: vtime::now(),
            t_ret: 0,
            outcome: Outcome::Skipped,
            pendings: 0,
            ev_call,
            ev_ret: 0,
            touches_before: touches,
            touches_after: touches,
            out_before: out,
            out_after: out,
            pkts_before: pkts,
            pkts_after: pkts,
            new_retained: vec![],
            snap_before: Some(snap),
            snap_after: None,
            live_before: live,
            live_after: live,
        });
        op
    }

    fn end_op(&mut self, op: usize, outcome: Outcome, pendings: usize, snap: Snap, live: bool) {
        let (touches, out, pkts) = self.conn_counters();
        let ev_ret = self.world.borrow_mut().ev(Ev::OpRet { op });
        let r = &mut self.log.ops[op];
        r.t_ret = vtime::now();
        r.outcome = outcome;
        r.pendings = pendings;
        r.ev_ret = ev_ret;
        r.touches_after = touches;
        r.out_after = out;
        r.pkts_after = pkts;
        // publish/subscribe/unsubscribe never read, so the retained list can only grow by the
        // request's own entry (pushed at the end) during such a call
        let before_len = r.snap_before.as_ref().map(|s| s.tx.retained.len()).unwrap_or(0);
        let same_gen = r.snap_before.as_ref().is_some_and(|s| s.generation == snap.generation);
        r.new_retained = if same_gen
            && matches!(r.kind, "publish0" | "publish1" | "publish2" | "subscribe" | "unsubscribe")
            && snap.tx.retained.len() > before_len
        {
            snap.tx.retained[before_len..].iter().map(|e| e.packet_id).collect()
        } else {
            vec![]
        };
        r.snap_after = Some(snap);
        r.live_after = live;
    }

    fn add_handle(&mut self, h: Op, op: usize, kind: &'static str) -> usize {
        self.ops.push(h);
        let pid = self.log.ops[op].new_retained.first().copied();
        // A packet acknowledged inside the same call never shows up as retained afterwards:
        // recover the identifier from the wire instead.
        let pid = pid.or_else(|| {
            let w = self.world.borrow();
            let c = w.conns.last()?;
            let r = &self.log.ops[op];
            c.out.packets[r.pkts_before.min(c.out.packets.len())..]
                .iter()
                .rev()
                .find_map(|p| match (&p.pkt, kind) {
                    (crate::refcodec::CPacket::Publish { pid: Some(pid), dup: false, .. }, "publish1" | "publish2") => Some(*pid),
                    (crate::refcodec::CPacket::Subscribe { pid, .. }, "subscribe") => Some(*pid),
                    (crate::refcodec::CPacket::Unsubscribe { pid, .. }, "unsubscribe") => Some(*pid),
                    _ => None,
                })
        });
        self.log.handles.push(HandleRec {
            op,
            kind,
            conn: self.cur_conn().unwrap_or(0),
            pid,
        });
        self.log.handles.len() - 1
    }

    fn skipped(&mut self, kind: &'static str, session: &Session<'_>) {
        let snap = session.verif_snapshot();
        let op = self.begin_op(kind, snap.clone(), false);
        self.end_op(op, Outcome::Skipped, 0, snap, false);
    }

    /// Run a whole case. `session` is built by the caller so its buffers outlive everything.
    pub fn run(&mut self, session: &mut Session<'_>) {
        loop {
            self.probe(session, None);
            let Some(step) = self.next_step(session, None) else { return };
            match step {
                Step::Connect(spec) => {
                    let cidx = self.world.borrow_mut().open_conn(&spec);
                    let io = SimIo::new(&self.world, cidx);
                    let snap = session.verif_snapshot();
                    let op = self.begin_op("connect", snap, false);
                    let mut pend = 0usize;
                    let opts = OpOpts { cancel_at: spec.cancel_at, deadline: u64::MAX };
                    let ran = {
                        let fut = session.connect(io);
                        let fut = pin!(fut);
                        run_op(&self.world, fut, opts, &mut pend)
                    };
                    match ran {
                        Ran::Done(Ok(conn)) => {
                            let ev = conn.connect_event();
                            let snap = conn.session().verif_snapshot();
                            let ok = if ev == ConnectEvent::Connected { OkKind::Connected } else { OkKind::Reconnected };
                            self.end_op(op, Outcome::Ok(ok), pend, snap, true);
                            self.connected(conn);
                        }
                        Ran::Done(Err(e)) => {
                            let snap = session.verif_snapshot();
                            self.end_op(op, Outcome::Err(err_repr(&e)), pend, snap, false);
                            self.world.borrow_mut().end_conn(cidx);
                        }
                        other => {
                            let outcome = match other {
                                Ran::Cancelled => Outcome::Cancelled,
                                Ran::CallerTimeout => Outcome::CallerTimeout,
                                _ => Outcome::Watchdog,
                            };
                            let snap = session.verif_snapshot();
                            self.end_op(op, outcome, pend, snap, false);
                            self.world.borrow_mut().end_conn(cidx);
                        }
                    }
                }
                Step::Advance(dt) => {
                    let from = vtime::now();
                    vtime::advance_to(from + dt);
                    self.world.borrow_mut().ev(Ev::Time { from, to: from + dt });
                }
                Step::SetNextPid(p) => session.verif_set_next_packet_id(p),
                Step::Broker(BrokerAct::AfterNextConnack(v)) => self.world.borrow_mut().pipelined = v,
                Step::Broker(_) | Step::Io { .. } => {}
                other => self.skipped(other.kind(), session),
            }
        }
    }

    fn connected<'a, 'buf>(&mut self, mut conn: Conn<'a, 'buf>) {
        loop {
            self.probe(conn.session(), Some(&conn));
            let Some(step) = self.next_step(conn.session(), Some(&conn)) else {
                drop(conn);
                return;
            };
            match self.connected_step(&mut conn, step) {
                AfterStep::Continue => {}
                AfterStep::Release(how) => {
                    match how {
                        ReleaseHow::Forget => {
                            let c = self.cur_conn();
                            core::mem::forget(conn);
                            if let Some(c) = c {
                                self.world.borrow_mut().end_conn(c);
                            }
                        }
                        ReleaseHow::IntoInner => drop(conn.into_inner()),
                        ReleaseHow::Drop => drop(conn),
                    }
                    return;
                }
            }
        }
    }

    fn connected_step(&mut self, conn: &mut Conn<'_, '_>, step: Step) -> AfterStep {
        let cidx = self.cur_conn().unwrap();
        match step {
            Step::Connect(_) => {
                // implicit drop of the current handle, then connect again
                self.pushback = Some(step);
                self.log.steps.pop();
                return AfterStep::Release(ReleaseHow::Drop);
            }
            Step::DropConn => return AfterStep::Release(ReleaseHow::Drop),
            Step::ForgetConn => return AfterStep::Release(ReleaseHow::Forget),
            Step::IntoInner => return AfterStep::Release(ReleaseHow::IntoInner),
            Step::Advance(dt) => {
                let from = vtime::now();
                vtime::advance_to(from + dt);
                let mut w = self.world.borrow_mut();
                w.ev(Ev::Time { from, to: from + dt });
                w.deliver_due();
            }
            Step::SetNextPid(_) => {}
            Step::BurnIds(n) => {
                let opts = OpOpts { cancel_at: None, deadline: u64::MAX };
                let (op, ran, pend) = run_conn_op!(self, conn, "burn", opts, async {
                    let mut last = Ok(None);
                    for _ in 0..n {
                        let p = Publication::new("burn", |_b: &mut [u8]| -> Result<usize, ()> { Err(()) }).qos(QoS::AtLeastOnce);
                        last = conn.publish(p).await.map_err(pub_err);
                        // each refused publish is a call of its own as far as the clock watchdog goes
                        vtime::yielded();
                        if !matches!(last, Err(ErrRepr::Payload)) {
                            break;
                        }
                    }
                    last
                });
                let snap = conn.session().verif_snapshot();
                let live = conn.is_connected();
                self.end_op(op, outcome_of(ran, |_| OkKind::NoHandle), pend, snap, live);
            }
            Step::Io { policy, faults } => {
                let mut w = self.world.borrow_mut();
                let c = &mut w.conns[cidx];
                if let Some(p) = policy {
                    c.policy = p;
                }
                c.faults.extend(faults);
            }
            Step::Broker(act) => {
                let mut w = self.world.borrow_mut();
                if !w.conns[cidx].ended {
                    match act {
                        BrokerAct::Release { n, order } => {
                            w.release_held(n, order);
                        }
                        BrokerAct::Send(p) => w.send_now(cidx, p),
                        BrokerAct::SendRaw(b) => w.send_raw(cidx, b),
                        BrokerAct::Close => w.conns[cidx].close_after_drain = true,
                        BrokerAct::Behave => {
                            w.wake_delay_us = 0;
                            w.timer_latency_us = 0;
                            let c = &mut w.conns[cidx];
                            c.faults.clear();
                            c.gates.clear();
                            c.wgates.clear();
                            c.policy = IoPolicy::default();
                            c.broker = BrokerPolicy::default();
                            w.release_held(usize::MAX, Order::Fifo);
                        }
                        BrokerAct::Policy(p) => w.conns[cidx].broker = p,
                        BrokerAct::WakeDelay(us) => w.wake_delay_us = us,
                        BrokerAct::TimerLatency(us) => w.timer_latency_us = us,
                        BrokerAct::AfterNextConnack(v) => w.pipelined = v,
                        BrokerAct::WriteGate { after, blocks } => {
                            let c = &mut w.conns[cidx];
                            let offset = c.out.bytes.len() + after;
                            c.wgates.push(crate::world::Gate { offset, blocks: blocks.max(1) });
                        }
                        BrokerAct::Gate { after, blocks } => {
                            // one stall at a time: a new one only once the previous one lies inside data that was sent
                            let c = &mut w.conns[cidx];
                            let offset = c.in_enq + after;
                            if !c.gates.iter().any(|g| g.offset >= c.in_enq) {
                                c.gates.push(crate::world::Gate { offset, blocks: blocks.max(1) });
                            }
                        }
                    }
                }
            }
            Step::Publish(spec) => {
                let props: Vec<Property<'_>> = spec.props.iter().map(to_property).collect();
                let kind = match spec.qos {
                    0 => "publish0",
                    1 => "publish1",
                    _ => "publish2",
                };
                let opts = OpOpts { cancel_at: spec.cancel_at, deadline: u64::MAX };
                let body = spec.payload.bytes();
                let (op, ran, pend) = run_conn_op!(self, conn, kind, opts, async {
                    macro_rules! finish {
                        ($payload:expr) => {{
                            let mut p = Publication::new(spec.topic.as_str(), $payload).qos(qos_of(spec.qos));
                            if spec.retain {
                                p = p.retain();
                            }
                            // both builder orders occur (decided by the request itself, so replays agree)
                            let correlate_first = spec.correlate.as_ref().is_some_and(|c| (c.len() + spec.topic.len()) % 2 == 1);
                            if correlate_first {
                                p = p.correlate(spec.correlate.as_ref().unwrap());
                            }
                            // one request in four sets everything twice, the way a builder is used
                            // when defaults are overridden: the later call wins
                            let twice = (spec.topic.len() + props.len() + body.len()) % 4 == 0;
                            if twice {
                                p = p.properties(&DECOY_PROPS).qos(qos_of((spec.qos + 1) % 3)).qos(qos_of(spec.qos));
                                if spec.correlate.is_some() && !correlate_first {
                                    p = p.correlate(b"decoy");
                                }
                            }
                            if !props.is_empty() || spec.correlate.is_none() || twice {
                                p = p.properties(&props);
                            }
                            if let (Some(c), false) = (&spec.correlate, correlate_first) {
                                p = p.correlate(c);
                            }
                            conn.publish(p).await.map_err(pub_err)
                        }};
                    }
                    match &spec.payload {
                        PayloadSpec::Bytes(_) | PayloadSpec::Fill { .. } => finish!(body.as_slice()),
                        PayloadSpec::Lie { claim } => {
                            let claim = *claim;
                            finish!(move |_b: &mut [u8]| -> Result<usize, ()> { Ok(claim) })
                        }
                        PayloadSpec::Fail => finish!(|_b: &mut [u8]| -> Result<usize, ()> { Err(()) }),
                    }
                });
                let snap = conn.session().verif_snapshot();
                let live = conn.is_connected();
                // record first (so new_retained is known), then register the handle
                let handle = match &ran {
                    Ran::Done(Ok(h)) => *h,
                    _ => None,
                };
                let outcome = outcome_of(ran, |_| OkKind::NoHandle);
                self.end_op(op, outcome, pend, snap, live);
                if let Some(h) = handle {
                    let hi = self.add_handle(h, op, kind);
                    self.log.ops[op].outcome = Outcome::Ok(OkKind::Handle(hi));
                }
            }
            Step::Subscribe(spec) => {
                let props: Vec<Property<'_>> = spec.props.iter().map(to_property).collect();
                let filters: Vec<TopicFilter<'_>> = spec
                    .filters
                    .iter()
                    .map(|f| {
                        // the four setters in one of four orders (decided by the filter itself)
                        let rh = match f.rh {
                            0 => RetainHandling::Immediately,
                            1 => RetainHandling::IfSubscriptionDoesNotExist,
                            _ => RetainHandling::Never,
                        };
                        let mut o = SubscriptionOptions::default();
                        let order: [u8; 4] = match f.filter.len() % 4 {
                            0 => [0, 1, 2, 3],
                            1 => [3, 2, 1, 0],
                            2 => [1, 3, 0, 2],
                            _ => [2, 0, 3, 1],
                        };
                        for step in order {
                            o = match step {
                                0 => o.maximum_qos(qos_of(f.max_qos)),
                                1 if f.no_local => o.ignore_local_messages(),
                                2 if f.rap => o.retain_as_published(),
                                3 => o.retain_behavior(rh),
                                _ => o,
                            };
                        }
                        TopicFilter::new(&f.filter).options(o)
                    })
                    .collect();
                let opts = OpOpts { cancel_at: spec.cancel_at, deadline: u64::MAX };
                let (op, ran, pend) = run_conn_op!(self, conn, "subscribe", opts, async {
                    conn.subscribe(&filters, &props).await.map_err(|e| err_repr(&e))
                });
                let snap = conn.session().verif_snapshot();
                let live = conn.is_connected();
                let handle = match &ran {
                    Ran::Done(Ok(h)) => Some(*h),
                    _ => None,
                };
                let outcome = outcome_of(ran, |_| OkKind::NoHandle);
                self.end_op(op, outcome, pend, snap, live);
                if let Some(h) = handle {
                    let hi = self.add_handle(h, op, "subscribe");
                    self.log.ops[op].outcome = Outcome::Ok(OkKind::Handle(hi));
                }
            }
            Step::Unsubscribe(spec) => {
                let props: Vec<Property<'_>> = spec.props.iter().map(to_property).collect();
                let filters: Vec<&str> = spec.filters.iter().map(|s| s.as_str()).collect();
                let opts = OpOpts { cancel_at: spec.cancel_at, deadline: u64::MAX };
                let (op, ran, pend) = run_conn_op!(self, conn, "unsubscribe", opts, async {
                    conn.unsubscribe(&filters, &props).await.map_err(|e| err_repr(&e))
                });
                let snap = conn.session().verif_snapshot();
                let live = conn.is_connected();
                let handle = match &ran {
                    Ran::Done(Ok(h)) => Some(*h),
                    _ => None,
                };
                let outcome = outcome_of(ran, |_| OkKind::NoHandle);
                self.end_op(op, outcome, pend, snap, live);
                if let Some(h) = handle {
                    let hi = self.add_handle(h, op, "unsubscribe");
                    self.log.ops[op].outcome = Outcome::Ok(OkKind::Handle(hi));
                }
            }
            Step::Poll { max_wait, cancel_at } | Step::Recv { max_wait, cancel_at } => {
                let is_recv = matches!(self.log.steps.last(), Some(Step::Recv { .. }));
                let kind = if is_recv { "recv" } else { "poll" };
                let opts = OpOpts { cancel_at, deadline: vtime::now().saturating_add(max_wait) };
                let next_op = self.log.ops.len();
                let (op, ran, pend) = run_conn_op!(self, conn, kind, opts, async {
                    if is_recv {
                        conn.recv().await.map(|m| Some(copy_msg(&m, cidx, next_op))).map_err(|e| err_repr(&e))
                    } else {
                        conn.poll().await.map(|m| m.map(|m| copy_msg(&m, cidx, next_op))).map_err(|e| err_repr(&e))
                    }
                });
                self.finish_poll(conn, op, ran, pend);
            }
            Step::Drive { cancel_at } => {
                let opts = OpOpts { cancel_at, deadline: u64::MAX };
                let next_op = self.log.ops.len();
                let (op, ran, pend) = run_conn_op!(self, conn, "drive", opts, async {
                    conn.drive().await.map(|m| m.map(|m| copy_msg(&m, cidx, next_op))).map_err(|e| err_repr(&e))
                });
                self.finish_poll(conn, op, ran, pend);
            }
            Step::Disconnect(spec) => {
                let opts = OpOpts { cancel_at: spec.cancel_at, deadline: u64::MAX };
                let props: Option<Vec<Property<'_>>> =
                    spec.props.as_ref().map(|p| p.iter().map(to_property).collect());
                let (op, ran, pend) = run_conn_op!(self, conn, "disconnect", opts, async {
                    let r = match (&spec.reason, &props) {
                        (None, None) => conn.disconnect().await,
                        (reason, props) => {
                            let mut d = match reason {
                                Some(r) => Disconnect::with_reason(ReasonCode::from(*r)),
                                None => Disconnect::success(),
                            };
                            if let Some(p) = props {
                                d = d.with_properties(p);
                            }
                            conn.disconnect_with(d).await
                        }
                    };
                    r.map_err(|e| err_repr(&e))
                });
                let snap = conn.session().verif_snapshot();
                let live = conn.is_connected();
                self.end_op(op, outcome_of(ran, |_| OkKind::Unit), pend, snap, live);
            }
            Step::PollReply { mode, payload, user_props, qos } => {
                let opts = OpOpts { cancel_at: None, deadline: vtime::now() };
                let next_op = self.log.ops.len();
                let next_msg = self.log.msgs.len();
                let mut reply: Option<ReplyRec> = None;
                let (op, ran, pend) = run_conn_op!(self, conn, "pollreply", opts, async {
                    let r = conn.poll().await;
                    match r {
                        Err(e) => Err(err_repr(&e)),
                        Ok(None) => Ok(None),
                        Ok(Some(m)) => {
                            let rec = copy_msg(&m, cidx, next_op);
                            reply = Some(crate::reply::answer(&m, next_msg, &mode, &payload, &user_props, qos));
                            Ok(Some(rec))
                        }
                    }
                });
                if let Some(r) = reply {
                    self.log.replies.push(r);
                }
                self.finish_poll(conn, op, ran, pend);
            }
        }
        AfterStep::Continue
    }

    fn finish_poll(&mut self, conn: &Conn<'_, '_>, op: usize, ran: Ran<Result<Option<MsgRec>, ErrRepr>>, pend: usize) {
        let snap = conn.session().verif_snapshot();
        let live = conn.is_connected();
        let mut msg = None;
        let outcome = match ran {
            Ran::Done(Ok(Some(m))) => {
                msg = Some(m);
                Outcome::Ok(OkKind::Msg(self.log.msgs.len()))
            }
            Ran::Done(Ok(None)) => Outcome::Ok(OkKind::None),
            Ran::Done(Err(e)) => Outcome::Err(e),
            Ran::Cancelled => Outcome::Cancelled,
            Ran::CallerTimeout => Outcome::CallerTimeout,
            Ran::Watchdog => Outcome::Watchdog,
        };
        if let Some(m) = msg {
            self.log.msgs.push(m);
            let idx = self.log.msgs.len() - 1;
            self.world.borrow_mut().ev(Ev::Delivered { msg: idx });
        }
        self.end_op(op, outcome, pend, snap, live);
    }
}

/// Build the session described by `cfg` and run the driver against it.
/// Returns the log and the world (which holds per-connection streams and the event list).
pub fn run_case(cfg: &CaseCfg, seed: u64, driver: &mut dyn Driver, max_steps: usize) -> (RunLog, Shared) {
    vtime::reset();
    let world = World::new(seed);
    {
        // watchdog: two orders of magnitude above what any legitimate operation needs
        let mut w = world.borrow_mut();
        w.budget_bytes = w.budget_bytes.max(16 * cfg.tx);
        // one-byte transfers with a Pending before each call need two calls per byte: the call
        // budget of one operation covers the receive buffer and the arena four times over
        w.budget_calls = w.budget_calls.max(4096 + 8 * (cfg.rx + cfg.tx));
    }
    // every third configuration hands the library one backing buffer to split itself
    // (`ConfigBuilder::from_buffer`), the others two separate ones
    let one_buffer = (cfg.rx + cfg.tx + cfg.client_id.len()) % 3 == 0;
    let mut rx = vec![0u8; if one_buffer { cfg.rx + cfg.tx } else { cfg.rx }];
    let mut tx = vec![0u8; if one_buffer { 0 } else { cfg.tx }];
    let will_props: Vec<Property<'_>> = cfg
        .will
        .as_ref()
        .map(|w| w.props.iter().map(to_property).collect())
        .unwrap_or_default();
    let mut ex = Exec::new(world.clone(), cfg.clone(), driver, max_steps);
    let builder = build_config(cfg, one_buffer, &mut rx, &mut tx, &will_props);
    ex.log.from_one_buffer = one_buffer;
    match builder {
        Ok(b) => {
            let (brx, btx) = (b.rx_len(), b.tx_len());
            let mut session = Session::new(b);
            ex.log.reported_sizes = Some((brx, btx, session.max_rx_packet_size(), session.max_tx_packet_size()));
            ex.run(&mut session);
        }
        Err(e) => ex.log.setup_error = Some(e),
    }
    (ex.log, world)
}

fn build_config<'a>(
    cfg: &'a CaseCfg,
    one_buffer: bool,
    rx: &'a mut [u8],
    tx: &'a mut [u8],
    will_props: &'a [Property<'a>],
) -> Result<ConfigBuilder<'a>, String> {
    // the builder is used the way applications use it: setters in any order, a default that is
    // overridden later, a value set twice (chosen by the configuration itself, so that a replay
    // builds the same way)
    let variant = (cfg.client_id.len() as u64 + cfg.keepalive as u64 + cfg.session_expiry as u64 + cfg.rx as u64) % 4;
    let mut b = if one_buffer {
        if ConfigBuilder::from_buffer(&mut [0u8; 4][..], 5).is_ok() {
            return Err("from_buffer accepted a receive size larger than the buffer".into());
        }
        ConfigBuilder::from_buffer(rx, cfg.rx).map_err(|e| format!("from_buffer: {e:?}"))?
    } else {
        ConfigBuilder::new(Buffers::new(rx, tx))
    };
    if variant == 1 {
        b = b.client_id("default-id").map_err(|e| format!("{e:?}"))?.keepalive_interval(7).session_expiry_interval(77);
    }
    b = if variant == 2 {
        b.session_expiry_interval(cfg.session_expiry).keepalive_interval(cfg.keepalive).client_id(&cfg.client_id).map_err(|e| format!("{e:?}"))?
    } else if variant == 0 && (cfg.keepalive == 60 || cfg.session_expiry == 0 || cfg.client_id.is_empty()) {
        // what equals the documented default (keep-alive 60 s, session expiry 0, empty client
        // identifier) is left unset, as an application would
        let mut b = b;
        if !cfg.client_id.is_empty() {
            b = b.client_id(&cfg.client_id).map_err(|e| format!("{e:?}"))?;
        }
        if cfg.keepalive != 60 {
            b = b.keepalive_interval(cfg.keepalive);
        }
        if cfg.session_expiry != 0 {
            b = b.session_expiry_interval(cfg.session_expiry);
        }
        b
    } else {
        b.client_id(&cfg.client_id).map_err(|e| format!("{e:?}"))?.keepalive_interval(cfg.keepalive).session_expiry_interval(cfg.session_expiry)
    };
    if variant == 3 {
        b = b.keepalive_interval(cfg.keepalive).client_id(&cfg.client_id).map_err(|e| format!("{e:?}"))?.session_expiry_interval(cfg.session_expiry);
    }
    if cfg.downgrade {
        b = b.autodowngrade_qos();
    }
    if let Some(w) = &cfg.will {
        let mut will = Will::new(&w.topic, &w.payload, will_props).map_err(|e| format!("will: {e:?}"))?;
        will = will.qos(qos_of(w.qos));
        if w.retain {
            will = will.retained();
        }
        b = b.will(will).map_err(|e| format!("{e:?}"))?;
    }
    if let Some((u, p)) = &cfg.auth {
        b = b.auth(u, p).map_err(|e| format!("{e:?}"))?;
    }
    Ok(b)
}
