//! C10 — keep-alive: PINGREQ cadence and dead-peer detection follow the negotiated time.

use crate::exec::*;
use crate::refcodec::{CPacket, SPacket};
use crate::runner::CaseOut;
use crate::trace::*;
use crate::world::{Ev, IoAns};

const RTT: u64 = 5_000_000;

pub fn check(t: &Trace<'_>, out: &mut CaseOut) -> bool {
    let w = t.w;
    let mut nontrivial = false;
    for ci in t.conns.iter().filter(|c| c.established) {
        let c = &w.conns[ci.idx];
        let cop = &t.log.ops[ci.connect_op.unwrap()];
        // effective keep-alive: the broker's Server Keep Alive if present, otherwise the configured value
        let ka_s: u64 = match ci.ska {
            Some(k) => k as u64,
            None => t.log.cfg.keepalive as u64,
        };
        if ci.ska.is_none() && ci.idx > 0 && t.conns[..ci.idx].iter().any(|p| p.ska.is_some_and(|k| k != t.log.cfg.keepalive)) {
            out.count("connections_without_override_after_one_with_override", 1);
        }
        let ka = ka_s * 1_000_000;
        out.key(format!("ka={}/override={:?}", ka_s.min(100), ci.ska.map(|k| k.min(100))));
        let ops: Vec<&OpRec> = t.log.ops.iter().filter(|o| o.conn == Some(ci.idx) && o.ev_call > cop.ev_ret).collect();
        // the application must be waiting in poll()/recv() all the time: virtual time may only pass inside them
        let continuous = !w.events[cop.ev_ret..ci.ev_end.min(w.events.len())].iter().enumerate().any(|(i, e)| {
            matches!(e, Ev::Time { from, to } if to > from)
                && !t.op_at(cop.ev_ret + i).is_some_and(|o| matches!(t.log.ops[o].kind, "poll" | "recv" | "pollreply"))
                && !matches!(w.events.get(cop.ev_ret + i + 1), Some(Ev::SlowWrite { .. }))
        });
        // a client that busy-waits on the clock distorts virtual time (no broker traffic can be
        // delivered while it spins): that is C16's finding, and this connection is not judged here
        let spun = w.events[ci.ev_begin..ci.ev_end.min(w.events.len())].iter().any(|e| matches!(e, Ev::ClockSpin | Ev::Watchdog));
        // (a'') a wait that begins with a PINGREQ already due (none outstanding) and ends, without
        // having read anything, because the caller gave up or the client span on the clock, must
        // have written that PINGREQ - this does not depend on how virtual time moved meanwhile
        if ka > 0 && ci.stream_ok {
            for o in ops.iter().filter(|o| matches!(o.kind, "poll" | "recv" | "pollreply") && matches!(o.outcome, Outcome::CallerTimeout | Outcome::Watchdog)) {
                let Some(sn) = &o.snap_before else { continue };
                // (a PINGREQ whose bytes went out in an earlier, abandoned call and that only
                // awaits its flush is on the wire already)
                let on_the_wire = sn.tx.control.iter().any(|c| c.kind == 12 && matches!(c.state, minimq::verif::VerifSend::Flush));
                let due = sn.next_ping.is_some_and(|np| np <= o.t_call) && sn.ping_timeout.is_none() && !on_the_wire;
                let consumed = w.events[o.ev_call..o.ev_ret].iter().any(|e| matches!(e, Ev::Consumed { .. }));
                // (a send buffer that is full - a write that pends without having been asked to - is a
                // transport that does not accept writes)
                let busy = w.events[o.ev_call..o.ev_ret].iter().any(|e| matches!(e, Ev::SlowWrite { .. } | Ev::Io { ans: IoAns::Err(_) | IoAns::Eof | IoAns::Zero, .. } | Ev::Io { kind: crate::world::IoKind::Write, ans: IoAns::Pending(crate::world::PendWhy::ReadEmpty), .. }));
                let fits = ci.mps.is_none_or(|m| m >= 2 && sn.tx.retained.iter().all(|e| e.len <= m as usize));
                if due && !consumed && !busy && fits && o.t_ret > o.t_call {
                    out.count("waits_that_began_with_a_ping_due", 1);
                    let wrote = c.out.packets.iter().any(|p| matches!(p.pkt, CPacket::PingReq) && p.ev >= o.ev_call && p.ev <= o.ev_ret);
                    if !wrote {
                        out.violations.push(viol("C10", "C10/gap/ping-due-but-not-sent", format!("conn {}: {} began at {} with a PINGREQ due since {:?} and none outstanding, waited until {} ({:?}) and wrote no PINGREQ (retained {}, PUBRELs {}, owed control packets {})", ci.idx, o.kind, o.t_call, sn.next_ping, o.t_ret, o.outcome, sn.tx.retained.len(), sn.tx.release.len(), sn.tx.control.len())));
                        break;
                    }
                }
            }
        }
        if spun {
            out.count("connections_skipped_clock_spin", 1);
            continue;
        }
        if !ci.stream_ok {
            out.count("connections_not_continuously_polled", 1);
            continue;
        }
        if !continuous {
            // the application was away for a while: only "never too early" is judged
            out.count("connections_not_continuously_polled", 1);
        }
        out.count("connections_judged", 1);
        let pings: Vec<&crate::refcodec::CRec> = c.out.packets.iter().filter(|p| matches!(p.pkt, CPacket::PingReq)).collect();
        // virtual time at which the transport accepted the first byte of the packet that begins at
        // stream offset `start`
        let first_byte_at = |start: usize| -> u64 {
            let mut sent = 0usize;
            for e in &w.events {
                if let Ev::Io { conn, kind: crate::world::IoKind::Write, ans: IoAns::Bytes(k), t, .. } = e {
                    if *conn == ci.idx {
                        sent += *k;
                        if sent > start {
                            return *t;
                        }
                    }
                }
            }
            u64::MAX
        };
        // (event index, time) of every PINGRESP the client consumed; order is decided by event
        // index because several things can happen at one virtual instant
        // A PINGRESP counts as received when it reached the transport while the application was
        // waiting in poll()/recv() (an executor may poll the woken task late: `LateWake`);
        // otherwise - nobody was waiting - when the client read it.
        // (the arrival counts when the very call that was waiting at that moment went on to read
        // it, or gave the connection up without reading it)
        let woke_the_waiter = |p: &crate::world::InPkt| {
            t.op_at(p.ev_enq).is_some_and(|o| {
                let op = &t.log.ops[o];
                matches!(op.kind, "poll" | "recv" | "pollreply") && (p.ev_consumed.is_some_and(|e| e <= op.ev_ret) || (p.ev_consumed.is_none() && op.outcome == Outcome::Err(ErrRepr::Disconnected)))
            })
        };
        let resps: Vec<(usize, u64)> = c
            .in_pkts
            .iter()
            .filter(|p| matches!(p.pkt, Some(SPacket::PingResp)))
            .filter_map(|p| if woke_the_waiter(p) { Some((p.ev_enq, p.t_enq)) } else { Some((p.ev_consumed?, p.t_consumed?)) })
            .collect();
        if w.events[ci.ev_begin..ci.ev_end.min(w.events.len())].iter().any(|e| matches!(e, Ev::LateWake { .. })) {
            out.count("connections_with_late_wakeups", 1);
        }
        out.count("pingreq_seen", pings.len() as u64);
        if !pings.is_empty() {
            nontrivial = true;
        }
        // (b) keep-alive 0 sends no pings
        if ka == 0 {
            out.count("connections_with_keepalive_zero", 1);
            if !pings.is_empty() {
                out.violations.push(viol("C10", "C10/ping-with-keepalive-zero", format!("conn {}: {} PINGREQ(s) although the effective keep-alive is 0", ci.idx, pings.len())));
            }
        }
        // is a ping outstanding (sent, unanswered) at time x?
        let outstanding_at = |x: u64| pings.iter().any(|p| p.t_done <= x && !resps.iter().any(|r| r.0 > p.ev && r.1 <= x));
        // (a) gaps between consecutive client packets
        // (a call on a handle that is already dead is not a wait)
        let end_of_wait = ops.iter().rev().find(|o| matches!(o.kind, "poll" | "recv" | "pollreply") && o.live_before).map(|o| (o.t_ret, o.outcome.clone()));
        if ka > 0 && continuous {
            let mut prev = cop.t_ret;
            // a transport that is busy for a while delays the completion of a packet the client
            // started in time: gaps that contain such a pause are not judged
            // (likewise a sluggish executor that polls the woken task late)
            let busy: Vec<(u64, u64)> = w.events.iter().filter_map(|e| match e { Ev::SlowWrite { conn, from, to } | Ev::LateWake { conn, from, to } if *conn == ci.idx => Some((*from, *to)), _ => None }).collect();
            let mut judge = |from: u64, to: u64, what: &str, out: &mut CaseOut| {
                if busy.iter().any(|(a, b)| *a < to && *b > from) {
                    out.count("gaps_spanning_a_busy_transport", 1);
                    return;
                }
                if to > from && to - from > ka {
                    let mid = from + ka;
                    let sig = if outstanding_at(mid) { "C10/gap/ping-outstanding" } else { "C10/gap/no-ping-sent" };
                    out.violations.push(viol("C10", sig, format!("conn {}: {} us without a client packet ({} {}..{}), effective keep-alive {} s", ci.idx, to - from, what, from, to, ka_s)));
                }
            };
            for p in c.out.packets.iter().skip(1) {
                judge(prev, p.t_done, "between packets", out);
                if p.t_done.saturating_sub(prev) + 1 >= ka.saturating_sub(1) && p.t_done > prev {
                    out.count("gaps_at_the_limit", 1);
                }
                prev = prev.max(p.t_done);
            }
            if let Some((t_end, Outcome::CallerTimeout)) = &end_of_wait {
                judge(prev, *t_end, "until the end of the last wait", out);
            }
        }
        // (c)/(d)/(e) dead-peer detection - not on a connection whose inbound stream was stalled in
        // the middle (a PINGRESP queued behind the stall has reached neither the transport's
        // reader nor the client: when it "arrived" is not defined); cadence is judged all the same
        let stalled = w.events[ci.ev_begin..ci.ev_end.min(w.events.len())].iter().any(|e| matches!(e, Ev::GateHit { .. }));
        if stalled {
            out.count("connections_with_a_stalled_inbound_stream", 1);
            continue;
        }
        let busy_all: Vec<(u64, u64)> = w.events.iter().filter_map(|e| match e { Ev::SlowWrite { conn, from, to } if *conn == ci.idx => Some((*from, *to)), _ => None }).collect();
        let disc: Vec<&&OpRec> = ops.iter().filter(|o| o.outcome == Outcome::Err(ErrRepr::Disconnected) && o.live_before).collect();
        let external_cause = |o: &OpRec| {
            // (the application itself closed the connection: a disconnect() was called on it
            // before - unless it was refused locally, in which case nothing was begun)
            ops.iter().any(|x| x.kind == "disconnect" && x.ev_call < o.ev_call && !matches!(x.outcome, Outcome::Err(ErrRepr::BufferTooSmall | ErrRepr::PacketTooLarge | ErrRepr::InvalidRequest))) || w.events[o.ev_call..o.ev_ret].iter().any(|e| {
                matches!(e, Ev::Io { ans: IoAns::Eof | IoAns::Err(_), .. }) || matches!(e, Ev::Consumed { conn, idx } if matches!(w.conns[*conn].in_pkts[*idx].pkt, Some(SPacket::Disconnect { .. })))
            })
        };
        for (i, p) in pings.iter().enumerate() {
            let tp = if p.t_flushed != u64::MAX { p.t_flushed } else { p.t_done };
            if let Some(next) = pings.get(i + 1) {
                if !resps.iter().any(|r| r.0 > p.ev && r.0 < next.ev) {
                    out.violations.push(viol("C10", "C10/two-pings-outstanding", format!("conn {}: PINGREQ at {} while the one sent at {} is unanswered", ci.idx, next.t_done, p.t_done)));
                }
            }
            let answered = resps.iter().find(|r| r.0 > p.ev).map(|r| r.1);
            let in_time = answered.is_some_and(|r| r < tp + RTT);
            let late = answered.is_none_or(|r| r > tp + RTT);
            if answered.is_some_and(|r| r >= tp + RTT && r <= tp + RTT + w.timer_latency_us) {
                // (with timers that fire late the client may or may not look first)
                out.count("pingresp_exactly_at_the_bound", 1);
                continue;
            }
            // did the wait go on beyond tp + RTT?
            let waited_until = end_of_wait.as_ref().map(|e| e.0).unwrap_or(0);
            if late && waited_until >= tp + RTT && (continuous || disc.iter().any(|o| o.t_ret >= tp && o.t_ret < tp + RTT && !external_cause(o))) {
                nontrivial = true;
                let d = disc.iter().find(|o| o.t_ret >= tp && !external_cause(o));
                match d {
                    // (the known finding: the pause lies inside the PINGREQ's own write - between its
                    // two bytes -, after the service pass that writes it had sampled the clock; a
                    // pause in an earlier packet of the same call is no excuse)
                    Some(d) if d.t_ret < tp + RTT && busy_all.iter().any(|(a, b)| *b <= tp && *a + RTT <= d.t_ret && *a >= first_byte_at(p.start)) => out.violations.push(viol("C10", "C10/timeout-early/transport-busy-while-writing-pingreq", format!("conn {}: PINGREQ flushed at {} after the transport had been busy, Disconnected reported at {} (< {} us later: the bound was counted from before the pause)", ci.idx, tp, d.t_ret, RTT))),
                    Some(d) if d.t_ret < tp + RTT => out.violations.push(viol("C10", "C10/timeout-early", format!("conn {}: PINGREQ flushed at {}, Disconnected reported at {} (< {} us later)", ci.idx, tp, d.t_ret, RTT))),
                    // (a client stuck in a busy transport cannot report anything until the write returns)
                    Some(_) | None if !continuous && !disc.iter().any(|o| o.t_ret >= tp && o.t_ret < tp + RTT) => {}
                    Some(d) if d.t_ret > tp + RTT && busy_all.iter().any(|(a, b)| *a <= tp + RTT && *b >= d.t_ret) => out.count("timeouts_reported_when_the_transport_became_free", 1),
                    // (a task that the executor polled late cannot report earlier than that)
                    Some(d) if d.t_ret > tp + RTT && w.events.iter().any(|e| matches!(e, Ev::LateWake { conn, from, to } if *conn == ci.idx && *from <= tp + RTT && *to >= d.t_ret)) => out.count("timeouts_reported_by_a_late_polled_task", 1),
                    // (timers fire up to the injected latency late)
                    Some(d) if d.t_ret > tp + RTT && d.t_ret <= tp + RTT + w.timer_latency_us => out.count("timeouts_reported_within_the_timer_latency", 1),
                    Some(d) if d.t_ret > tp + RTT => out.violations.push(viol("C10", "C10/timeout-late", format!("conn {}: PINGREQ flushed at {}, Disconnected reported at {} ({} us after the bound) although the application was waiting all the time", ci.idx, tp, d.t_ret, d.t_ret - tp - RTT))),
                    Some(_) => out.count("timeouts_at_exactly_the_bound", 1),
                    None => {
                        // connection may have ended for another reason before the bound
                        let ended_otherwise = ops.iter().any(|o| o.t_ret <= tp + RTT && !o.live_after && o.live_before);
                        if !ended_otherwise {
                            out.violations.push(viol("C10", "C10/timeout-missed", format!("conn {}: PINGREQ flushed at {} was never answered, the application waited until {} but no wait ended with Disconnected", ci.idx, tp, waited_until)));
                        }
                    }
                }
            }
            if in_time {
                out.count("pingresp_in_time", 1);
            }
        }
        // (a') a PINGREQ is two bytes long: when one is due, a wait must not end with a local
        // "does not fit" while the broker's limit admits two bytes and every queued packet
        if w.timer_latency_us > 0 {
            out.count("connections_with_late_timers", 1);
        }
        for o in ops.iter().filter(|o| matches!(o.kind, "poll" | "recv" | "pollreply") && matches!(o.outcome, Outcome::Err(ErrRepr::PacketTooLarge | ErrRepr::BufferTooSmall))) {
            let Some(sn) = &o.snap_before else { continue };
            let due = sn.next_ping.is_some_and(|np| np <= o.t_ret) && sn.ping_timeout.is_none();
            let fits = ci.mps.is_none_or(|m| m >= 2 && sn.tx.retained.iter().all(|e| e.len <= m as usize) && (m >= 5 || (sn.tx.release.is_empty() && sn.tx.control.is_empty())));
            let consumed = w.events[o.ev_call..o.ev_ret].iter().any(|e| matches!(e, Ev::Consumed { .. }));
            if due && fits && !consumed && ka > 0 {
                out.violations.push(viol("C10", "C10/ping-refused-locally", format!("conn {}: {} returned {:?} at {} with a PINGREQ due since {:?} and nothing queued that exceeds the broker's Maximum Packet Size {:?}: the two-byte PINGREQ was not sent", ci.idx, o.kind, o.outcome, o.t_ret, sn.next_ping, ci.mps)));
                break;
            }
        }
        // (d) a wait that ends with Disconnected without an external cause needs an unanswered ping that is due
        for d in &disc {
            if external_cause(d) {
                continue;
            }
            let due = pings.iter().any(|p| {
                let tp = if p.t_flushed != u64::MAX { p.t_flushed } else { p.t_done };
                d.t_ret >= tp + RTT && !resps.iter().any(|r| r.0 > p.ev && r.1 < tp + RTT)
            });
            if !due {
                // early, but not earlier than if the bound were counted from before a pause of the
                // transport in the middle of the PINGREQ: the client stamps the PINGREQ with the
                // time at which it began the service pass, not with the time the flush completed
                let stale_stamp = pings.iter().any(|p| {
                    let tp = if p.t_flushed != u64::MAX { p.t_flushed } else { p.t_done };
                    busy_all.iter().any(|(a, b)| *b <= tp && *a + RTT <= d.t_ret && d.t_ret < tp + RTT && *a >= first_byte_at(p.start)) && !resps.iter().any(|r| r.0 > p.ev && r.1 <= d.t_ret)
                });
                let sig = if stale_stamp { "C10/timeout-early/transport-busy-while-writing-pingreq" } else { "C10/spurious-timeout" };
                out.violations.push(viol("C10", sig, format!("conn {}: wait ended with Disconnected at {} although no PINGREQ was unanswered for {} us", ci.idx, d.t_ret, RTT)));
            } else {
                out.count("dead_peer_detected", 1);
            }
        }
    }
    nontrivial
}
