//! C02 — an accepted QoS 1 publish is never lost: replayed once per resumed connection,
//! byte-identical except DUP, until PUBACK; never after; in acceptance order.

use crate::model::*;
use crate::runner::CaseOut;
use crate::trace::*;
use crate::refcodec::CPacket;

/// `kinds`: which message kinds this instance judges ("publish1" for C02).
pub fn check_kind(t: &Trace<'_>, m: &Model, out: &mut CaseOut, prop: &'static str, kind: &'static str) -> bool {
    let w = t.w;
    let mut nontrivial = false;
    for msg in m.msgs.iter().filter(|x| x.kind == kind) {
        // (a) at most one transmission per connection
        for c in 0..w.conns.len() {
            let n = msg.txs.iter().filter(|x| x.conn == c).count();
            if n > 1 {
                out.violations.push(viol(prop, format!("{}/retransmit-within-connection/{}", prop, kind), format!("request op#{} id {} was transmitted {} times on connection {}", msg.op, msg.pid, n, c)));
            }
        }
        // (b) never after its acknowledgement was consumed
        if let Some(a) = &msg.ack {
            if let Some(tx) = msg.txs.iter().find(|x| x.ev > a.ev) {
                out.violations.push(viol(prop, format!("{}/transmit-after-ack/{}", prop, kind), format!("op#{} id {} transmitted on conn {} after its acknowledgement (code {:#x}) had been consumed", msg.op, msg.pid, tx.conn, a.code)));
            }
        }
        // (d) identical bytes except DUP; DUP clear on the accepting connection, set later
        if let Some(first) = msg.txs.first() {
            let base = raw(w, first);
            for tx in &msg.txs {
                let b = raw(w, tx);
                let same = b.len() == base.len() && b[1..] == base[1..] && (b[0] & !8) == (base[0] & !8);
                if !same {
                    out.violations.push(viol(prop, format!("{}/bytes-differ/{}", prop, kind), format!("op#{} id {}: transmission on conn {} differs from the first transmission on conn {} (beyond the DUP bit): {:02x?} vs {:02x?}", msg.op, msg.pid, tx.conn, first.conn, &b[..b.len().min(48)], &base[..base.len().min(48)])));
                }
                if msg.is_publish() {
                    let dup = b[0] & 8 != 0;
                    let want = tx.conn != msg.conn0;
                    if dup != want {
                        out.violations.push(viol(prop, format!("{}/dup-flag/{}/{}", prop, kind, if want { "missing-on-replay" } else { "set-on-first-send" }), format!("op#{} id {}: DUP={} on conn {} (accepted on conn {})", msg.op, msg.pid, dup, tx.conn, msg.conn0)));
                    }
                }
                if tx.conn != msg.conn0 {
                    out.count("retransmissions", 1);
                    nontrivial = true;
                }
            }
        }
    }
    // (d') a resumed connection on which a request of this kind was due for retransmission and whose
    // stream stops decoding: the retransmission is not the byte-identical copy the property asks
    // for (something else was written into it, or it was cut and continued wrongly)
    for ci in &t.conns {
        let c = &w.conns[ci.idx];
        if let Some((off, why)) = &c.out.error {
            let resumed = ci.connack.as_ref().is_some_and(|k| k.0) && !c.out.packets.is_empty() && ci.qos0_cancel_at.is_none() && !ci.write_zero;
            if resumed && m.msgs.iter().any(|x| x.kind == kind && x.ev_accept < ci.ev_begin && x.outstanding_at(ci.ev_begin) && x.rels.is_empty()) {
                out.violations.push(viol(prop, format!("{}/retransmission-undecodable/{}", prop, kind), format!("conn {}: resumed connection with a {} to retransmit, but its stream stops decoding at offset {}: {}", ci.idx, kind, off, why)));
            }
        }
    }
    // (b') the model stops attributing packets to a request once its acknowledgement was consumed:
    // a later packet with the same identifier and the same bytes is that request sent again
    for o in &m.orphans {
        let rec = &w.conns[o.tx.conn].out.packets[o.tx.idx];
        let matches_kind = match (&rec.pkt, kind) {
            (CPacket::Publish { qos: 1, .. }, "publish1") | (CPacket::Publish { qos: 2, .. }, "publish2") => true,
            (CPacket::Subscribe { .. }, "subscribe") | (CPacket::Unsubscribe { .. }, "unsubscribe") => true,
            _ => false,
        };
        if !matches_kind || !t.conns[o.tx.conn].stream_ok {
            continue;
        }
        let b = raw(w, &o.tx);
        let again = m.msgs.iter().filter(|x| x.kind == kind && x.epoch == t.epoch_at[o.tx.ev]).find(|x| {
            x.ack.as_ref().is_some_and(|a| a.ev < o.tx.ev) && x.txs.first().is_some_and(|f| {
                let base = raw(w, f);
                base.len() == b.len() && base[1..] == b[1..] && (base[0] & !8) == (b[0] & !8)
            })
        });
        if let Some(x) = again {
            let a = x.ack.as_ref().unwrap();
            out.violations.push(viol(prop, format!("{}/transmit-after-ack/{}", prop, kind), format!("op#{} id {} transmitted again on conn {} after its acknowledgement (code {:#x}) had been consumed", x.op, x.pid, o.tx.conn, a.code)));
        }
    }
    // (c0) a replay is only ever refused as too large under a Maximum Packet Size announced by
    // the *current* CONNACK that the packet really exceeds
    for (i, op) in t.log.ops.iter().enumerate() {
        if !matches!(op.kind, "poll" | "recv" | "drive") || op.outcome != crate::exec::Outcome::Err(crate::exec::ErrRepr::PacketTooLarge) {
            continue;
        }
        let Some(ci) = op.conn.map(|c| &t.conns[c]) else { continue };
        let Some(b) = &op.snap_before else { continue };
        let limit = ci.mps.map(|m| m as usize).unwrap_or(usize::MAX);
        // acknowledgements and PUBRELs are at most 5 bytes long
        if limit >= 5 && b.tx.retained.iter().all(|e| e.len <= limit) {
            out.violations.push(viol(prop, format!("{}/replay-refused-without-cause", prop), format!("op#{} {} on conn {} returned PacketTooLarge; the CONNACK of that connection announced {:?} and the retained packets are {:?} bytes long", i, op.kind, ci.idx, ci.mps, b.tx.retained.iter().map(|e| e.len).collect::<Vec<_>>())));
            break;
        }
    }
    // (c0') poll / recv / drive take no request that could be invalid: "invalid request" from one
    // of them while packets are owed means that an owed packet was refused for what it is
    for (i, op) in t.log.ops.iter().enumerate() {
        // (nor do they encode anything that needs room: the retained packets are in the arena
        // already, PUBRELs and acknowledgements are built elsewhere)
        if matches!(op.kind, "poll" | "recv" | "drive") && matches!(op.outcome, crate::exec::Outcome::Err(crate::exec::ErrRepr::InvalidRequest | crate::exec::ErrRepr::BufferTooSmall)) && op.snap_before.as_ref().is_some_and(|b| !b.tx.retained.is_empty() || !b.tx.release.is_empty()) {
            out.violations.push(viol(prop, format!("{}/replay-refused-without-cause", prop), format!("op#{} {} on conn {:?} returned {:?} while retained packets {:?} / releases {:?} were owed", i, op.kind, op.conn, op.outcome, op.snap_before.as_ref().map(|b| b.tx.retained.iter().map(|e| e.packet_id).collect::<Vec<_>>()), op.snap_before.as_ref().map(|b| b.tx.release.iter().map(|e| e.packet_id).collect::<Vec<_>>()))));
            break;
        }
    }
    // (c'') a resumed connection on which the client wrote a DISCONNECT that the application never
    // asked for there (disconnect() was not called on that handle) and which therefore ended
    // before the owed packets went out
    for ci in t.conns.iter().filter(|c| c.established && c.connack.as_ref().is_some_and(|k| k.0)) {
        let c = &w.conns[ci.idx];
        let wrote_disconnect = c.out.packets.iter().any(|p| matches!(p.pkt, crate::refcodec::CPacket::Disconnect { .. }));
        let asked = t.log.ops.iter().any(|o| o.conn == Some(ci.idx) && o.kind == "disconnect");
        if !wrote_disconnect || asked {
            continue;
        }
        out.count("resumed_connections_with_a_disconnect_nobody_asked_for", 1);
        let t0 = t.log.ops[ci.connect_op.unwrap()].ev_ret;
        if let Some(msg) = m.msgs.iter().find(|x| x.kind == kind && x.ev_accept < ci.ev_begin && x.outstanding_at(t0) && !x.releasing_at(t0) && !x.txs.iter().any(|tx| tx.conn == ci.idx)) {
            out.violations.push(viol(prop, format!("{}/not-replayed/{}/connection-closed-by-a-disconnect-nobody-asked-for", prop, kind), format!("resumed conn {}: the client wrote a DISCONNECT although disconnect() was never called on that handle, and op#{} id {} was not retransmitted there", ci.idx, msg.op, msg.pid)));
        }
    }
    // (c) every resumed, drained connection carries each outstanding message exactly once
    for ci in t.conns.iter().filter(|c| c.established && c.connack.as_ref().is_some_and(|k| k.0)) {
        let Some(e_d) = drained_at(t, ci.idx) else { continue };
        let t0 = t.log.ops[ci.connect_op.unwrap()].ev_ret;
        out.count("drained_resumed_conns", 1);
        for msg in m.msgs.iter().filter(|x| x.kind == kind && x.ev_accept < ci.ev_begin) {
            if !msg.outstanding_at(t0) {
                continue;
            }
            // (a packet above this connection's Maximum Packet Size is legitimately not replayed here)
            if let (Some(m), Some(first)) = (ci.mps, msg.txs.first()) {
                if raw(w, first).len() > m as usize {
                    out.count("replays_withheld_under_a_smaller_limit", 1);
                    continue;
                }
            }
            // QoS 2 in the release phase is judged by the PUBREL rules instead
            if msg.releasing_at(t0) {
                continue;
            }
            let n = msg.txs.iter().filter(|x| x.conn == ci.idx && x.ev <= e_d).count();
            if n == 0 && msg.outstanding_at(e_d) {
                out.violations.push(viol(prop, format!("{}/not-replayed/{}", prop, kind), format!("op#{} id {} (accepted on conn {}) was not retransmitted on resumed conn {} although the client went idle there", msg.op, msg.pid, msg.conn0, ci.idx)));
            }
            if n == 1 {
                out.count("replays_verified", 1);
            }
        }
    }
    // (c''') the broker's view: a QoS 1 PUBLISH that went out whole has certainly been taken,
    // whatever the call that wrote it returned; unless its PUBACK was consumed, the next
    // connection - if it resumes the session, fits the packet and goes idle - carries it again
    if kind == "publish1" {
        for (k, c) in w.conns.iter().enumerate() {
            let Some(next) = t.conns.iter().find(|n| n.idx > k && n.established) else { continue };
            if !next.connack.as_ref().is_some_and(|x| x.0) {
                continue;
            }
            let Some(e_d) = drained_at(t, next.idx) else { continue };
            for p in c.out.packets.iter() {
                let CPacket::Publish { qos: 1, pid: Some(pid), dup: false, .. } = &p.pkt else { continue };
                let acked = w.events.iter().skip(p.ev).any(|e| matches!(e, crate::world::Ev::Consumed { conn, idx } if *conn <= next.idx && matches!(&w.conns[*conn].in_pkts[*idx].pkt, Some(crate::refcodec::SPacket::PubAck { pid: q, .. }) if *q == *pid)));
                if acked || next.mps.is_some_and(|m| p.end - p.start > m as usize) {
                    continue;
                }
                out.count("whole_publishes_followed_to_the_next_connection", 1);
                let again = w.conns[next.idx].out.packets.iter().any(|q| q.ev <= e_d && matches!(&q.pkt, CPacket::Publish { qos: 1, pid: Some(x), .. } if x == pid));
                if !again {
                    out.violations.push(viol(prop, format!("{}/not-replayed/publish1/packet-the-broker-has-seen", prop), format!("conn {}: QoS 1 PUBLISH id {} went out whole and no PUBACK for it was consumed; resumed conn {} went idle without carrying it again", k, pid, next.idx)));
                }
            }
        }
    }
    // (e) order of PUBLISH packets on every connection = acceptance order
    if kind == "publish1" {
        for c in &w.conns {
            let mut last: Option<(usize, u16)> = None;
            for (i, p) in c.out.packets.iter().enumerate() {
                if let CPacket::Publish { qos, pid: Some(pid), .. } = &p.pkt {
                    if *qos == 0 {
                        continue;
                    }
                    let Some(msg) = m.msgs.iter().find(|x| x.is_publish() && x.txs.iter().any(|tx| tx.conn == c.idx && tx.idx == i)) else { continue };
                    if let Some((lop, lpid)) = last {
                        if msg.op < lop {
                            out.violations.push(viol(prop, format!("{}/order", prop), format!("conn {}: PUBLISH id {} (op#{}) was sent after id {} (op#{}) although it was accepted earlier", c.idx, pid, msg.op, lpid, lop)));
                        }
                    }
                    last = Some((msg.op, *pid));
                }
            }
        }
    }
    nontrivial
}

/// (f) after the benign epilogue every accepted, non-invalidated request is complete.
pub fn check_final(t: &Trace<'_>, m: &Model, out: &mut CaseOut, prop: &'static str, kinds: &[&str]) {
    let Some(last) = t.conns.last() else { return };
    // only judged when the last connection is the benign continuation and it drained
    let benign = last.established && drained_at(t, last.idx).is_some() && !last.had_error;
    if !benign || !t.log.epilogue {
        return;
    }
    let end = t.w.events.len();
    for msg in m.msgs.iter().filter(|x| kinds.contains(&x.kind)) {
        if msg.invalidated_ev.is_some() {
            continue;
        }
        if msg.ended_ev.is_none() && msg.outstanding_at(end) {
            let sent = msg.txs.iter().any(|x| x.conn == last.idx) || msg.rels.iter().any(|x| x.conn == last.idx);
            out.violations.push(viol(prop, format!("{}/lost/{}", prop, msg.kind), format!("op#{} id {} accepted on conn {} is still unacknowledged after the benign continuation (transmitted there: {})", msg.op, msg.pid, msg.conn0, sent)));
        } else {
            out.count("completed_in_the_end", 1);
        }
    }
}

pub fn check(t: &Trace<'_>, out: &mut CaseOut) -> bool {
    let m = Model::build(t);
    let nt = check_kind(t, &m, out, "C02", "publish1");
    check_final(t, &m, out, "C02", &["publish1"]);
    nt
}
