//! C03 — QoS 2 outbound exchange is exactly-once: PUBLISH, PUBREC, PUBREL, PUBCOMP.

use super::c02;
use crate::exec::*;
use crate::model::*;
use crate::runner::CaseOut;
use crate::trace::*;

pub fn check(t: &Trace<'_>, out: &mut CaseOut) -> bool {
    let m = Model::build(t);
    let mut nontrivial = c02::check_kind(t, &m, out, "C03", "publish2");
    for msg in m.msgs.iter().filter(|x| x.kind == "publish2") {
        let rec = msg.ack.as_ref();
        // PUBREL only after a successful PUBREC for that identifier was consumed
        for r in &msg.rels {
            match rec {
                Some(a) if a.code < 0x80 && a.ev < r.ev => {}
                Some(a) if a.code >= 0x80 => out.violations.push(viol("C03", "C03/pubrel-after-failed-pubrec", format!("op#{} id {}: PUBREL on conn {} although PUBREC carried failure {:#x}", msg.op, msg.pid, r.conn, a.code))),
                _ => out.violations.push(viol("C03", "C03/pubrel-before-pubrec", format!("op#{} id {}: PUBREL on conn {} before any successful PUBREC was consumed", msg.op, msg.pid, r.conn))),
            }
        }
        if let Some(a) = rec {
            // failing PUBREC: exchange ended, surfaced as Rejected by the call that consumed it
            if a.code >= 0x80 {
                out.count("failed_pubrec", 1);
                if let Some(op) = t.op_at(a.ev) {
                    let o = &t.log.ops[op];
                    let want = Outcome::Err(ErrRepr::Rejected(a.code));
                    if o.outcome != want && !matches!(o.outcome, Outcome::Err(ErrRepr::Rejected(0xFF))) {
                        out.violations.push(viol("C03", "C03/failed-pubrec-not-surfaced", format!("op#{} id {}: PUBREC {:#x} consumed during {} which returned {:?}", msg.op, msg.pid, a.code, o.kind, o.outcome)));
                    }
                }
            }
        }
        if msg.dropped_ev.is_some() {
            out.violations.push(viol("C03", "C03/exchange-dropped/release-full", format!("op#{} id {}: successful PUBREC consumed but the call returned InflightExhausted: the PUBLISH was forgotten and no PUBREL will ever be sent", msg.op, msg.pid)));
        }
        if let Some(c) = &msg.comp {
            if let Some(r) = msg.rels.iter().find(|r| r.ev > c.ev) {
                out.violations.push(viol("C03", "C03/pubrel-after-pubcomp", format!("op#{} id {}: PUBREL on conn {} after PUBCOMP was consumed", msg.op, msg.pid, r.conn)));
            }
        }
        for c in 0..t.w.conns.len() {
            let n = msg.rels.iter().filter(|r| r.conn == c).count();
            if n > 1 {
                out.violations.push(viol("C03", "C03/pubrel-twice-on-connection", format!("op#{} id {}: {} PUBRELs on conn {}", msg.op, msg.pid, n, c)));
            }
        }
    }
    // resumed, drained connections: release-phase exchanges replay PUBREL (exactly once, no PUBLISH)
    for ci in t.conns.iter().filter(|c| c.established && c.connack.as_ref().is_some_and(|k| k.0)) {
        let t0 = t.log.ops[ci.connect_op.unwrap()].ev_ret;
        let in_release: Vec<&OutMsg> = m.msgs.iter().filter(|x| x.kind == "publish2" && x.ev_accept < ci.ev_begin && x.releasing_at(t0)).collect();
        let in_publish = m.msgs.iter().filter(|x| x.kind == "publish2" && x.ev_accept < ci.ev_begin && x.outstanding_at(t0) && !x.releasing_at(t0)).count();
        if !in_release.is_empty() && in_publish > 0 {
            out.count("resumes_with_mixed_phases", 1);
            nontrivial = true;
        }
        if !in_release.is_empty() {
            out.count("resumes_with_release_phase", 1);
            nontrivial = true;
        }
        for msg in &in_release {
            if let Some(tx) = msg.txs.iter().find(|x| x.conn == ci.idx) {
                out.violations.push(viol("C03", "C03/publish-replayed-after-pubrec", format!("op#{} id {}: PUBLISH retransmitted on conn {} (event {}) although PUBREC had been consumed", msg.op, msg.pid, ci.idx, tx.ev)));
            }
        }
        if let Some(e_d) = drained_at(t, ci.idx) {
            for msg in &in_release {
                let n = msg.rels.iter().filter(|r| r.conn == ci.idx && r.ev <= e_d).count();
                if n == 0 && msg.outstanding_at(e_d) {
                    out.violations.push(viol("C03", "C03/pubrel-not-replayed", format!("op#{} id {}: no PUBREL on resumed conn {} although the client went idle there", msg.op, msg.pid, ci.idx)));
                } else if n == 1 {
                    out.count("pubrel_replays_verified", 1);
                }
            }
        }
        // a connection that never goes idle because a retained request above its Maximum Packet
        // Size is refused whenever its turn comes (PacketTooLarge, the handle stays up): the
        // PUBRELs (five bytes as this client writes them) fit and are owed all the same - once a
        // wait has ended that way, they are out
        if ci.mps.is_none_or(|m| m >= 5) && ci.stream_ok {
            let refused = t.log.ops.iter().find(|o| o.conn == Some(ci.idx) && o.ev_call > t0 && matches!(o.kind, "poll" | "recv" | "drive") && o.outcome == Outcome::Err(ErrRepr::PacketTooLarge) && o.live_after && !t.w.events[o.ev_call..o.ev_ret].iter().any(|e| matches!(e, crate::world::Ev::Consumed { .. })));
            if let Some(o) = refused {
                out.count("resumes_with_a_replay_refused_as_too_large", 1);
                for msg in &in_release {
                    let n = msg.rels.iter().filter(|r| r.conn == ci.idx && r.ev <= o.ev_ret).count();
                    if n == 0 && msg.outstanding_at(o.ev_ret) {
                        out.violations.push(viol("C03", "C03/pubrel-held-back-behind-a-refused-packet", format!("op#{} id {}: {} on resumed conn {} (Maximum Packet Size {:?}) ended with PacketTooLarge for a retained request, the handle stays up, and the PUBREL owed for this exchange has not been sent", msg.op, msg.pid, o.kind, ci.idx, ci.mps)));
                        break;
                    }
                }
            }
        }
        // order of replayed PUBRELs = order in which the PUBRECs were consumed
        let mut seq: Vec<(usize, usize, u16)> = Vec::new(); // (wire ev, rec ev, pid)
        for msg in &in_release {
            if let Some(r) = msg.rels.iter().find(|r| r.conn == ci.idx) {
                seq.push((r.ev, msg.ack.as_ref().unwrap().ev, msg.pid));
            }
        }
        seq.sort();
        if seq.len() >= 2 {
            out.count("replays_with_2plus_pubrel", 1);
        }
        for pair in seq.windows(2) {
            if pair[0].1 > pair[1].1 {
                out.violations.push(viol("C03", "C03/pubrel-order", format!("conn {}: PUBREL id {} replayed before id {} although its PUBREC was received later", ci.idx, pair[0].2, pair[1].2)));
                break;
            }
        }
    }
    for o in &m.orphans {
        if o.what.starts_with("PUBREL") {
            out.violations.push(viol("C03", "C03/pubrel-without-exchange", format!("conn {}: {} belongs to no QoS 2 exchange of the current session", o.tx.conn, o.what)));
        }
    }
    c02::check_final(t, &m, out, "C03", &["publish2"]);
    nontrivial
}
