//! C06 — the broker's Receive Maximum is never exceeded (broker's view: the lenient, sound one).

use crate::exec::*;
use crate::model::*;
use crate::refcodec::{CPacket, SPacket};
use crate::runner::CaseOut;
use crate::steps::Step;
use crate::trace::*;
use crate::world::Ev;

pub fn check(t: &Trace<'_>, out: &mut CaseOut) -> bool {
    let m = Model::build(t);
    let w = t.w;
    let mut nontrivial = false;
    // what the broker holds open from earlier connections of its session: a QoS 2 PUBLISH it has
    // received completely stays an open exchange there (whether or not its PUBREC reached the
    // client, whether or not the client still knows about it) until the broker has sent PUBCOMP or
    // a failing PUBREC for it, or has started a new session (CONNACK without session present).
    // A QoS 1 PUBLISH is not carried: the broker has dealt with it when its connection ends.
    let mut open_before: Vec<Vec<u16>> = Vec::new();
    {
        let mut open: Vec<u16> = Vec::new();
        for ci in &t.conns {
            if ci.connack.as_ref().is_some_and(|k| !k.0) || ci.connack.is_none() && ci.clean_start == Some(true) {
                open.clear();
            }
            open_before.push(open.clone());
            for e in w.events.iter().skip(ci.ev_begin).take(ci.ev_end.saturating_sub(ci.ev_begin) + 1) {
                match e {
                    Ev::CPkt { conn, idx } if *conn == ci.idx => {
                        if let CPacket::Publish { qos: 2, pid: Some(p), .. } = &w.conns[*conn].out.packets[*idx].pkt {
                            if !open.contains(p) {
                                open.push(*p);
                            }
                        }
                    }
                    Ev::SPkt { conn, idx } if *conn == ci.idx => match &w.conns[*conn].in_pkts[*idx].pkt {
                        Some(SPacket::PubComp { pid, .. }) => open.retain(|p| p != pid),
                        Some(SPacket::PubRec { pid, reason, .. }) if reason.unwrap_or(0) >= 0x80 => open.retain(|p| p != pid),
                        _ => {}
                    },
                    _ => {}
                }
            }
        }
    }
    for ci in t.conns.iter().filter(|c| c.established) {
        let rm = ci.rm as usize;
        let t0 = t.log.ops[ci.connect_op.unwrap()].ev_ret;
        // QoS 2 exchanges that enter this connection in the release phase still count
        let mut unresolved: Vec<u16> = if ci.connack.as_ref().is_some_and(|k| k.0) {
            m.msgs.iter().filter(|x| x.ev_accept < ci.ev_begin && x.releasing_at(t0)).map(|x| x.pid).collect()
        } else {
            vec![]
        };
        if ci.connack.as_ref().is_some_and(|k| k.0) && !t.log.hostile {
            for p in &open_before[ci.idx] {
                if !unresolved.contains(p) {
                    unresolved.push(*p);
                    out.count("qos2_exchanges_open_at_the_broker_carried_into_a_resumed_connection", 1);
                }
            }
        }
        let carried = unresolved.len();
        let resumed_with_inflight = ci.connack.as_ref().is_some_and(|k| k.0)
            && m.msgs.iter().any(|x| x.is_publish() && x.ev_accept < ci.ev_begin && x.outstanding_at(t0));
        let mut max_seen = unresolved.len();
        let mut reported = false;
        for (ev, e) in w.events.iter().enumerate().skip(ci.ev_begin) {
            if ev > ci.ev_end {
                break;
            }
            match e {
                Ev::CPkt { conn, idx } if *conn == ci.idx => {
                    if let CPacket::Publish { qos: 1 | 2, pid: Some(p), .. } = &w.conns[*conn].out.packets[*idx].pkt {
                        if !unresolved.contains(p) {
                            unresolved.push(*p);
                        }
                        max_seen = max_seen.max(unresolved.len());
                        if unresolved.len() > rm && !reported {
                            reported = true;
                            // classify the history that led here
                            let replay_only = m.msgs.iter().filter(|x| x.is_publish() && x.txs.iter().any(|tx| tx.conn == ci.idx && tx.ev <= ev)).all(|x| x.conn0 != ci.idx);
                            let sig = if resumed_with_inflight && replay_only {
                                "C06/exceeded/rm-shrunk-replay"
                            } else if resumed_with_inflight {
                                "C06/exceeded/after-resume"
                            } else if m.msgs.iter().any(|x| x.releasing_at(ev) && unresolved.contains(&x.pid)) {
                                "C06/exceeded/pubrec-credit"
                            } else {
                                "C06/exceeded/plain"
                            };
                            out.violations.push(viol("C06", sig, format!("conn {}: {} QoS>0 publishes unresolved at event {} with Receive Maximum {} (ids {:?}, {} carried in release phase)", ci.idx, unresolved.len(), ev, rm, unresolved, carried)));
                        }
                    }
                }
                Ev::SPkt { conn, idx } if *conn == ci.idx => match &w.conns[*conn].in_pkts[*idx].pkt {
                    Some(SPacket::PubAck { pid, .. }) | Some(SPacket::PubComp { pid, .. }) => unresolved.retain(|p| p != pid),
                    Some(SPacket::PubRec { pid, reason, .. }) if reason.unwrap_or(0) >= 0x80 => unresolved.retain(|p| p != pid),
                    _ => {}
                },
                _ => {}
            }
        }
        out.key(format!("rm={}/max-window={}", ci.rm.min(99), max_seen.min(20)));
        if max_seen >= rm.min(8) && rm <= 8 {
            out.count("window_filled", 1);
        }
        if resumed_with_inflight {
            out.count("resumes_with_inflight", 1);
            nontrivial = true;
        }
    }
    // refusals beyond the window leave no trace
    for (i, op) in t.log.ops.iter().enumerate() {
        if !matches!(op.kind, "publish1" | "publish2") || t.eff_qos(i).unwrap_or(0) == 0 {
            continue;
        }
        if op.outcome == Outcome::Err(ErrRepr::NotReady) {
            nontrivial = true;
            out.count("not_ready_refusals", 1);
            let (Some(b), Some(a)) = (&op.snap_before, &op.snap_after) else { continue };
            let ids = |s: &Snap| s.tx.retained.iter().map(|e| e.packet_id).collect::<Vec<_>>();
            if ids(b) != ids(a) || b.send_quota != a.send_quota || b.tx.release.len() != a.tx.release.len() {
                out.violations.push(viol("C06", "C06/refusal-left-trace", format!("op#{} refused NotReady but retained {:?}->{:?}, quota {}->{}", i, ids(b), ids(a), b.send_quota, a.send_quota)));
            }
            // nothing of the refused request on the wire: no new PUBLISH during the call
            if let Some(c) = op.conn {
                let new_pub = w.conns[c].out.packets[op.pkts_before.min(w.conns[c].out.packets.len())..op.pkts_after.min(w.conns[c].out.packets.len())]
                    .iter()
                    .any(|p| matches!(&p.pkt, CPacket::Publish { dup: false, qos: 1 | 2, topic, payload, .. } if matches!(&t.log.steps[op.step], Step::Publish(s) if s.topic == *topic && s.payload.bytes() == *payload && payload.len() >= 4)));
                if new_pub {
                    out.violations.push(viol("C06", "C06/refusal-left-trace", format!("op#{} refused NotReady but a PUBLISH to its topic went out during the call", i)));
                }
            }
        }
    }
    // no QoS 2 exchange is dropped because too many await PUBCOMP
    for op in t.log.ops.iter() {
        if matches!(op.kind, "poll" | "recv" | "drive" | "pollreply") && op.outcome == Outcome::Err(ErrRepr::InflightExhausted) {
            let rec = w.events[op.ev_call..=op.ev_ret.min(w.events.len() - 1)].iter().any(|e| matches!(e, Ev::Consumed { conn, idx } if matches!(w.conns[*conn].in_pkts[*idx].pkt, Some(SPacket::PubRec { .. }))));
            if rec {
                out.violations.push(viol("C06", "C06/qos2-dropped/release-full", format!("{} returned InflightExhausted after consuming a PUBREC: the exchange was removed from the retained list but its PUBREL could not be queued", op.kind)));
            }
        }
    }
    nontrivial
}
