//! C17 — transmit arena: retained packets stay intact (this file) and capacity is fully
//! recovered (probe-battery twin in `leak.rs`).

use super::c02;
use crate::model::*;
use crate::runner::CaseOut;
use crate::trace::*;
use crate::world::Ev;

pub fn check(t: &Trace<'_>, out: &mut CaseOut) -> bool {
    let m = Model::build(t);
    let w = t.w;
    let mut nontrivial = false;
    // every retransmission equals the first transmission except for the DUP bit
    for kind in ["publish1", "publish2", "subscribe", "unsubscribe"] {
        let mut tmp = CaseOut::default();
        c02::check_kind(t, &m, &mut tmp, "C17", kind);
        for v in tmp.violations {
            if v.sig.contains("bytes-differ") {
                out.violations.push(v);
            }
        }
        out.count("retransmissions_compared", tmp.counters.get("retransmissions").copied().unwrap_or(0));
    }
    // arena content between transmissions, and layout of the arena
    let mut compactions = 0u64;
    let mut prev_ids: Vec<u16> = Vec::new();
    for (ev, e) in w.events.iter().enumerate() {
        let Ev::Probe { idx } = e else { continue };
        let p = &t.log.probes[*idx];
        let Some(s) = &p.snap else { continue };
        // layout: entries in increasing offset order, not overlapping, inside `used`, inside capacity
        let mut cursor = 0usize;
        for e in s.tx.retained.iter() {
            if e.offset < cursor || e.offset + e.len > s.tx.capacity || e.len == 0 {
                out.violations.push(viol("C17", "C17/layout/overlap-or-out-of-bounds", format!("probe at event {}: retained entry id {} at {}..{} (previous entry ends at {}, capacity {})", ev, e.packet_id, e.offset, e.offset + e.len, cursor, s.tx.capacity)));
                break;
            }
            cursor = e.offset + e.len;
        }
        if cursor > s.tx.used || s.tx.used > s.tx.capacity {
            out.violations.push(viol("C17", "C17/layout/used-inconsistent", format!("probe at event {}: entries end at {}, used {}, capacity {}", ev, cursor, s.tx.used, s.tx.capacity)));
        }
        if s.tx.retained.is_empty() && s.tx.used != 0 && p.quiescent {
            // not a violation by itself (compaction is lazy) but worth counting
            out.count("probes_empty_but_used_nonzero", 1);
        }
        if let Some(d) = twice(&s.tx) {
            out.violations.push(viol("C17", "C17/slots/one-exchange-occupies-two-slots", format!("probe at event {}: {}", ev, d)));
        }
        out.count("slot_tables_inspected", 1);
        let ids: Vec<u16> = s.tx.retained.iter().map(|e| e.packet_id).collect();
        // an acknowledgement removed a non-last entry: the entries behind it were moved
        if prev_ids.len() > ids.len() && !ids.is_empty() {
            if let Some(pos) = prev_ids.iter().position(|i| !ids.contains(i)) {
                if pos + 1 < prev_ids.len() {
                    compactions += 1;
                }
            }
        }
        prev_ids = ids;
        // only packets that some acknowledgement can free may be kept: a QoS 0 PUBLISH shares
        // the arena for the time of its call and must never stay in it
        for (pid, bytes) in &p.arena {
            if bytes.first().is_some_and(|b| b >> 4 == 3 && b & 0x06 == 0) {
                out.violations.push(viol("C17", "C17/qos0-publish-kept-in-arena", format!("probe at event {}: the retained entry with identifier {} is a QoS 0 PUBLISH ({:02x?}...): no acknowledgement will ever free its {} bytes and its slot", ev, pid, &bytes[..bytes.len().min(12)], bytes.len())));
                return true;
            }
        }
        // arena bytes == bytes of the first transmission (DUP bit masked)
        for (pid, bytes) in &p.arena {
            let Some(msg) = m.msgs.iter().find(|x| x.pid == *pid && x.epoch == t.epoch_at[ev] && x.ev_accept <= ev && x.ended_ev.is_none_or(|x| x >= ev)) else { continue };
            let Some(first) = msg.txs.iter().find(|tx| tx.ev < ev) else { continue };
            let base = raw(w, first);
            out.count("arena_entries_compared", 1);
            let same = bytes.len() == base.len() && bytes[1..] == base[1..] && (bytes[0] & !8) == (base[0] & !8);
            if !same {
                out.violations.push(viol(
                    "C17",
                    format!("C17/arena-bytes-altered/{}", msg.kind),
                    format!("probe at event {}: arena copy of id {} ({}) differs from its first transmission on conn {}: {:02x?} vs {:02x?}", ev, pid, msg.kind, first.conn, &bytes[..bytes.len().min(32)], &base[..base.len().min(32)]),
                ));
                break;
            }
        }
    }
    // capacity is recovered by every acknowledgement: a retained entry whose acknowledgement the
    // client consumed (with whatever reason code) is gone when the call returns
    if !t.log.hostile {
        for (ev, e) in w.events.iter().enumerate() {
            let Ev::Consumed { conn, idx } = e else { continue };
            use crate::refcodec::SPacket;
            let (pid, want_type) = match &w.conns[*conn].in_pkts[*idx].pkt {
                Some(SPacket::PubAck { pid, .. }) | Some(SPacket::PubRec { pid, .. }) => (*pid, 3u8),
                Some(SPacket::SubAck { pid, .. }) => (*pid, 8),
                Some(SPacket::UnsubAck { pid, .. }) => (*pid, 10),
                _ => continue,
            };
            let Some(opi) = t.op_at(ev) else { continue };
            let op = &t.log.ops[opi];
            // the call processed the packet (it may report the reason code as an error)
            let processed = matches!(op.outcome, crate::exec::Outcome::Ok(_) | crate::exec::Outcome::Err(crate::exec::ErrRepr::Rejected(_)));
            if !processed || !t.conns[*conn].stream_ok {
                continue;
            }
            let Some(before) = t.log.probes.iter().rev().find(|p| p.ev < op.ev_call) else { continue };
            let Some(after) = t.log.probes.iter().find(|p| p.ev > op.ev_ret) else { continue };
            let held = |p: &crate::exec::ProbeRec| p.arena.iter().find(|(id, b)| *id == pid && b.first().is_some_and(|b0| b0 >> 4 == want_type)).map(|(_, b)| b.clone());
            let (Some(b), Some(a)) = (held(before), held(after)) else {
                if held(before).is_some() {
                    out.count("acknowledged_entries_freed", 1);
                }
                continue;
            };
            // the same packet is still there (a new request cannot get the identifier this fast)
            if a[1..] == b[1..] && t.epoch_at[before.ev] == t.epoch_at[after.ev] {
                let failing = match &w.conns[*conn].in_pkts[*idx].pkt {
                    Some(SPacket::SubAck { codes, .. }) | Some(SPacket::UnsubAck { codes, .. }) => codes.iter().any(|c| *c >= 0x80),
                    Some(SPacket::PubAck { reason, .. }) | Some(SPacket::PubRec { reason, .. }) => reason.unwrap_or(0) >= 0x80,
                    _ => false,
                };
                out.violations.push(viol(
                    "C17",
                    format!("C17/ack-did-not-free/{}{}", match want_type { 3 => "PUBLISH", 8 => "SUBSCRIBE", _ => "UNSUBSCRIBE" }, if failing { "/failing-reason" } else { "" }),
                    format!("{} consumed the acknowledgement for id {} on conn {} (outcome {:?}) but the packet still occupies the arena afterwards", op.kind, pid, conn, op.outcome),
                ));
            }
        }
    }
    // a resumed connection that starts with retained packets must carry them whole: a stream the
    // strict decoder cannot follow there means a retransmission that is not the first transmission
    for ci in t.conns.iter().filter(|c| c.established && c.connack.as_ref().is_some_and(|k| k.0)) {
        let c = &w.conns[ci.idx];
        let Some((off, why)) = &c.out.error else { continue };
        let cop = &t.log.ops[ci.connect_op.unwrap()];
        let owed = cop.snap_after.as_ref().is_some_and(|s| !s.tx.retained.is_empty());
        let abandoned = t.log.ops.iter().any(|o| o.conn == Some(ci.idx) && left_bytes_behind(t.log, o) && o.out_before <= *off);
        if owed && !abandoned {
            out.violations.push(viol("C17", "C17/retransmission-undecodable", format!("resumed conn {} started with retained packets; its outbound stream cannot be decoded from offset {}: {}", ci.idx, off, why)));
        }
    }
    // a request that is refused with an error occupies nothing: same retained entries as before
    for (i, op) in t.log.ops.iter().enumerate() {
        if !matches!(op.kind, "publish0" | "publish1" | "publish2" | "subscribe" | "unsubscribe") {
            continue;
        }
        use crate::exec::{ErrRepr, Outcome};
        if !matches!(op.outcome, Outcome::Err(ErrRepr::PacketTooLarge | ErrRepr::BufferTooSmall | ErrRepr::InvalidRequest | ErrRepr::NotReady | ErrRepr::InflightExhausted | ErrRepr::Payload)) {
            continue;
        }
        let (Some(b), Some(a)) = (&op.snap_before, &op.snap_after) else { continue };
        out.count("refused_requests_checked", 1);
        let ids = |s: &crate::exec::Snap| s.tx.retained.iter().map(|e| (e.packet_id, e.len)).collect::<Vec<_>>();
        if ids(a) != ids(b) {
            out.violations.push(viol("C17", format!("C17/refused-request-occupies-arena/{}", op.kind), format!("op#{} {} returned {:?} but the retained entries changed from {:?} to {:?}", i, op.kind, op.outcome, ids(b), ids(a))));
        }
    }
    out.count("compactions_moving_entries", compactions);
    if compactions > 0 {
        nontrivial = true;
    }
    out.key(format!("arena/{}", bucket_len(t.log.cfg.tx)));
    nontrivial
}

/// One exchange is one in-flight slot: an identifier appears at most once in the table of
/// retained packets and at most once in the table of releases awaiting PUBCOMP.
pub fn twice(tx: &minimq::verif::VerifTx) -> Option<String> {
    for (name, tab) in [("retained", &tx.retained), ("release", &tx.release)] {
        for (i, e) in tab.iter().enumerate() {
            if tab.iter().skip(i + 1).any(|f| f.packet_id == e.packet_id) {
                return Some(format!("identifier {} appears twice in the {} table {:?}", e.packet_id, name, tab.iter().map(|e| e.packet_id).collect::<Vec<_>>()));
            }
        }
    }
    None
}
