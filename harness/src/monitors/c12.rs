//! C12 — the session can always be reconnected, whatever happened before.

use crate::exec::*;
use crate::genr::{RT_PID, RT_TOPIC};
use crate::refcodec::{CPacket, SPacket};
use crate::runner::CaseOut;
use crate::steps::Step;
use crate::trace::*;

pub fn check(t: &Trace<'_>, out: &mut CaseOut) -> bool {
    let Some(from) = t.log.epilogue_from else { return false };
    let w = t.w;
    // the connect of the benign continuation
    let Some((ci, cop)) = t.log.ops.iter().enumerate().find(|(_, o)| o.step >= from && o.kind == "connect") else { return false };
    let Some(conn) = cop.conn else { return false };
    let cinfo = &t.conns[conn];
    // what did the history before look like? (coverage)
    let before: Vec<&OpRec> = t.log.ops[..ci].iter().collect();
    let last = before.iter().rev().find(|o| o.kind != "burn");
    let mut nontrivial = false;
    if let Some(l) = last {
        out.key(format!("prior-end/{}/{}", l.kind, super::outcome_class(&l.outcome)));
        if !matches!(l.outcome, Outcome::Ok(_)) {
            nontrivial = true;
        }
    }
    let snap0 = cop.snap_before.as_ref();
    let retained_before = snap0.map(|s| s.tx.retained.len() + s.tx.release.len() + s.tx.control.len()).unwrap_or(0);
    if retained_before > 0 {
        out.count("reconnects_with_inflight_state", 1);
        nontrivial = true;
        if matches!(cinfo.connack, Some((false, 0, _))) {
            out.count("reconnects_with_inflight_state_on_a_broker_that_lost_the_session", 1);
        }
    }
    if let Some(s) = snap0 {
        let fill = if s.tx.capacity == 0 { 100 } else { 100 * s.tx.retained.iter().map(|e| e.len).sum::<usize>() / s.tx.capacity };
        out.key(format!("arena-fill/{}", fill / 10 * 10));
        if s.tx.retained.len() == 8 {
            out.count("reconnects_with_all_slots_used", 1);
        }
        if s.reader_read_bytes > 0 {
            out.count("reconnects_with_partial_inbound_packet", 1);
        }
        if s.pending_server_packet_ids.len() >= 8 {
            out.count("reconnects_with_full_inbound_qos2_table", 1);
            nontrivial = true;
        }
    }
    // configurations in which even an empty session cannot encode its CONNECT are excluded
    let first_connect = t.log.ops.iter().find(|o| o.kind == "connect");
    let unusable_cfg = first_connect.is_some_and(|o| o.outcome == Outcome::Err(ErrRepr::BufferTooSmall) && o.snap_before.as_ref().is_some_and(|s| s.tx.retained.is_empty()));
    if unusable_cfg {
        out.count("excluded_tx_too_small_for_connect", 1);
        return false;
    }
    out.count("reconnects_judged", 1);
    // what the connection negotiated is what this CONNACK says, nothing left over from earlier ones
    if let (Outcome::Ok(_), Some(a)) = (&cop.outcome, cop.snap_after.as_ref()) {
        let want_mps = cinfo.mps;
        let want_qos = cinfo.maxqos;
        let want_ka = cinfo.ska.unwrap_or(t.log.cfg.keepalive) as u64 * 1000;
        if a.maximum_packet_size != want_mps || a.max_qos != want_qos || a.keepalive_ms != want_ka {
            out.violations.push(viol("C12", "C12/negotiated-values-left-over", format!("conn {}: after connect the session uses Maximum Packet Size {:?}, Maximum QoS {:?}, keep-alive {} ms; this CONNACK says {:?}, {:?}, {} ms", conn, a.maximum_packet_size, a.max_qos, a.keepalive_ms, want_mps, want_qos, want_ka)));
        }
        out.count("negotiated_values_compared", 1);
        // ... and so is the keep-alive schedule: the first PINGREQ of this connection is due within
        // this connection's keep-alive (and not before half of it), counted from the handshake;
        // none is scheduled when keep-alive is off; no PINGREQ is considered outstanding
        let (lo, hi) = (cop.t_call + want_ka * 1000 / 2, cop.t_ret + want_ka * 1000);
        let ok = match a.next_ping {
            None => want_ka == 0,
            Some(np) => want_ka != 0 && np >= lo && np <= hi,
        };
        if !ok || a.ping_timeout.is_some() {
            out.violations.push(viol("C12", "C12/keepalive-schedule-left-over", format!("conn {}: connect() ran from {} to {} and this CONNACK makes the keep-alive {} ms, yet afterwards the next PINGREQ is scheduled for {:?} and a PINGRESP is awaited until {:?}", conn, cop.t_call, cop.t_ret, want_ka, a.next_ping, a.ping_timeout)));
        }
        // the send window after connect() is what this CONNACK grants minus what is in flight
        // (retained QoS 1/2 publishes, which will be replayed, and exchanges awaiting PUBCOMP)
        if let Some(p) = t.log.probes.iter().find(|p| p.ev > cop.ev_ret && p.snap.is_some()) {
            let publishes = p.arena.iter().filter(|(_, b)| b.first().is_some_and(|x| x >> 4 == 3)).count();
            let inflight = publishes + a.tx.release.len();
            let window = cinfo.connack.as_ref().and_then(|k| k.2.iter().find_map(|q| if let crate::refcodec::Prop::ReceiveMaximum(v) = q { Some(*v as usize) } else { None })).unwrap_or(65535).min(8);
            out.count("send_windows_compared_after_reconnect", 1);
            if p.arena.len() == a.tx.retained.len() && a.send_quota as usize != window.saturating_sub(inflight) {
                out.violations.push(viol("C12", "C12/send-window-after-reconnect", format!("conn {}: after connect() the send quota is {} although the CONNACK grants {} and {} QoS 1/2 publishes are in flight ({} retained, {} awaiting PUBCOMP): the session is not usable as the broker expects", conn, a.send_quota, window, inflight, publishes, a.tx.release.len())));
            }
        }
        // a broker that reports no session: nothing of the old one is left to (re)send or to
        // hold a slot of the new send window
        if matches!(cinfo.connack, Some((false, 0, _))) {
            out.count("fresh_session_states_examined", 1);
            if !a.tx.retained.is_empty() || !a.tx.release.is_empty() || !a.tx.control.is_empty() || a.send_quota != a.max_send_quota || !a.pending_server_packet_ids.is_empty() {
                out.violations.push(viol("C12", "C12/fresh-session-carries-old-state", format!("conn {}: the CONNACK reports no session, yet after connect() the session holds retained {:?}, PUBRELs {:?}, owed control packets {:?}, inbound QoS 2 identifiers {:?}, send quota {}/{}", conn, a.tx.retained.iter().map(|e| e.packet_id).collect::<Vec<_>>(), a.tx.release.iter().map(|e| e.packet_id).collect::<Vec<_>>(), a.tx.control.iter().map(|e| (e.kind, e.packet_id)).collect::<Vec<_>>(), a.pending_server_packet_ids.as_slice(), a.send_quota, a.max_send_quota)));
            }
        }
    }
    match &cop.outcome {
        Outcome::Ok(_) => {}
        Outcome::Err(e) => {
            let full = snap0.is_some_and(|s| !s.tx.retained.is_empty());
            if *e == ErrRepr::BufferTooSmall && !full {
                // even the empty arena cannot hold this session's CONNECT (e.g. after the broker
                // assigned a longer client identifier): documented configuration error
                out.count("excluded_tx_too_small_for_connect", 1);
                return false;
            }
            let rx_too_small = rx_smaller_than_connect(t, conn);
            // (the known finding is about a CONNECT that fits neither the free arena nor the
            // receive buffer; where the free arena - retained packets moved together - has the
            // room, nothing excuses the failure)
            let arena_has_room = snap0.zip(connect_room_needed(t, conn)).is_some_and(|(s, need)| s.tx.capacity.saturating_sub(s.tx.retained.iter().map(|e| e.len).sum::<usize>()) >= need);
            let sig = match (e, full) {
                (ErrRepr::BufferTooSmall, true) if arena_has_room => "C12/connect/BufferTooSmall/although-the-arena-has-room".to_string(),
                (ErrRepr::BufferTooSmall, true) if rx_too_small => "C12/connect/BufferTooSmall/arena-occupied-and-rx-smaller-than-CONNECT".to_string(),
                (ErrRepr::BufferTooSmall, true) => "C12/connect/BufferTooSmall/arena-occupied".to_string(),
                _ => format!("C12/connect/{:?}", e),
            };
            out.violations.push(viol("C12", sig, format!("connect() over a healthy transport to a conformant broker returned {:?} (retained before: {:?})", e, snap0.map(|s| s.tx.retained.iter().map(|e| (e.packet_id, e.len)).collect::<Vec<_>>()))));
            return nontrivial;
        }
        o => {
            out.violations.push(viol("C12", "C12/connect/did-not-complete", format!("connect() over a healthy transport ended with {:?}", o)));
            return nontrivial;
        }
    }
    // starts with one complete CONNECT, nothing carried over
    let c = &w.conns[conn];
    match c.out.packets.first().map(|p| &p.pkt) {
        Some(CPacket::Connect { .. }) if c.out.packets[0].start == 0 => {}
        other => out.violations.push(viol("C12", "C12/stream-does-not-start-with-CONNECT", format!("conn {}: first packet {:?}", conn, other.map(|p| p.type_name())))),
    }
    if let Some((off, msg)) = &c.out.error {
        out.violations.push(viol("C12", "C12/outbound-residue", format!("conn {}: outbound stream not parseable at offset {}: {}", conn, off, msg)));
    }
    // no inbound residue: the first packet consumed is this connection's CONNACK and the connect succeeded
    if !cinfo.connack_consumed {
        out.violations.push(viol("C12", "C12/inbound-residue", format!("conn {}: connect() succeeded without consuming the CONNACK", conn)));
    }
    // nothing of an earlier connection may be written here: in particular no DISCONNECT that a
    // cancelled disconnect() on an earlier handle had begun
    if c.out.packets.iter().any(|p| matches!(p.pkt, CPacket::Disconnect { .. })) {
        out.violations.push(viol("C12", "C12/outbound-residue/DISCONNECT", format!("conn {}: a DISCONNECT was written on the fresh connection although disconnect() was not called on it", conn)));
    }
    // the healthy transport and conformant broker give the handle no reason to die
    if let Some(o) = t.log.ops.iter().find(|o| o.conn == Some(conn) && o.step > cop.step && matches!(o.outcome, Outcome::Err(ErrRepr::Disconnected | ErrRepr::Transport(_) | ErrRepr::InvalidPacket))) {
        out.violations.push(viol("C12", "C12/not-usable/handle-died", format!("after the reconnect {} returned {:?} although transport and broker are healthy", o.kind, o.outcome)));
        return nontrivial;
    }
    // fully usable afterwards (only for configurations that can hold the round-trip packets)
    if t.log.cfg.tx >= 64 && t.log.cfg.rx >= 32 {
        let after: Vec<(usize, &OpRec)> = t.log.ops.iter().enumerate().filter(|(_, o)| o.conn == Some(conn) && o.step > cop.step).collect();
        let sub = after.iter().find(|(_, o)| matches!(&t.log.steps[o.step], Step::Subscribe(s) if s.filters.first().is_some_and(|f| f.filter == RT_TOPIC)));
        let publ = after.iter().find(|(_, o)| matches!(&t.log.steps[o.step], Step::Publish(s) if s.topic == RT_TOPIC));
        if let (Some((_, sub)), Some((_, publ))) = (sub, publ) {
            out.count("round_trips_attempted", 1);
            let final_status = t.log.probes.last().map(|p| p.status.clone()).unwrap_or_default();
            let done = |o: &OpRec| match &o.outcome {
                Outcome::Ok(OkKind::Handle(h)) => final_status.get(*h) == Some(&2),
                _ => false,
            };
            if !done(sub) {
                out.violations.push(viol("C12", "C12/not-usable/subscribe", format!("after the reconnect subscribe returned {:?} and did not complete", sub.outcome)));
            }
            if !done(publ) {
                out.violations.push(viol("C12", "C12/not-usable/publish", format!("after the reconnect publish returned {:?} and did not complete", publ.outcome)));
            }
            let got = t.log.msgs.iter().any(|m| m.conn == conn && m.topic == RT_TOPIC && m.payload == [0xa5]);
            let sent = c.in_pkts.iter().any(|p| matches!(&p.pkt, Some(SPacket::Publish { pid: Some(RT_PID), .. })));
            if sent && !got {
                out.violations.push(viol("C12", "C12/not-usable/inbound", "after the reconnect the inbound QoS 1 publish was not delivered".to_string()));
            }
            let acked = c.out.packets.iter().any(|p| matches!(p.pkt, CPacket::PubAck { pid: RT_PID, .. }));
            if sent && got && !acked {
                out.violations.push(viol("C12", "C12/not-usable/inbound-ack", "the inbound QoS 1 publish was delivered but never acknowledged".to_string()));
            }
            if done(sub) && done(publ) && got {
                out.count("round_trips_completed", 1);
            }
        }
    }
    nontrivial
}

/// Is the receive buffer too small to encode this session's CONNECT in it? (The CONNECT is
/// encoded in the free part of the transmit arena or, failing that, in the idle receive buffer.)
/// Room (bytes of scratch) that encoding this session's CONNECT takes: its body plus the five
/// bytes the encoder reserves for the fixed header.
pub fn connect_room_needed(t: &Trace<'_>, conn: usize) -> Option<usize> {
    let w = t.w;
    // size of this session's CONNECT, from any earlier connection that got it onto the wire
    // (the encoder reserves 5 bytes for the fixed header in front of the body)
    let connect_need = w
        .conns
        .iter()
        .filter_map(|c| c.out.packets.first().filter(|p| matches!(p.pkt, CPacket::Connect { .. })).map(|p| {
            let len = p.end - p.start;
            let hdr = 1 + crate::refcodec::varint_len((len - 2) as u32).min(len - 1);
            // the identifier may have been replaced by a (longer) broker-assigned one since
            let seen_id = match &p.pkt {
        CPacket::Connect { client_id, .. } => client_id.len(),
        _ => 0,
            };
            let now_id = t.conns[..conn].iter().rev().find(|c| c.established && c.assigned.is_some()).and_then(|c| c.assigned.as_ref()).map(|s| s.len()).unwrap_or(t.log.cfg.client_id.len());
            len - hdr + 5 + now_id.saturating_sub(seen_id)
        }))
        .max();
    connect_need
}

pub fn rx_smaller_than_connect(t: &Trace<'_>, conn: usize) -> bool {
    connect_room_needed(t, conn).is_none_or(|l| t.log.cfg.rx < l)
}
