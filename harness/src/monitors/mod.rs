//! Per-property monitors: pure functions over the recorded execution.
pub mod c01;
pub mod c02;
pub mod c03;
pub mod c04;
pub mod c05;
pub mod c06;
pub mod c07;
pub mod c09;
pub mod c10;
pub mod c11;
pub mod c12;
pub mod c16;
pub mod c17;
pub mod c14;
pub mod c18;

use crate::exec::*;
use crate::world::*;

/// Cumulative outbound offsets: for every write event of `conn`, (event index, offset after it).
pub fn write_offsets(w: &World, conn: usize) -> Vec<(usize, usize)> {
    let mut off = 0usize;
    let mut v = Vec::new();
    for (i, e) in w.events.iter().enumerate() {
        if let Ev::Io { conn: c, kind: IoKind::Write, ans: IoAns::Bytes(k), .. } = e {
            if *c == conn {
                off += k;
                v.push((i, off));
            }
        }
    }
    v
}

/// Is `off` a packet boundary of the connection's outbound stream (as far as it was parsed)?
pub fn at_boundary(w: &World, conn: usize, off: usize) -> bool {
    let s = &w.conns[conn].out;
    off == 0 || s.packets.iter().any(|p| p.end == off)
}

pub fn outcome_class(o: &Outcome) -> &'static str {
    match o {
        Outcome::Ok(_) => "ok",
        Outcome::Err(_) => "err",
        Outcome::Cancelled => "cancelled",
        Outcome::CallerTimeout => "timeout",
        Outcome::Watchdog => "watchdog",
        Outcome::Skipped => "skipped",
    }
}
