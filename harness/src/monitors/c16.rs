//! C16 — with a responsive broker every accepted operation completes and the session quiesces
//! (bounded progress under the benign continuation).

use crate::exec::*;
use crate::model::*;
use crate::runner::CaseOut;
use crate::trace::*;
use crate::world::{Ev, IoAns, IoKind};

pub const POLL_BOUND_BASE: usize = 8 * 24 + 16;

pub fn check(t: &Trace<'_>, out: &mut CaseOut) -> bool {
    let w = t.w;
    // spinning anywhere in the history is a violation of "no operation loops without bound"
    for (ev, e) in w.events.iter().enumerate() {
        if matches!(e, Ev::ClockSpin) {
            let kind = t.op_at(ev).map(|o| t.log.ops[o].kind).unwrap_or("?");
            out.violations.push(viol("C16", format!("C16/spin/clock-busy-wait/{}", kind), format!("{} read the clock more than 20000 times without yielding to the executor: it busy-waits on a deadline that lies in the past", kind)));
        }
        if matches!(e, Ev::Watchdog) {
            let kind = t.op_at(ev).map(|o| t.log.ops[o].kind).unwrap_or("?");
            out.violations.push(viol("C16", format!("C16/spin/{}", kind), format!("{} exceeded the per-call budget of {} transport calls / {} bytes without returning", kind, w.budget_calls, w.budget_bytes)));
        }
    }
    // the part of the continuation that stays on the connection the history ended on: transport
    // and broker behave from there on; what may legitimately end that connection now (a parked
    // DISCONNECT, an unanswered PINGREQ, an owed packet above the broker's limit, bytes of the
    // broker that are not MQTT, a stream the history left broken) is not judged, but these are
    // never an answer to poll() there: no room in a queue of the client's own, and "the transport
    // accepted nothing" when it took every byte it was offered
    if let Some(sf) = t.log.stay_from {
        out.count("continuations_begun_on_the_live_connection", 1);
        let upto = t.log.epilogue_from.unwrap_or(usize::MAX);
        for o in t.log.ops.iter().filter(|o| o.step >= sf && o.step < upto && o.kind == "poll") {
            match &o.outcome {
                Outcome::Err(ErrRepr::InflightExhausted) if !t.log.hostile => {
                    let s = o.snap_before.as_ref();
                    out.violations.push(viol("C16", "C16/live-connection/poll-refused-for-a-full-queue", format!("transport and broker behave, the connection is up, and poll() returns InflightExhausted (owed control packets {:?}, retained {:?}): nothing the session holds can complete on this connection", s.map(|s| s.tx.control.iter().map(|e| (e.kind, e.packet_id)).collect::<Vec<_>>()), s.map(|s| s.tx.retained.iter().map(|e| e.packet_id).collect::<Vec<_>>()))));
                    return true;
                }
                Outcome::Err(ErrRepr::WriteZero) => {
                    let cause = w.events[o.ev_call..=o.ev_ret.min(w.events.len() - 1)].iter().any(|e| matches!(e, Ev::Io { kind: IoKind::Write, req, ans: IoAns::Zero, .. } if *req > 0));
                    if !cause {
                        out.violations.push(viol("C16", "C16/live-connection/write-zero-nobody-caused", "transport and broker behave, the connection is up, and poll() returns WriteZero although every write that offered a byte took at least one".to_string()));
                        return true;
                    }
                }
                Outcome::Err(e) => out.key(format!("live-connection-ended/{:?}", e).chars().take(60).collect::<String>()),
                _ => {}
            }
        }
    }
    let Some(from) = t.log.epilogue_from else { return false };
    let Some((ci, cop)) = t.log.ops.iter().enumerate().find(|(_, o)| o.step >= from && o.kind == "connect") else { return false };
    let Some(conn) = cop.conn else { return false };
    if t.conns[conn].mps.is_some() {
        out.count("continuations_with_tight_packet_size_limit", 1);
    }
    // a connection on which transport and application behaved (no fault, no end of stream, no
    // operation given up) and the client nevertheless put something on the wire that is not a
    // sequence of MQTT packets: no broker can answer the operations it accepted there, however
    // often poll() is called, and the client does not notice
    for ci2 in t.conns.iter().filter(|c| c.idx != conn) {
        let c = &w.conns[ci2.idx];
        let Some((off, why)) = &c.out.error else { continue };
        let disturbed = w.events[ci2.ev_begin..ci2.ev_end.min(w.events.len())].iter().any(|e| matches!(e, Ev::Io { ans: IoAns::Err(_) | IoAns::Eof | IoAns::Zero, .. }))
            || t.log.ops.iter().any(|o| o.conn == Some(ci2.idx) && matches!(o.outcome, Outcome::Cancelled | Outcome::Watchdog))
            || t.log.ops.iter().any(|o| o.conn == Some(ci2.idx) && !matches!(o.kind, "poll" | "recv" | "pollreply") && matches!(o.outcome, Outcome::CallerTimeout));
        if !disturbed {
            out.violations.push(viol("C16", "C16/stream-corrupted-on-a-healthy-connection", format!("conn {}: nothing failed and no call was given up, yet the outbound stream stops being MQTT at offset {} ({}): the operations accepted on this connection cannot complete on it", ci2.idx, off, why)));
            break;
        }
    }
    if !matches!(cop.outcome, Outcome::Ok(_)) {
        // reconnecting itself failed: C12's business in general, nothing to drain here. One case
        // is C16's as well: the session holds accepted operations and can never get a connection
        // again although its CONNECT would fit a buffer it has (the C12 known finding - arena
        // occupied and receive buffer smaller than the CONNECT - is the documented exception)
        out.count("continuations_without_connection", 1);
        let held = cop.snap_before.as_ref().is_some_and(|s| !s.tx.retained.is_empty() || !s.tx.release.is_empty());
        if cop.outcome == Outcome::Err(ErrRepr::BufferTooSmall) && held && !super::c12::rx_smaller_than_connect(t, conn) {
            out.violations.push(viol("C16", "C16/cannot-reconnect-although-the-connect-fits", format!("the benign continuation's connect() returned BufferTooSmall with operations still held (retained {:?}); the receive buffer of {} bytes could have taken the CONNECT: the session can never resume and its operations never complete", cop.snap_before.as_ref().map(|s| s.tx.retained.iter().map(|e| (e.packet_id, e.len)).collect::<Vec<_>>()), t.log.cfg.rx)));
        }
        return false;
    }
    let snap0 = cop.snap_before.as_ref();
    let queued = snap0.map(|s| s.tx.retained.len() + s.tx.release.len() + s.tx.control.len()).unwrap_or(0);
    let nontrivial = queued > 0 || t.log.ops[..ci].iter().rev().find(|o| o.kind != "burn").is_some_and(|o| !matches!(o.outcome, Outcome::Ok(_)));
    if let Some(s) = snap0 {
        out.key(format!("end-state/ret{}-rel{}-ctl{}-in{}", s.tx.retained.len(), s.tx.release.len(), s.tx.control.len(), s.pending_server_packet_ids.len()));
    }
    out.count("continuations_judged", 1);
    let polls: Vec<&OpRec> = t.log.ops.iter().filter(|o| o.conn == Some(conn) && o.step > cop.step && matches!(o.kind, "poll" | "drive")).collect();
    let backlog = w.conns[conn].in_pkts.len();
    let bound = POLL_BOUND_BASE + 8 * backlog;
    let idle_at = polls.iter().position(|o| o.outcome == Outcome::CallerTimeout);
    out.key(format!("polls-needed/{}", idle_at.unwrap_or(polls.len()).min(60)));
    let mut bytes = 0usize;
    for (i, o) in polls.iter().enumerate() {
        bytes += o.out_after - o.out_before;
        match &o.outcome {
            Outcome::Ok(OkKind::None) if o.kind == "poll" => {
                // poll() returns without a message only after real wire progress
                let progress = w.events[o.ev_call..o.ev_ret].iter().any(|e| matches!(e, Ev::Io { ans: IoAns::Bytes(n), .. } if *n > 0) || matches!(e, Ev::Io { kind: IoKind::Flush, ans: IoAns::Done, .. }));
                let buffered = o.snap_before.as_ref().is_some_and(|s| s.reader_packet_length.is_some_and(|l| s.reader_read_bytes >= l));
                if !progress && !buffered {
                    out.violations.push(viol("C16", "C16/poll-returned-without-progress", format!("poll #{} of the continuation returned Ok(None) without a byte read or written, a completed flush or a buffered packet", i)));
                }
            }
            Outcome::Ok(_) | Outcome::CallerTimeout | Outcome::Err(ErrRepr::Rejected(_)) => {}
            Outcome::Watchdog => {}
            other => {
                out.violations.push(viol("C16", format!("C16/error-under-benign-conditions/{}", match other { Outcome::Err(e) => format!("{:?}", e), o => format!("{:?}", o) }), format!("{} #{} of the benign continuation returned {:?}", o.kind, i, other)));
                return nontrivial;
            }
        }
    }
    out.count("continuation_bytes", bytes as u64);
    match idle_at {
        None => {
            if polls.len() >= bound.min(t.log.epilogue_polls_max) {
                out.violations.push(viol("C16", "C16/not-idle-within-bound", format!("the client was still making progress after {} polls (bound {})", polls.len(), bound)));
            }
            return nontrivial;
        }
        Some(n) => {
            out.count("polls_until_idle", n as u64);
        }
    }
    // quiescent, every accepted operation complete, every owed ack on the wire
    let Some(p) = t.log.probes.iter().rev().find(|p| p.conn == Some(conn) && p.has_handle) else { return nontrivial };
    let m = Model::build(t);
    if !p.quiescent {
        let s = p.snap.as_ref();
        out.violations.push(viol("C16", "C16/not-quiescent-when-idle", format!("client idle but is_publish_quiescent()=false: retained {:?} release {:?} control {:?}", s.map(|s| s.tx.retained.iter().map(|e| e.packet_id).collect::<Vec<_>>()), s.map(|s| s.tx.release.iter().map(|e| e.packet_id).collect::<Vec<_>>()), s.map(|s| s.tx.control.iter().map(|e| (e.kind, e.packet_id)).collect::<Vec<_>>()))));
    }
    for (h, st) in p.status.iter().enumerate() {
        if *st == 1 {
            let hr = &t.log.handles[h];
            let dropped = m.msgs.iter().any(|x| x.handle == Some(h) && x.dropped_ev.is_some());
            let _ = dropped;
            out.violations.push(viol("C16", format!("C16/operation-still-pending-when-idle/{}", hr.kind), format!("handle {} ({} id {:?}) is still pending although the client is idle under a responsive broker", h, hr.kind, hr.pid)));
        }
    }
    if let Some(s) = &p.snap {
        if !s.tx.control.is_empty() {
            out.violations.push(viol("C16", "C16/owed-ack-not-sent-when-idle", format!("idle with owed control packets {:?}", s.tx.control.iter().map(|e| (e.kind, e.packet_id)).collect::<Vec<_>>())));
        }
    }
    out.count("quiescent_in_the_end", 1);
    nontrivial
}
