//! C05 — fresh vs. resumed broker session is mirrored in local state and replay.

use crate::exec::*;
use crate::model::*;
use crate::refcodec::{CPacket, Prop, SPacket};
use crate::runner::CaseOut;
use crate::trace::*;
use crate::world::Ev;

pub fn check(t: &Trace<'_>, out: &mut CaseOut) -> bool {
    let m = Model::build(t);
    let w = t.w;
    let mut nontrivial = false;
    // --- CONNECT flags and client identifier
    let mut had_success = false; // a connect() returned Ok before this connection
    let mut dont_care = false; // reason-0/sp-0 CONNACK consumed but connect() failed afterwards
    let mut expect_id = t.log.cfg.client_id.clone();
    for ci in &t.conns {
        let c = &w.conns[ci.idx];
        if let Some(CPacket::Connect { clean_start, client_id, .. }) = c.out.packets.first().map(|p| &p.pkt) {
            out.count("connects_decoded", 1);
            if !dont_care {
                let want = !had_success;
                if *clean_start != want {
                    out.violations.push(viol(
                        "C05",
                        format!("C05/clean-start/{}", if want { "missing-before-first-success" } else { "set-after-success" }),
                        format!("conn {}: CONNECT clean_start={} but {} connect() had succeeded before", ci.idx, clean_start, if had_success { "a" } else { "no" }),
                    ));
                }
            }
            if *client_id != expect_id {
                out.violations.push(viol("C05", "C05/client-id", format!("conn {}: CONNECT client id {:?}, expected {:?}", ci.idx, client_id, expect_id)));
            }
        }
        if ci.established {
            had_success = true;
            dont_care = false;
            if let Some(id) = &ci.assigned {
                expect_id = id.clone();
            }
        } else if ci.connack_consumed && matches!(ci.connack, Some((false, 0, _))) && had_success {
            // fresh-session CONNACK consumed, then rejected for its properties: the local session is
            // already discarded, and whether the next CONNECT asks to resume is not specified.
            // (Without any earlier success the answer is clear: no CONNACK has been successful
            // yet, so the next CONNECT still asks for a clean start.)
            dont_care = true;
            if let Some(id) = &ci.assigned {
                // the identifier may or may not have been adopted before the failure
                let _ = id;
            }
        }
        // --- a fresh broker session starts with nothing in flight: the whole send window of this
        // CONNACK is free, no table holds anything
        if let (Some(op), Some((false, 0, _))) = (ci.connect_op, &ci.connack) {
            let o = &t.log.ops[op];
            if let (Outcome::Ok(_), Some(a)) = (&o.outcome, o.snap_after.as_ref()) {
                out.count("fresh_sessions_inspected", 1);
                if a.send_quota != a.max_send_quota || !a.tx.retained.is_empty() || !a.tx.release.is_empty() {
                    out.violations.push(viol("C05", "C05/fresh-session/old-state-still-counts", format!("conn {}: the CONNACK reports no session, yet after connect() the send quota is {} of {} and the session holds retained {:?} / releases {:?}", ci.idx, a.send_quota, a.max_send_quota, a.tx.retained.iter().map(|e| e.packet_id).collect::<Vec<_>>(), a.tx.release.iter().map(|e| e.packet_id).collect::<Vec<_>>())));
                }
            }
        }
        // --- connect event mirrors session present
        if let (Some(op), Some((sp, 0, _))) = (ci.connect_op, &ci.connack) {
            match (&t.log.ops[op].outcome, sp) {
                (Outcome::Ok(OkKind::Connected), true) => out.violations.push(viol("C05", "C05/event/connected-on-resume", format!("conn {}: session present but connect() yielded Connected", ci.idx))),
                (Outcome::Ok(OkKind::Reconnected), false) => out.violations.push(viol("C05", "C05/event/reconnected-on-fresh", format!("conn {}: no session present but connect() yielded Reconnected", ci.idx))),
                _ => {}
            }
        }
    }
    // --- nothing from a discarded session is ever transmitted
    for o in &m.orphans {
        out.violations.push(viol("C05", format!("C05/stale-transmission/{}", o.what.split(' ').next().unwrap_or("?")), format!("conn {}: {} does not belong to any request of the current broker session", o.tx.conn, o.what)));
    }
    // owed acknowledgements from before a fresh session must not appear either
    {
        let mut owed: Vec<(u8, u16)> = Vec::new(); // acks the client may legitimately send
        for (ev, e) in w.events.iter().enumerate() {
            match e {
                Ev::Consumed { conn, idx } => match &w.conns[*conn].in_pkts[*idx].pkt {
                    Some(SPacket::ConnAck { sp: false, reason: 0, .. }) => owed.clear(),
                    Some(SPacket::Publish { qos: 1, pid: Some(p), .. }) => owed.push((4, *p)),
                    Some(SPacket::Publish { qos: 2, pid: Some(p), .. }) => owed.push((5, *p)),
                    Some(SPacket::PubRel { pid, .. }) => owed.push((7, *pid)),
                    _ => {}
                },
                Ev::CPkt { conn, idx } => {
                    let k = match &w.conns[*conn].out.packets[*idx].pkt {
                        CPacket::PubAck { pid, .. } => Some((4u8, *pid)),
                        CPacket::PubRec { pid, .. } => Some((5, *pid)),
                        CPacket::PubComp { pid, .. } => Some((7, *pid)),
                        _ => None,
                    };
                    if let Some(k) = k {
                        if !owed.contains(&k) {
                            out.violations.push(viol("C05", "C05/stale-transmission/ack", format!("conn {} event {}: acknowledgement type {} id {} is not owed in the current broker session", conn, ev, k.0, k.1)));
                        }
                    }
                }
                _ => {}
            }
        }
    }
    // --- handles issued before a fresh session report invalidated (probe right after connect)
    for ci in t.conns.iter().filter(|c| matches!(c.connack, Some((false, 0, _))) && c.connack_consumed) {
        let ev0 = ci.ev_connack_consumed.unwrap();
        // ... at every probe from then on (new operations of the fresh session reuse the identifiers)
        let mut first = true;
        'probes: for pi in w.events[ev0..].iter().filter_map(|e| match e { Ev::Probe { idx } => Some(*idx), _ => None }) {
            let p = &t.log.probes[pi];
            for (h, st) in p.status.iter().enumerate() {
                let issued_before = t.log.ops[t.log.handles[h].op].ev_ret < ev0;
                if issued_before {
                    out.count("handles_checked_after_fresh_session", 1);
                    if *st != 4 {
                        let reused = t.log.handles[h].pid.is_some_and(|pid| p.snap.as_ref().is_some_and(|s| s.tx.retained.iter().any(|e| e.packet_id == pid) || s.tx.release.iter().any(|e| e.packet_id == pid)));
                        let sig = if first { "C05/handle-not-invalidated" } else if reused { "C05/handle-not-invalidated/identifier-reused-by-new-operation" } else { "C05/handle-not-invalidated/later" };
                        out.violations.push(viol("C05", sig, format!("handle {} issued before the fresh session on conn {} reports status bits {:#05b} at probe {}", h, ci.idx, st, pi)));
                        break 'probes;
                    }
                    if !first && t.log.handles[h].pid.is_some_and(|pid| p.snap.as_ref().is_some_and(|s| s.tx.retained.iter().any(|e| e.packet_id == pid))) {
                        out.count("old_handles_checked_while_identifier_reused", 1);
                    }
                }
            }
            first = false;
        }
    }
    // --- resumed session: everything unacknowledged is retransmitted exactly once, before anything new
    for ci in t.conns.iter().filter(|c| c.established && c.connack.as_ref().is_some_and(|k| k.0)) {
        let t0 = t.log.ops[ci.connect_op.unwrap()].ev_ret;
        let owed: Vec<&OutMsg> = m.msgs.iter().filter(|x| x.ev_accept < ci.ev_begin && x.outstanding_at(t0)).collect();
        if !owed.is_empty() {
            out.count("resumes_with_inflight", 1);
            out.key(format!("resume-mix/{}", {
                let mut k: Vec<&str> = owed.iter().map(|x| if x.releasing_at(t0) { "release" } else { x.kind }).collect();
                k.sort();
                k.dedup();
                k.join("+")
            }));
            nontrivial = true;
        }
        // first packet bearing a new identifier
        let first_new = m
            .msgs
            .iter()
            .filter(|x| x.conn0 == ci.idx && x.ev_accept > t0)
            .filter_map(|x| x.txs.iter().filter(|tx| tx.conn == ci.idx).map(|tx| tx.ev).min())
            .min();
        let e_d = drained_at(t, ci.idx);
        for msg in &owed {
            let evs: Vec<usize> = if msg.releasing_at(t0) {
                msg.rels.iter().filter(|r| r.conn == ci.idx).map(|r| r.ev).collect()
            } else {
                msg.txs.iter().filter(|r| r.conn == ci.idx).map(|r| r.ev).collect()
            };
            // what goes out again is the packet that was owed, not another one under its identifier
            if !msg.releasing_at(t0) {
                if let (Some(first), Some(again)) = (msg.txs.iter().find(|x| x.conn < ci.idx), msg.txs.iter().find(|x| x.conn == ci.idx)) {
                    let (a, b) = (raw(t.w, first), raw(t.w, again));
                    out.count("replays_compared_with_the_first_transmission", 1);
                    if a.len() != b.len() || a[1..] != b[1..] || (a[0] & !8) != (b[0] & !8) {
                        out.violations.push(viol("C05", format!("C05/not-replayed/{}/another-packet-under-its-identifier", msg.kind), format!("conn {}: op#{} id {} was owed, but what went out under its identifier is not that packet: {:02x?} first, {:02x?} now", ci.idx, msg.op, msg.pid, &a[..a.len().min(40)], &b[..b.len().min(40)])));
                    }
                }
            }
            if evs.len() > 1 {
                out.violations.push(viol("C05", format!("C05/replayed-twice/{}", msg.kind), format!("conn {}: op#{} id {} retransmitted {} times", ci.idx, msg.op, msg.pid, evs.len())));
            }
            if let (Some(fe), Some(fnew)) = (evs.first(), first_new) {
                if *fe > fnew {
                    out.violations.push(viol("C05", "C05/new-before-replay", format!("conn {}: a packet with a new identifier was sent (event {}) before op#{} id {} was retransmitted (event {})", ci.idx, fnew, msg.op, msg.pid, fe)));
                }
            }
            if let Some(e_d) = e_d {
                if evs.iter().all(|e| *e > e_d) && msg.outstanding_at(e_d) {
                    if first_new.is_some_and(|f| f < e_d) || evs.is_empty() {
                        out.violations.push(viol("C05", format!("C05/not-replayed/{}", msg.kind), format!("conn {}: op#{} id {} ({}) was not retransmitted before the client went idle", ci.idx, msg.op, msg.pid, if msg.releasing_at(t0) { "PUBREL" } else { "packet" })));
                    }
                } else {
                    out.count("replays_verified", 1);
                }
            }
        }
    }
    let _ = Prop::PayloadFormat(0);
    nontrivial || t.conns.iter().filter(|c| c.established).count() >= 2
}
