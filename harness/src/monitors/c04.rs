//! C04 — inbound publishes are delivered faithfully, acknowledged in order, QoS 2 only once.

use crate::exec::*;
use crate::refcodec::{CPacket, SPacket};
use crate::runner::CaseOut;
use crate::trace::*;
use crate::world::Ev;
use std::collections::VecDeque;

#[derive(Clone, Debug, PartialEq)]
struct Owed {
    kind: u8,
    pid: u16,
    reason: u8,
    written_on: Option<usize>,
}

pub fn check(t: &Trace<'_>, out: &mut CaseOut) -> bool {
    let w = t.w;
    let hostile = t.log.hostile;
    let mut nontrivial = false;
    let mut pending: Vec<u16> = Vec::new();
    let mut owed: VecDeque<Owed> = VecDeque::new();
    // expected deliveries: (conn, idx of broker packet)
    // how many inbound QoS 2 exchanges the client said it can hold (Receive Maximum of the CONNECT
    // it wrote on that connection): up to that many must be accepted
    let advertised = |conn: usize| -> usize {
        match w.conns[conn].out.packets.first().map(|p| &p.pkt) {
            Some(CPacket::Connect { props, .. }) => props.iter().find_map(|p| if let crate::refcodec::Prop::ReceiveMaximum(v) = p { Some(*v as usize) } else { None }).unwrap_or(65535),
            _ => 8,
        }
    };
    let mut expect: VecDeque<(usize, usize)> = VecDeque::new();
    let mut received: Vec<(u8, u16)> = Vec::new();
    let mut broken = false; // an ack could not be produced: the rest of the history is not judged
    let mut exceeded = false; // the broker sent more QoS 2 publishes than the advertised window holds
    // acknowledgements are only judged when every connection's outbound stream could be parsed
    // (a cancelled disconnect() / QoS 0 publish leaves bytes behind that hide later packets)
    let acks_judged = t.conns.iter().all(|c| c.stream_ok);
    // the ack most recently completed on the wire: if its flush was never attributed to it by
    // the client (e.g. the flushing call was cancelled), the client re-sends it on the next
    // connection, which is harmless and allowed
    let mut last_done: Option<(usize, (u8, u16, u8))> = None;
    for (ev, e) in w.events.iter().enumerate() {
        if broken {
            break;
        }
        match e {
            Ev::Consumed { conn, idx } => {
                let p = &w.conns[*conn].in_pkts[*idx];
                let Some(pkt) = &p.pkt else { continue };
                // the call that consumed the packet must not have failed for local reasons
                let op = t.op_at(ev).map(|o| &t.log.ops[o]);
                let failed = op.is_some_and(|o| matches!(o.outcome, Outcome::Err(ErrRepr::PacketTooLarge | ErrRepr::InvalidPacket | ErrRepr::InflightExhausted | ErrRepr::BufferTooSmall)))
                    && !w.events[ev + 1..op.unwrap().ev_ret].iter().any(|e| matches!(e, Ev::Consumed { .. }));
                match pkt {
                    SPacket::ConnAck { sp: false, reason: 0, .. } => {
                        pending.clear();
                        owed.clear();
                        last_done = None;
                    }
                    SPacket::Publish { qos, pid, .. } => {
                        if failed {
                            if matches!(op.unwrap().outcome, Outcome::Err(ErrRepr::InflightExhausted)) && !hostile {
                                out.violations.push(viol("C04", "C04/ack-dropped/control-queue-full", format!("conn {}: inbound PUBLISH (qos {}, id {:?}) could not be acknowledged: {} returned InflightExhausted", conn, qos, pid, op.unwrap().kind)));
                            }
                            // an acknowledgement is at most 5 bytes long: "does not fit the broker's
                            // Maximum Packet Size" is no excuse when the limit is 5 or more (or absent)
                            // and every packet still awaiting (re)transmission is within it
                            if matches!(op.unwrap().outcome, Outcome::Err(ErrRepr::PacketTooLarge)) {
                                let mps = t.conns.iter().find(|c| c.idx == *conn).and_then(|c| c.mps);
                                let fits = op.unwrap().snap_before.as_ref().is_some_and(|s| s.tx.retained.iter().all(|e| mps.is_none_or(|m| e.len <= m as usize)));
                                if mps.is_none_or(|m| m >= 5) && fits {
                                    out.violations.push(viol("C04", "C04/ack-refused-although-it-fits", format!("conn {}: inbound PUBLISH (qos {}, id {:?}) was neither delivered nor acknowledged: {} returned PacketTooLarge although the broker's Maximum Packet Size is {:?}", conn, qos, pid, op.unwrap().kind, mps)));
                                }
                            }
                            // acknowledgements do not live in the transmit arena: "no room" is no
                            // excuse either ("... even when the transmit arena has no free slot")
                            if matches!(op.unwrap().outcome, Outcome::Err(ErrRepr::BufferTooSmall)) && !hostile {
                                out.violations.push(viol("C04", "C04/ack-refused-for-lack-of-arena-room", format!("conn {}: inbound PUBLISH (qos {}, id {:?}) was neither delivered nor acknowledged: {} returned BufferTooSmall (arena {:?} of {} bytes used)", conn, qos, pid, op.unwrap().kind, op.unwrap().snap_before.as_ref().map(|s| s.tx.used), t.log.cfg.tx)));
                            }
                            // a PUBLISH refused because its acknowledgement cannot be sent under
                            // this connection's tiny limit has been neither delivered nor
                            // acknowledged, the connection ends: when the broker sends it again
                            // on a later connection it is a first delivery (judged below)
                            let legit_too_large = matches!(op.unwrap().outcome, Outcome::Err(ErrRepr::PacketTooLarge)) && t.conns.iter().find(|c| c.idx == *conn).and_then(|c| c.mps).is_some_and(|m| m < 5);
                            if legit_too_large {
                                out.count("publishes_refused_under_a_tiny_limit", 1);
                            } else {
                                broken = true;
                            }
                            continue;
                        }
                        out.count("inbound_publishes", 1);
                        match (*qos, *pid) {
                            (0, _) => expect.push_back((*conn, *idx)),
                            (1, Some(pid)) => {
                                received.push((4, pid));
                                let reason = if pending.contains(&pid) { 0x91 } else { 0 };
                                owed.push_back(Owed { kind: 4, pid, reason, written_on: None });
                                expect.push_back((*conn, *idx));
                            }
                            (2, Some(pid)) => {
                                received.push((5, pid));
                                if pending.contains(&pid) {
                                    owed.push_back(Owed { kind: 5, pid, reason: 0, written_on: None });
                                    out.count("duplicates_suppressed", 1);
                                    if pending.len() >= 8 {
                                        out.count("redeliveries_with_a_full_table", 1);
                                    }
                                    nontrivial = true;
                                } else if pending.len() < advertised(*conn) {
                                    if pending.len() >= 8 {
                                        out.count("inbound_qos2_accepted_beyond_eight_pending", 1);
                                    }
                                    pending.push(pid);
                                    owed.push_back(Owed { kind: 5, pid, reason: 0, written_on: None });
                                    expect.push_back((*conn, *idx));
                                } else {
                                    // the broker opens more exchanges than the client said it can
                                    // hold: from here on it is the broker that breaks the protocol,
                                    // and what the client answers is not judged
                                    out.count("broker_exceeded_the_advertised_window", 1);
                                    exceeded = true;
                                    broken = true;
                                    continue;
                                }
                                if pending.len() >= 3 {
                                    nontrivial = true;
                                }
                            }
                            _ => {}
                        }
                        // a publish that has to be surfaced is returned by the very call that read it
                        if expect.back() == Some(&(*conn, *idx)) {
                            if let Some(o) = op {
                                if matches!(o.outcome, Outcome::Ok(_)) && !w.events[ev..o.ev_ret.max(ev)].iter().any(|e| matches!(e, Ev::Delivered { .. })) && !hostile {
                                    out.violations.push(viol("C04", "C04/consumed-but-not-delivered", format!("conn {}: {} read the inbound PUBLISH (qos {}, id {:?}) within the window the client advertised ({} of {} slots taken) and returned {:?} without surfacing it", conn, o.kind, qos, pid, pending.len().saturating_sub(1), advertised(*conn), o.outcome)));
                                    broken = true;
                                }
                            }
                        }
                        // arena state at the time the ack had to be produced
                        if let Some(s) = op.and_then(|o| o.snap_before.as_ref()) {
                            if *qos > 0 && (s.tx.retained.len() == 8 || s.tx.capacity.saturating_sub(s.tx.used) < 5) {
                                out.count("acks_owed_with_full_arena", 1);
                                nontrivial = true;
                            }
                        }
                    }
                    SPacket::PubRel { pid, .. } => {
                        if failed {
                            broken = true;
                            continue;
                        }
                        received.push((7, *pid));
                        let reason = match pending.iter().position(|p| p == pid) {
                            Some(i) => {
                                pending.remove(i);
                                0
                            }
                            None => 0x92,
                        };
                        out.count(if reason == 0 { "pubrel_known" } else { "pubrel_unknown" }, 1);
                        owed.push_back(Owed { kind: 7, pid: *pid, reason, written_on: None });
                    }
                    _ => {}
                }
            }
            Ev::CPkt { conn, idx } => {
                let got = match &w.conns[*conn].out.packets[*idx].pkt {
                    CPacket::PubAck { pid, reason, .. } => (4u8, *pid, *reason),
                    CPacket::PubRec { pid, reason, .. } => (5, *pid, *reason),
                    CPacket::PubComp { pid, reason, .. } => (7, *pid, *reason),
                    _ => continue,
                };
                if t.op_at(ev).is_some_and(|o| t.log.ops[o].kind == "disconnect") && !t.conns[*conn].stream_ok {
                    continue; // completed by DISCONNECT bytes landing inside it (broken stream)
                }
                out.count("acks_on_wire", 1);
                if !acks_judged {
                    continue;
                }
                if hostile {
                    if !received.contains(&(got.0, got.1)) {
                        out.violations.push(viol("C04", "C04/hostile/ack-for-unknown-id", format!("conn {}: acknowledgement type {} id {} was never owed", conn, got.0, got.1)));
                    }
                    continue;
                }
                let slot = owed.iter_mut().find(|o| o.written_on != Some(*conn));
                if last_done.is_some_and(|(c, a)| c != *conn && a == got) && !slot.as_ref().is_some_and(|o| (o.kind, o.pid, o.reason) == got) {
                    // ... harmless and allowed as long as the client itself still counted it as
                    // unsent when that connection ended (last snapshot taken on it: the owed-control
                    // queue holds it in a state other than "sent")
                    let c0 = last_done.unwrap().0;
                    let end = t.conns.iter().find(|x| x.idx == c0).map(|x| x.ev_end).unwrap_or(usize::MAX);
                    let still_owed = t.log.probes.iter().rev().find(|p| p.ev <= end && p.snap.is_some()).and_then(|p| p.snap.as_ref()).is_some_and(|sn| sn.tx.control.iter().any(|e| e.kind == got.0 && e.packet_id == got.1 && !matches!(e.state, minimq::verif::VerifSend::Sent)));
                    if !still_owed {
                        out.violations.push(viol("C04", "C04/ack-repeated-after-it-was-sent", format!("conn {} event {}: acknowledgement type {} id {} was written and flushed on connection {} and was no longer owed when that connection ended, yet it is sent again here although the broker did not repeat the delivery", conn, ev, got.0, got.1, c0)));
                        broken = true;
                        continue;
                    }
                    out.count("acks_resent_on_next_connection", 1);
                    last_done = None;
                    continue;
                }
                match slot {
                    Some(o) if (o.kind, o.pid, o.reason) == got => {
                        o.written_on = Some(*conn);
                        last_done = Some((*conn, got));
                    }
                    Some(o) => {
                        out.violations.push(viol(
                            "C04",
                            format!("C04/ack-mismatch/expected-{}-got-{}", o.kind, got.0),
                            format!("conn {} event {}: client sent ack type {} id {} reason {:#x}; next owed in arrival order is type {} id {} reason {:#x}", conn, ev, got.0, got.1, got.2, o.kind, o.pid, o.reason),
                        ));
                        broken = true;
                    }
                    None => {
                        out.violations.push(viol("C04", "C04/ack-not-owed", format!("conn {} event {}: client sent ack type {} id {} reason {:#x} but nothing is owed", conn, ev, got.0, got.1, got.2)));
                        broken = true;
                    }
                }
            }
            Ev::Flushed { conn } => {
                while owed.front().is_some_and(|o| o.written_on == Some(*conn)) {
                    owed.pop_front();
                }
            }
            Ev::ConnEnd { conn } => {
                for o in owed.iter_mut() {
                    if o.written_on == Some(*conn) {
                        o.written_on = None;
                    }
                }
            }
            Ev::Delivered { msg } => {
                let m = &t.log.msgs[*msg];
                out.count("deliveries", 1);
                if hostile {
                    continue;
                }
                let Some((c, i)) = expect.pop_front() else {
                    out.violations.push(viol("C04", "C04/unexpected-delivery", format!("message {:?} (qos {}) delivered although no undelivered inbound PUBLISH is outstanding (duplicate delivery?)", m.topic, m.qos)));
                    continue;
                };
                let Some(SPacket::Publish { qos, retain, topic, props, payload, .. }) = &w.conns[c].in_pkts[i].pkt else { continue };
                let got_props: Result<Vec<_>, ()> = m.props.iter().cloned().collect();
                let same = m.topic == *topic && m.payload == *payload && m.qos == *qos && m.retain == *retain && got_props.as_ref() == Ok(props);
                if !same {
                    let what = if m.topic != *topic {
                        "topic"
                    } else if m.payload != *payload {
                        "payload"
                    } else if m.qos != *qos {
                        "qos"
                    } else if m.retain != *retain {
                        "retain"
                    } else {
                        "properties"
                    };
                    out.violations.push(viol("C04", format!("C04/delivery-differs/{}", what), format!("delivered {:?} differs from the PUBLISH the broker sent on conn {} (#{}) in {}: got props {:?}, sent {:?}", m.topic, c, i, what, m.props, props)));
                }
                if !props.is_empty() {
                    out.count("deliveries_with_properties", 1);
                }
            }
            Ev::OpRet { op } => {
                // every PUBLISH consumed during this call that had to be delivered was delivered by it
                let o = &t.log.ops[*op];
                // "the transport accepted nothing" is reported although every write the transport
                // was given a byte for took at least one: the acknowledgements still owed are held
                // back for no reason the application or the broker gave
                if !hostile && !broken && acks_judged && !owed.is_empty() && matches!(o.outcome, Outcome::Err(ErrRepr::WriteZero)) {
                    let cause = w.events[o.ev_call..=o.ev_ret.min(w.events.len() - 1)].iter().any(|e| matches!(e, Ev::Io { kind: crate::world::IoKind::Write, req, ans: crate::world::IoAns::Zero, .. } if *req > 0));
                    if !cause && o.conn.is_some_and(|c| t.conns.iter().any(|x| x.idx == c && x.stream_ok && x.established)) {
                        out.violations.push(viol("C04", "C04/ack-held-back-by-a-write-error-nobody-caused", format!("{} returned WriteZero on conn {:?} although no non-empty write was answered with 0 bytes; {} acknowledgement(s) still owed (first: type {} id {})", o.kind, o.conn, owed.len(), owed[0].kind, owed[0].pid)));
                        broken = true;
                    }
                }
                if !hostile && !broken && matches!(o.outcome, Outcome::Ok(_)) {
                    let pending_here = expect.iter().filter(|(c, i)| w.conns[*c].in_pkts[*i].ev_consumed.is_some_and(|x| x >= o.ev_call && x <= o.ev_ret)).count();
                    if pending_here > 0 {
                        out.violations.push(viol("C04", "C04/not-delivered", format!("{} consumed an inbound PUBLISH that had to be delivered but returned {:?}", o.kind, o.outcome)));
                        expect.clear();
                    }
                }
            }
            _ => {}
        }
    }
    // an acknowledgement the broker cannot decode (illegal reason code for its type, bad length)
    // answers nothing; the stream checks below are skipped for such a connection, so say it here
    if !hostile && !exceeded {
        for c in &w.conns {
            let Some((off, why)) = &c.out.error else { continue };
            let abandoned = t.log.ops.iter().any(|o| o.conn == Some(c.idx) && left_bytes_behind(t.log, o) && o.out_before <= *off);
            if let Some(b0) = c.out.bytes.get(*off) {
                if matches!(b0 >> 4, 4 | 5 | 7) && !abandoned {
                    out.violations.push(viol("C04", format!("C04/ack-malformed/{}", match b0 >> 4 { 4 => "PUBACK", 5 => "PUBREC", _ => "PUBCOMP" }), format!("conn {}: the acknowledgement written at stream offset {} is not a legal packet: {}", c.idx, off, why)));
                }
            }
        }
    }
    // a spec-valid PUBLISH that fits the receive buffer is never answered with a decode error
    if !hostile {
        for o in t.log.ops.iter().filter(|o| matches!(o.outcome, Outcome::Err(ErrRepr::InvalidPacket))) {
            let Some(c) = o.conn else { continue };
            let conn = &w.conns[c];
            // the packet the reader was working on when it gave up
            let Some(ip) = conn.in_pkts.iter().find(|ip| ip.start < conn.in_read && conn.in_read <= ip.end) else { continue };
            if !matches!(ip.pkt, Some(SPacket::Publish { .. })) {
                continue;
            }
            if let crate::refcodec::Class::MustAccept(_) = crate::refcodec::classify_server(&ip.raw, t.log.cfg.rx) {
                let fit = if ip.raw.len() == t.log.cfg.rx { "exact-fit" } else { "fits" };
                out.violations.push(viol("C04", format!("C04/valid-publish-rejected/{}", fit), format!("conn {}: {} returned {:?} while reading a spec-valid PUBLISH of {} bytes (receive buffer {} bytes); it was never delivered", c, o.kind, o.outcome, ip.raw.len(), t.log.cfg.rx)));
            }
        }
        for c in &w.conns {
            if c.in_pkts.iter().any(|ip| ip.raw.len() == t.log.cfg.rx && ip.ev_consumed.is_some() && matches!(ip.pkt, Some(SPacket::Publish { .. }))) {
                out.count("exact_fit_publishes_consumed", 1);
            }
        }
    }
    // owed acknowledgements are on the wire once the client went idle on a healthy connection
    if !broken && !hostile && acks_judged {
        if let Some(last) = t.conns.last() {
            if let Some(e_d) = crate::model::drained_at(t, last.idx) {
                let _ = e_d;
                // recompute what was still owed at the end: only meaningful if nothing arrived after the drain
                let last_consumed = w.events.iter().rposition(|e| matches!(e, Ev::Consumed { .. })).unwrap_or(0);
                let last_idle = t.log.ops.iter().rev().find(|o| o.conn == Some(last.idx) && matches!((&o.outcome, o.kind), (Outcome::Ok(OkKind::None), "drive") | (Outcome::CallerTimeout, "poll" | "recv")));
                if let Some(idle) = last_idle {
                    if idle.ev_ret > last_consumed && !owed.is_empty() && last.established {
                        out.violations.push(viol("C04", "C04/ack-never-sent", format!("client went idle on conn {} while {} acknowledgement(s) are still owed (first: type {} id {})", last.idx, owed.len(), owed[0].kind, owed[0].pid)));
                    }
                }
            }
        }
    }
    nontrivial
}
