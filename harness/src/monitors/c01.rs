//! C01 — the outbound byte stream is whole, well-formed MQTT 5 packets.

use super::*;
use crate::refcodec::{CPacket, TYPE_NAMES};
use crate::runner::CaseOut;
use crate::trace::*;

pub fn check(t: &Trace<'_>, out: &mut CaseOut) -> bool {
    let w = t.w;
    let mut nontrivial = false;
    for ci in &t.conns {
        let c = &w.conns[ci.idx];
        let s = &c.out;
        if ci.write_zero {
            // the CONNECT itself was answered Ok(0): the handshake failed, nothing else is written
            continue;
        }
        let exempt_from = ci.qos0_cancel_at.unwrap_or(usize::MAX);
        // --- partial-write / cancellation coverage
        let wo = write_offsets(w, ci.idx);
        for (_, off) in &wo {
            if *off < s.parsed_upto && !at_boundary(w, ci.idx, *off) {
                out.count("writes_ending_mid_packet", 1);
                nontrivial = true;
            }
        }
        for op in t.log.ops.iter().filter(|o| o.conn == Some(ci.idx)) {
            if op.outcome == Outcome::Cancelled && op.out_after > op.out_before && !at_boundary(w, ci.idx, op.out_after) {
                out.count("cancelled_mid_packet", 1);
                out.key(format!("cancel-mid/{}", op.kind));
                nontrivial = true;
            }
        }
        for p in &s.packets {
            out.count(&format!("pkt_{}", p.pkt.type_name()), 1);
        }
        // --- root causes around disconnect(), judged in stream order; everything after the first
        // hit is a consequence of it and is not judged again.
        //  R2: a disconnect() that completed left no whole DISCONNECT at the end of what it wrote
        //      (its bytes landed inside a packet that a cancelled operation had left incomplete)
        //  R3: a cancelled disconnect() left (part of) a DISCONNECT behind and what the handle
        //      wrote afterwards does not continue that packet
        let mut judged_upto = exempt_from;
        let ops_here: Vec<&OpRec> = t.log.ops.iter().filter(|o| o.conn == Some(ci.idx)).collect();
        let disconnect_at = s.packets.iter().find(|p| matches!(p.pkt, CPacket::Disconnect { .. })).map(|p| (p.start, p.end));
        for d in ops_here.iter().filter(|o| o.kind == "disconnect" && o.out_after > o.out_before) {
            if d.out_before >= judged_upto {
                break;
            }
            let pkt_start = s.packets.iter().map(|p| p.end).filter(|e| *e <= d.out_before).max().unwrap_or(0);
            let was_mid = d.out_before > s.parsed_upto || !at_boundary(w, ci.idx, d.out_before);
            let whole = s.packets.iter().any(|p| p.end == d.out_after && p.start >= d.out_before.min(p.start) && matches!(p.pkt, CPacket::Disconnect { .. }));
            let mut hit = false;
            if matches!(d.outcome, Outcome::Ok(_)) && !whole {
                let a = ops_here.iter().rev().find(|o| o.ev_ret < d.ev_call && o.out_after > o.out_before);
                let earlier_cancelled = ops_here.iter().any(|o| o.kind == "disconnect" && o.outcome == Outcome::Cancelled && o.out_after > o.out_before && o.ev_ret < d.ev_call);
                if was_mid && earlier_cancelled {
                    out.violations.push(viol(
                        "C01",
                        "C01/cancelled-DISCONNECT/handle-keeps-writing",
                        format!("conn {}: disconnect() cancelled after part of its DISCONNECT was written (offset {}); a second disconnect() started a new DISCONNECT behind it at offset {}", ci.idx, pkt_start, d.out_before),
                    ));
                    out.key("cancelled-disconnect-then/disconnect".to_string());
                } else if was_mid {
                    out.violations.push(viol(
                        "C01",
                        "C01/midpacket/DISCONNECT-inside-partial-packet",
                        format!(
                            "conn {}: disconnect() returned Ok after writing {} bytes from offset {}, but no whole DISCONNECT ends there: the packet begun at {} (left by {} {}) was incomplete",
                            ci.idx,
                            d.out_after - d.out_before,
                            d.out_before,
                            pkt_start,
                            a.map(|a| a.kind).unwrap_or("?"),
                            a.map(|a| outcome_class(&a.outcome)).unwrap_or("?")
                        ),
                    ));
                    out.key(format!("disconnect-inside/{}", a.map(|a| a.kind).unwrap_or("?")));
                } else {
                    out.violations.push(viol(
                        "C01",
                        "C01/disconnect-ok-without-DISCONNECT",
                        format!("conn {}: disconnect() returned Ok but no complete DISCONNECT ends at offset {}", ci.idx, d.out_after),
                    ));
                }
                hit = true;
            }
            if was_mid && whole {
                out.count("disconnect_finished_partial_packet_first", 1);
            }
            if d.outcome == Outcome::Cancelled {
                if let Some(next) = ops_here.iter().find(|o| o.ev_call > d.ev_ret && o.out_after > o.out_before) {
                    // do the later bytes continue what the cancelled call had begun?
                    // the last byte the cancelled call wrote must end up inside a complete packet:
                    // either the packet it was finishing first, or a DISCONNECT with nothing behind it
                    let x = d.out_after - 1;
                    let holder = s.packets.iter().find(|p| p.start <= x && x < p.end);
                    let broken = match holder {
                        // still incomplete at the end of the connection: only a framing error shows
                        // that later bytes did not continue it (a torn tail is judged further below)
                        None => s.error.as_ref().is_some_and(|e| e.0 >= pkt_start),
                        Some(p) if matches!(p.pkt, CPacket::Disconnect { .. }) => s.bytes.len() > p.end,
                        Some(_) => false,
                    } || disconnect_at.is_some_and(|(_, end)| s.bytes.len() > end);
                    if broken {
                        out.violations.push(viol(
                            "C01",
                            "C01/cancelled-DISCONNECT/handle-keeps-writing",
                            format!(
                                "conn {}: disconnect() cancelled after writing {} byte(s) at offset {}; {} then wrote {} more bytes that do not continue the packet",
                                ci.idx,
                                d.out_after - d.out_before,
                                d.out_before,
                                next.kind,
                                next.out_after - next.out_before
                            ),
                        ));
                        out.key(format!("cancelled-disconnect-then/{}", next.kind));
                        hit = true;
                    } else {
                        out.count("cancelled_disconnect_resumed", 1);
                    }
                }
            }
            if hit {
                judged_upto = judged_upto.min(pkt_start);
                break;
            }
        }
        let exempt_from = judged_upto;
        // --- soft errors: flags that had to be repaired to decode
        for (off, msg) in &s.soft_errors {
            if *off >= exempt_from {
                continue;
            }
            let b0 = s.bytes[*off];
            let replayed = ci.connack.as_ref().is_some_and(|c| c.0) && b0 & 8 != 0;
            out.violations.push(viol(
                "C01",
                format!(
                    "C01/flags/{}/{:#06b}{}",
                    TYPE_NAMES[(b0 >> 4) as usize],
                    b0 & 0x0f,
                    if replayed { "/replayed" } else { "" }
                ),
                format!("conn {} offset {}: {}", ci.idx, off, msg),
            ));
        }
        // --- fatal framing / decoding error
        if let Some((off, msg)) = &s.error {
            if *off < exempt_from {
                let a = ops_here.iter().find(|o| o.out_before <= *off && *off < o.out_after);
                let b = a.and_then(|a| ops_here.iter().find(|o| o.ev_call > a.ev_ret && o.out_after > o.out_before));
                let sig = match (a, b) {
                    (Some(a), Some(b)) => format!("C01/midpacket/{}:{}-then-{}", a.kind, outcome_class(&a.outcome), b.kind),
                    (Some(a), None) => format!("C01/malformed/{}:{}", a.kind, outcome_class(&a.outcome)),
                    _ => "C01/malformed/unattributed".to_string(),
                };
                out.violations.push(viol(
                    "C01",
                    sig,
                    format!(
                        "conn {} offset {}: {} (bytes {:02x?})",
                        ci.idx,
                        off,
                        msg,
                        &s.bytes[*off..s.bytes.len().min(off + 24)]
                    ),
                ));
            }
        }
        // --- sequence rules
        if let Some(first) = s.packets.first() {
            if !matches!(first.pkt, CPacket::Connect { .. }) {
                out.violations.push(viol(
                    "C01",
                    format!("C01/sequence/first-is-{}", first.pkt.type_name()),
                    format!("conn {}: first packet is {}", ci.idx, first.pkt.type_name()),
                ));
            }
        }
        for (i, p) in s.packets.iter().enumerate().skip(1) {
            if matches!(p.pkt, CPacket::Connect { .. }) {
                out.violations.push(viol("C01", "C01/sequence/second-CONNECT", format!("conn {}: CONNECT as packet {}", ci.idx, i)));
            }
        }
        if let Some(dp) = s.packets.iter().find(|p| matches!(p.pkt, CPacket::Disconnect { .. })) {
            if dp.start < exempt_from && !ops_here.iter().any(|o| o.kind == "disconnect" && o.ev_call < dp.ev) {
                out.violations.push(viol(
                    "C01",
                    "C01/sequence/DISCONNECT-without-disconnect-call",
                    format!("conn {}: a DISCONNECT was written at offset {} although disconnect() was never called on this connection", ci.idx, dp.start),
                ));
            }
        }
        if let Some(d) = s.packets.iter().position(|p| matches!(p.pkt, CPacket::Disconnect { .. })) {
            let end = s.packets[d].end;
            if s.bytes.len() > end && end < exempt_from {
                out.violations.push(viol(
                    "C01",
                    "C01/sequence/bytes-after-DISCONNECT",
                    format!("conn {}: {} bytes follow the DISCONNECT", ci.idx, s.bytes.len() - end),
                ));
            }
        }
        // --- an operation that reports completion leaves no torn packet behind
        if s.error.as_ref().is_none_or(|e| e.0 >= exempt_from) {
            for op in t.log.ops.iter().filter(|o| o.conn == Some(ci.idx)) {
                let complete = match (&op.outcome, op.kind) {
                    (Outcome::Ok(OkKind::None), "drive") => true,
                    (Outcome::Ok(_), "publish0" | "publish1" | "publish2" | "subscribe" | "unsubscribe" | "connect") => true,
                    _ => false,
                };
                if complete && op.out_after < exempt_from && op.out_after <= s.bytes.len() {
                    let boundary = op.out_after <= s.parsed_upto && at_boundary(w, ci.idx, op.out_after)
                        || (op.out_after == s.bytes.len() && s.dangling() == 0);
                    let after_cancelled_disconnect = ops_here.iter().any(|d| {
                        d.kind == "disconnect" && d.outcome == Outcome::Cancelled && d.out_after > d.out_before && d.ev_ret < op.ev_call
                    });
                    if !boundary && after_cancelled_disconnect {
                        out.violations.push(viol(
                            "C01",
                            "C01/cancelled-DISCONNECT/partial-abandoned",
                            format!("conn {}: {} returned {:?} although the DISCONNECT begun by a cancelled disconnect() is still incomplete on the wire (offset {})", ci.idx, op.kind, op.outcome, op.out_after),
                        ));
                    } else if !boundary {
                        out.violations.push(viol(
                            "C01",
                            format!("C01/torn-after-ok/{}", op.kind),
                            format!("conn {}: {} returned {:?} with the stream at offset {} inside a packet", ci.idx, op.kind, op.outcome, op.out_after),
                        ));
                    }
                }
            }
        }
    }
    nontrivial
}
