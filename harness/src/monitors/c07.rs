//! C07 — packet identifiers in flight are non-zero and pairwise distinct.

use crate::model::*;
use crate::refcodec::CPacket;
use crate::runner::CaseOut;
use crate::trace::*;

pub fn check(t: &Trace<'_>, out: &mut CaseOut) -> bool {
    let m = Model::build(t);
    let mut nontrivial = false;
    // zero identifiers are rejected by the strict decoder; count them here as C07
    for c in &t.w.conns {
        if let Some((off, msg)) = &c.out.error {
            if msg.contains("packet identifier 0") {
                out.violations.push(viol("C07", "C07/zero-identifier", format!("conn {} offset {}: {}", c.idx, off, msg)));
            }
        }
        for p in &c.out.packets {
            if matches!(p.pkt, CPacket::Publish { qos: 1 | 2, .. } | CPacket::Subscribe { .. } | CPacket::Unsubscribe { .. }) {
                out.count("id_bearing_packets", 1);
            }
        }
    }
    let mut prev_pid: Option<u16> = None;
    for (i, msg) in m.msgs.iter().enumerate() {
        out.count("allocations_accepted", 1);
        if msg.pid == 0 {
            out.violations.push(viol("C07", "C07/zero-identifier", format!("op#{} accepted with identifier 0", msg.op)));
        }
        if let Some(p) = prev_pid {
            if msg.pid < p && msg.epoch == m.msgs[i - 1].epoch {
                out.count("wraps_observed", 1);
            }
        }
        prev_pid = Some(msg.pid);
        let inuse: Vec<&OutMsg> = m.msgs[..i]
            .iter()
            // (an exchange the client forgot after its PUBREC - no PUBREL slot - is still open at the
            // broker, which holds the identifier until PUBREL/PUBCOMP)
            .filter(|o| o.epoch == msg.epoch && (o.outstanding_at(msg.ev_call) || (o.dropped_ev.is_some_and(|d| d < msg.ev_call) && o.comp.is_none() && o.invalidated_ev.is_none_or(|e| e > msg.ev_call))))
            .collect();
        if !inuse.is_empty() {
            out.count("allocations_with_ids_in_use", 1);
        }
        if inuse.len() >= 9 {
            out.count("allocations_with_nine_or_more_ids_in_use", 1);
            // how long is the run of in-use identifiers the counter had to step over?
            let before = t.log.ops[msg.op].snap_before.as_ref().map(|s| s.next_packet_id).unwrap_or(0);
            let mut run = 0u32;
            let mut id = before;
            while run < 20 && inuse.iter().any(|o| o.pid == id) {
                run += 1;
                id = if id == 65535 { 1 } else { id + 1 };
            }
            if run >= 9 {
                out.count("allocations_stepping_over_nine_or_more_ids", 1);
            }
        }
        // identifiers that live in the release list only (QoS 2 after PUBREC) while nothing is retained
        if t.log.ops[msg.op].snap_before.as_ref().is_some_and(|s| s.tx.retained.is_empty() && !s.tx.release.is_empty()) {
            out.count("allocations_with_only_released_ids_in_use", 1);
        }
        if let Some(o) = inuse.iter().find(|o| o.pid == msg.pid) {
            out.key(format!("collision/{}-vs-{}", msg.kind, o.kind));
            out.violations.push(viol(
                "C07",
                "C07/collision/id-reused-while-in-flight",
                format!("op#{} ({}) was given identifier {} while op#{} ({}) with the same identifier still awaits its final acknowledgement", msg.op, msg.kind, msg.pid, o.op, o.kind),
            ));
        }
        if inuse.len() >= 1 && t.log.ops[msg.op].snap_before.as_ref().is_some_and(|s| s.next_packet_id < 8 || s.next_packet_id > 65000) {
            nontrivial = true;
        }
    }
    nontrivial || m.msgs.len() >= 3
}
