//! C07 — packet identifiers in flight are non-zero and pairwise distinct.

use crate::model::*;
use crate::refcodec::CPacket;
use crate::runner::CaseOut;
use crate::trace::*;

pub fn check(t: &Trace<'_>, out: &mut CaseOut) -> bool {
    let m = Model::build(t);
    let mut nontrivial = false;
    // zero identifiers are rejected by the strict decoder; count them here as C07
    for c in &t.w.conns {
        if let Some((off, msg)) = &c.out.error {
            if msg.contains("packet identifier 0") {
                out.violations.push(viol("C07", "C07/zero-identifier", format!("conn {} offset {}: {}", c.idx, off, msg)));
            }
        }
        for p in &c.out.packets {
            if matches!(p.pkt, CPacket::Publish { qos: 1 | 2, .. } | CPacket::Subscribe { .. } | CPacket::Unsubscribe { .. }) {
                out.count("id_bearing_packets", 1);
            }
        }
    }
    // the broker's view, from the wire alone: an identifier it saw in a complete PUBLISH (QoS 1/2),
    // SUBSCRIBE or UNSUBSCRIBE stays taken until the client has read the acknowledgement that
    // ends that exchange (or a CONNACK without session); a packet that is not a retransmission
    // must not carry it - whatever the client itself remembers of the first one
    {
        use crate::refcodec::SPacket;
        use crate::world::Ev;
        let mut open: Vec<(u16, usize)> = Vec::new(); // (identifier, event of the packet that took it)
        for (ev, e) in t.w.events.iter().enumerate() {
            match e {
                Ev::CPkt { conn, idx } => {
                    let p = &t.w.conns[*conn].out.packets[*idx];
                    let (pid, retransmission) = match &p.pkt {
                        CPacket::Publish { qos: 1 | 2, pid: Some(pid), dup, .. } => (*pid, *dup),
                        CPacket::Subscribe { pid, .. } | CPacket::Unsubscribe { pid, .. } => (*pid, p.b0 & 0x08 != 0),
                        _ => continue,
                    };
                    if !t.conns.iter().find(|c| c.idx == *conn).is_some_and(|c| c.stream_ok) {
                        continue;
                    }
                    match open.iter().find(|(id, _)| *id == pid) {
                        Some((_, first)) if !retransmission => {
                            out.violations.push(viol("C07", "C07/collision/identifier-still-open-at-the-broker", format!("conn {} event {}: a new {} carries identifier {}, which the complete packet at event {} took and for which the client has not read a final acknowledgement since", conn, ev, p.pkt.type_name(), pid, first)));
                            return true;
                        }
                        Some(_) => {}
                        None => open.push((pid, ev)),
                    }
                }
                Ev::Consumed { conn, idx } => match &t.w.conns[*conn].in_pkts[*idx].pkt {
                    Some(SPacket::ConnAck { sp: false, reason: 0, .. }) => open.clear(),
                    Some(SPacket::PubAck { pid, .. }) | Some(SPacket::PubComp { pid, .. }) | Some(SPacket::SubAck { pid, .. }) | Some(SPacket::UnsubAck { pid, .. }) => open.retain(|(id, _)| id != pid),
                    Some(SPacket::PubRec { pid, reason, .. }) if reason.unwrap_or(0) >= 0x80 => open.retain(|(id, _)| id != pid),
                    _ => {}
                },
                _ => {}
            }
        }
        out.count("wire_level_identifier_checks", 1);
    }
    let mut prev_pid: Option<u16> = None;
    for (i, msg) in m.msgs.iter().enumerate() {
        out.count("allocations_accepted", 1);
        if msg.pid == 0 {
            out.violations.push(viol("C07", "C07/zero-identifier", format!("op#{} accepted with identifier 0", msg.op)));
        }
        if let Some(p) = prev_pid {
            if msg.pid < p && msg.epoch == m.msgs[i - 1].epoch {
                out.count("wraps_observed", 1);
            }
        }
        prev_pid = Some(msg.pid);
        let inuse: Vec<&OutMsg> = m.msgs[..i]
            .iter()
            // (an exchange the client forgot after its PUBREC - no PUBREL slot - is still open at the
            // broker, which holds the identifier until PUBREL/PUBCOMP)
            .filter(|o| o.epoch == msg.epoch && (o.outstanding_at(msg.ev_call) || (o.dropped_ev.is_some_and(|d| d < msg.ev_call) && o.comp.is_none() && o.invalidated_ev.is_none_or(|e| e > msg.ev_call))))
            .collect();
        if !inuse.is_empty() {
            out.count("allocations_with_ids_in_use", 1);
        }
        if inuse.len() >= 9 {
            out.count("allocations_with_nine_or_more_ids_in_use", 1);
            // how long is the run of in-use identifiers the counter had to step over?
            let before = t.log.ops[msg.op].snap_before.as_ref().map(|s| s.next_packet_id).unwrap_or(0);
            let mut run = 0u32;
            let mut id = before;
            while run < 20 && inuse.iter().any(|o| o.pid == id) {
                run += 1;
                id = if id == 65535 { 1 } else { id + 1 };
            }
            if run >= 9 {
                out.count("allocations_stepping_over_nine_or_more_ids", 1);
            }
        }
        // identifiers that live in the release list only (QoS 2 after PUBREC) while nothing is retained
        if t.log.ops[msg.op].snap_before.as_ref().is_some_and(|s| s.tx.retained.is_empty() && !s.tx.release.is_empty()) {
            out.count("allocations_with_only_released_ids_in_use", 1);
        }
        if let Some(o) = inuse.iter().find(|o| o.pid == msg.pid) {
            out.key(format!("collision/{}-vs-{}", msg.kind, o.kind));
            out.violations.push(viol(
                "C07",
                "C07/collision/id-reused-while-in-flight",
                format!("op#{} ({}) was given identifier {} while op#{} ({}) with the same identifier still awaits its final acknowledgement", msg.op, msg.kind, msg.pid, o.op, o.kind),
            ));
        }
        if inuse.len() >= 1 && t.log.ops[msg.op].snap_before.as_ref().is_some_and(|s| s.next_packet_id < 8 || s.next_packet_id > 65000) {
            nontrivial = true;
        }
    }
    nontrivial || m.msgs.len() >= 3
}
