//! C18 — operation handles tell the truth about completion and invalidation.

use crate::exec::*;
use crate::model::*;
use crate::runner::CaseOut;
use crate::trace::*;
use crate::world::Ev;

pub fn check(t: &Trace<'_>, out: &mut CaseOut) -> bool {
    let m = Model::build(t);
    let mut nontrivial = false;
    // handle index -> message
    let by_handle: Vec<Option<&OutMsg>> = (0..t.log.handles.len()).map(|h| m.msgs.iter().find(|x| x.handle == Some(h))).collect();
    let mut prev: Vec<u8> = Vec::new();
    for (ev, e) in t.w.events.iter().enumerate() {
        let Ev::Probe { idx } = e else { continue };
        let p = &t.log.probes[*idx];
        // the connection handle and the session give the same answer
        if let Some(sc) = &p.status_conn {
            out.count("probes_through_the_connection_handle", 1);
            if let Some(h) = (0..sc.len().min(p.status.len())).find(|h| sc[*h] != p.status[*h]) {
                out.violations.push(viol("C18", "C18/status/connection-and-session-disagree", format!("handle {}: Connection reports status bits {:#05b}, Session {:#05b} (connected={}) at event {}", h, sc[h], p.status[h], p.is_connected, ev)));
                break;
            }
        }
        for (h, st) in p.status.iter().enumerate() {
            let Some(msg) = by_handle[h] else { continue };
            // a fresh broker session replaced the issuing one (also for handles that had completed)
            let replaced = t.epoch_at[ev] > msg.epoch;
            let want: u8 = if replaced {
                4
            } else if msg.dropped_ev.is_some_and(|x| x < ev) {
                // the client dropped the exchange after a successful PUBREC (no room for the
                // PUBREL): neither PUBCOMP nor a failing PUBREC has been received
                out.count("probes_of_exchanges_the_client_dropped", 1);
                1
            } else if msg.ended_ev.is_some_and(|x| x < ev) {
                2
            } else {
                1
            };
            out.count("probes_compared", 1);
            // the retained list is no longer in identifier order (the counter wrapped with older
            // operations outstanding) and this handle is still pending
            if want == 1 && p.snap.as_ref().is_some_and(|s| s.tx.retained.windows(2).any(|w| w[0].packet_id > w[1].packet_id)) {
                out.count("probes_after_identifier_wrap", 1);
            }
            if st.count_ones() != 1 {
                out.violations.push(viol("C18", "C18/status/not-exactly-one", format!("handle {} (op#{} {} id {}): status bits {:#05b} at event {}", h, msg.op, msg.kind, msg.pid, st, ev)));
            } else if *st != want {
                let name = |b: u8| match b { 1 => "pending", 2 => "complete", _ => "invalidated" };
                // a completed handle whose identifier is carried, after the counter came round
                // again, by a later operation of the same broker session that is in flight now
                let carried = want == 2 && *st == 1 && m.msgs.iter().any(|x| x.pid == msg.pid && x.epoch == msg.epoch && x.op != msg.op && msg.ended_ev.is_some_and(|e| x.ev_accept > e) && x.ev_accept < ev && x.ended_ev.is_none_or(|e| e >= ev));
                // (the counter can only come round by 65535 allocations; in these workloads that
                // is always the work of the positioning hook or of a run of burnt identifiers)
                let came_round = carried && {
                    let later = m.msgs.iter().filter(|x| x.pid == msg.pid && x.epoch == msg.epoch && x.op != msg.op && msg.ended_ev.is_some_and(|e| x.ev_accept > e) && x.ev_accept < ev).map(|x| x.ev_accept).max().unwrap_or(ev);
                    t.w.events[msg.ev_accept.min(later)..later].iter().any(|e| matches!(e, Ev::Step { idx } if matches!(t.log.steps[*idx], crate::steps::Step::SetNextPid(_) | crate::steps::Step::BurnIds(_))))
                };
                if carried {
                    out.count("completed_handles_whose_identifier_is_in_use_again", 1);
                }
                out.violations.push(viol(
                    "C18",
                    if carried && came_round { "C18/status/complete-reported-pending/identifier-carried-by-a-later-operation".to_string() } else if carried { "C18/status/complete-reported-pending/identifier-handed-out-again-before-the-counter-came-round".to_string() } else { format!("C18/status/{}-reported-{}/{}", name(want), name(*st), msg.kind) },
                    format!("handle {} (op#{} {} id {}): reports {} but the reference model says {} at event {}", h, msg.op, msg.kind, msg.pid, name(*st), name(want), ev),
                ));
            }
            if prev.get(h).is_some_and(|o| o != st) {
                out.count(&format!("transitions_{}", msg.kind), 1);
                nontrivial = true;
            }
        }
        prev = p.status.clone();
    }
    // failure codes are surfaced by the call that consumed the acknowledgement
    for msg in &m.msgs {
        for a in [msg.ack.as_ref(), msg.comp.as_ref()].into_iter().flatten() {
            if a.code >= 0x80 {
                out.count("failure_codes_consumed", 1);
                if let Some(op) = t.op_at(a.ev) {
                    let o = &t.log.ops[op];
                    if !matches!(&o.outcome, Outcome::Err(ErrRepr::Rejected(c)) if *c == a.code) {
                        out.violations.push(viol("C18", format!("C18/rejection-not-surfaced/{}", msg.kind), format!("op#{} id {}: acknowledgement with failure {:#x} consumed during {} which returned {:?}", msg.op, msg.pid, a.code, o.kind, o.outcome)));
                    } else {
                        out.count("rejections_surfaced", 1);
                    }
                }
            }
        }
    }
    nontrivial
}
