//! C14 — Maximum Packet Size is honoured in both directions.

use crate::exec::*;
use crate::refcodec::{CPacket, Prop};
use crate::runner::CaseOut;
use crate::trace::*;
use crate::world::Ev;

pub fn check(t: &Trace<'_>, out: &mut CaseOut) -> bool {
    let w = t.w;
    let mut nontrivial = false;
    for ci in &t.conns {
        let c = &w.conns[ci.idx];
        // CONNECT advertises the receive-buffer size
        if let Some(CPacket::Connect { props, .. }) = c.out.packets.first().map(|p| &p.pkt) {
            let mps: Vec<u32> = props.iter().filter_map(|p| if let Prop::MaximumPacketSize(v) = p { Some(*v) } else { None }).collect();
            if t.log.cfg.rx > 65_535 {
                out.count("connects_with_receive_buffer_above_64k", 1);
            }
            if t.log.from_one_buffer {
                out.count("connects_of_sessions_configured_from_one_backing_buffer", 1);
            }
            if mps != vec![t.log.cfg.rx as u32] {
                out.violations.push(viol("C14", "C14/connect-advertises-wrong-size", format!("conn {}: CONNECT Maximum Packet Size {:?}, receive buffer is {}", ci.idx, mps, t.log.cfg.rx)));
            }
        }
        let Some(mps) = ci.mps else { continue };
        if !ci.connack_consumed {
            continue;
        }
        out.key(format!("mps={}", mps.min(200)));
        for p in c.out.packets.iter().skip(1) {
            let len = p.end - p.start;
            let d = len as i64 - mps as i64;
            if (-3..=3).contains(&d) {
                out.key(format!("near-limit/{}/{}", p.pkt.type_name(), d));
                nontrivial = true;
            }
            if len > mps as usize {
                let replay = matches!(p.pkt, CPacket::Publish { dup: true, .. }) || p.b0 & 0x0f == 0x0a;
                out.violations.push(viol(
                    "C14",
                    format!("C14/oversize-sent/{}{}", p.pkt.type_name(), if replay { "/replay" } else { "" }),
                    format!("conn {}: {} of {} bytes sent, broker Maximum Packet Size is {}", ci.idx, p.pkt.type_name(), len, mps),
                ));
            }
        }
        // a dangling partial packet that already exceeds the limit counts too
        if c.out.dangling() > mps as usize && ci.stream_ok {
            out.violations.push(viol("C14", "C14/oversize-sent/partial", format!("conn {}: {} bytes of one packet written, limit {}", ci.idx, c.out.dangling(), mps)));
        }
    }
    // requests refused as too large leave no trace
    for (i, op) in t.log.ops.iter().enumerate() {
        if op.outcome != Outcome::Err(ErrRepr::PacketTooLarge) {
            continue;
        }
        match op.kind {
            "publish0" | "publish1" | "publish2" | "subscribe" | "unsubscribe" | "disconnect" => {
                out.count("too_large_refusals", 1);
                out.key(format!("refused/{}", op.kind));
                nontrivial = true;
                let (Some(b), Some(a)) = (&op.snap_before, &op.snap_after) else { continue };
                let ids = |s: &Snap| s.tx.retained.iter().map(|e| e.packet_id).collect::<Vec<_>>();
                if ids(b) != ids(a) || b.send_quota != a.send_quota {
                    out.violations.push(viol("C14", format!("C14/refusal-left-trace/{}", op.kind), format!("op#{} {} refused PacketTooLarge but retained {:?}->{:?}, quota {}->{}", i, op.kind, ids(b), ids(a), b.send_quota, a.send_quota)));
                }
                if op.kind == "disconnect" && op.out_after != op.out_before {
                    // disconnect() first completes a packet that an earlier cancelled call left half
                    // written; those bytes are not the refused request's
                    let c = &w.conns[op.conn.unwrap_or(0)];
                    let allowed = c.out.packets.iter().find(|p| p.start < op.out_before && p.end > op.out_before).map(|p| p.end - op.out_before).unwrap_or(0);
                    if op.out_after - op.out_before > allowed {
                        out.violations.push(viol("C14", "C14/refusal-left-trace/disconnect", format!("op#{} disconnect refused PacketTooLarge but wrote {} bytes ({} of them complete an earlier packet)", i, op.out_after - op.out_before, allowed)));
                    } else {
                        out.count("refused_disconnects_that_completed_an_earlier_packet", 1);
                    }
                }
                if op.kind == "disconnect" && !op.live_after {
                    // refusing locally must not kill the handle silently... (not required by the property; recorded only)
                    out.count("disconnect_refusal_latched", 1);
                }
            }
            "poll" | "recv" | "drive" | "pollreply" => {
                // a mandatory packet did not fit: the connection must be closed
                out.count("mandatory_packet_did_not_fit", 1);
                if op.conn.and_then(|c| t.conns[c].mps).is_some_and(|m| m <= 8) {
                    out.count("acks_owed_under_tiny_limit", 1);
                }
                // nothing the client owes is longer than 5 bytes except retained requests: with a
                // limit of 5 or more and every retained packet within it, nothing is too large
                if let (Some(mps), Some(b)) = (op.conn.and_then(|c| t.conns[c].mps), &op.snap_before) {
                    if mps >= 5 && b.tx.retained.iter().all(|e| e.len <= mps as usize) {
                        out.violations.push(viol("C14", "C14/fitting-packet-refused", format!("op#{} {} returned PacketTooLarge although the limit is {} and every pending packet fits (retained lengths {:?}, {} PUBREL(s), {} acknowledgement(s) of at most 5 bytes)", i, op.kind, mps, b.tx.retained.iter().map(|e| e.len).collect::<Vec<_>>(), b.tx.release.len(), b.tx.control.len())));
                    }
                }
                nontrivial = true;
                if op.live_after {
                    // retained replay that does not fit is refused on every poll without closing: recorded, see DESIGN (stall)
                    let owed_ack = w.events[op.ev_call..op.ev_ret].iter().any(|e| matches!(e, Ev::Consumed { .. }));
                    if owed_ack {
                        out.violations.push(viol("C14", "C14/ack-does-not-fit/handle-stays-alive", format!("op#{} {} returned PacketTooLarge after consuming a packet that needs an acknowledgement, but the handle is still live", i, op.kind)));
                    } else {
                        out.count("replay_refused_too_large_handle_alive", 1);
                    }
                }
            }
            _ => {}
        }
    }
    // inbound packets larger than the receive buffer end the connection with an error
    for ci in &t.conns {
        let c = &w.conns[ci.idx];
        for (pi, p) in c.in_pkts.iter().enumerate() {
            let d = p.raw_len as i64 - t.log.cfg.rx as i64;
            if (-2..=2).contains(&d) && p.pkt.is_some() {
                out.key(format!("inbound-near-rx/{}", d));
            }
            // ... and one that fills the buffer to the last byte (or nearly) is within the size the
            // CONNECT advertised: it is taken like any other
            if (-2..=0).contains(&d) && p.pkt.is_some() && !t.log.hostile && c.in_read > p.start {
                out.count("inbound_filling_the_receive_buffer", 1);
                let earlier_ok = c.in_pkts[..pi].iter().all(|q| q.ev_consumed.is_some());
                let refused = t.log.ops.iter().find(|o| o.conn == Some(ci.idx) && matches!(o.outcome, Outcome::Err(ErrRepr::InvalidPacket)));
                if p.ev_consumed.is_none() && earlier_ok && c.in_read < p.start + p.raw_len {
                    if let Some(o) = refused {
                        out.violations.push(viol("C14", "C14/inbound-within-advertised-size-rejected", format!("conn {}: a well-formed inbound packet of {} bytes (receive buffer and advertised Maximum Packet Size: {}) was given up after {} of its bytes: {} returned InvalidPacket", ci.idx, p.raw_len, t.log.cfg.rx, c.in_read - p.start, o.kind)));
                    }
                }
            }
            if p.raw_len > t.log.cfg.rx && p.pkt.is_some() {
                nontrivial = true;
                out.count("oversize_inbound", 1);
                // the client can only notice once it has read the fixed header
                let hdr = 1 + p.raw[1..].iter().take(4).position(|b| b & 0x80 == 0).map(|i| i + 1).unwrap_or(4);
                if c.in_read >= p.start + hdr {
                    let op = t.log.ops.iter().find(|o| o.conn == Some(ci.idx) && matches!(o.outcome, Outcome::Err(ErrRepr::InvalidPacket)));
                    let delivered = t.log.msgs.iter().any(|m| m.conn == ci.idx && w.events.iter().any(|e| matches!(e, Ev::Consumed { conn, idx } if *conn == ci.idx && *idx == pi)) && m.payload.len() + 4 > t.log.cfg.rx);
                    if op.is_none() || delivered {
                        out.violations.push(viol("C14", "C14/oversize-inbound-not-rejected", format!("conn {}: inbound packet of {} bytes exceeds the receive buffer of {} but no operation reported InvalidPacket", ci.idx, p.raw_len, t.log.cfg.rx)));
                    } else {
                        out.count("oversize_inbound_rejected", 1);
                    }
                }
            }
        }
    }
    nontrivial
}
