//! C11 — a dead connection handle stays dead and never touches the transport again.

use crate::exec::*;
use crate::runner::CaseOut;
use crate::trace::*;
use crate::world::{Ev, IoAns};

/// Does this result latch the handle (per the property's list of triggers)?
fn latches(op: &OpRec) -> Option<String> {
    match (&op.outcome, op.kind) {
        (Outcome::Err(ErrRepr::Transport(k)), _) => Some(format!("transport-{:?}", k)),
        (Outcome::Err(ErrRepr::Disconnected), _) if op.live_before => Some("disconnected".into()),
        (Outcome::Err(ErrRepr::InvalidPacket), _) => Some("invalid-packet".into()),
        // disconnect()/disconnect_with() returned after passing its local validation
        (Outcome::Ok(_), "disconnect") if op.live_before => Some("disconnect-called".into()),
        // ... also when the transport then accepted nothing ("after disconnect() was called")
        (Outcome::Err(ErrRepr::WriteZero), "disconnect") if op.live_before => Some("disconnect-called-write-zero".into()),
        _ => None,
    }
}

pub fn check(t: &Trace<'_>, out: &mut CaseOut) -> bool {
    let mut nontrivial = false;
    // a broker DISCONNECT latches whatever the call that read it returned
    let latches = |op: &OpRec| -> Option<String> {
        if op.live_before
            && !matches!(op.outcome, Outcome::Cancelled | Outcome::Watchdog)
            && t.w.events[op.ev_call..op.ev_ret.max(op.ev_call)].iter().any(|e| matches!(e, Ev::Consumed { conn, idx } if matches!(t.w.conns[*conn].in_pkts[*idx].pkt, Some(crate::refcodec::SPacket::Disconnect { .. }))
                // (only while the inbound stream is in step: nothing but whole valid packets before it)
                && t.w.conns[*conn].in_pkts[..*idx].iter().all(|p| p.pkt.is_some() && p.raw_len <= t.log.cfg.rx)))
        {
            return Some(match &op.outcome {
                Outcome::Err(ErrRepr::Disconnected) => "disconnected".to_string(),
                o => format!("broker-disconnect-reported-as-{:?}", o).replace(' ', ""),
            });
        }
        // disconnect() was called with a DISCONNECT that fits the connection's limit (a plain or
        // reason-only DISCONNECT is at most 4 bytes): refusing it as too large is no local refusal
        if op.kind == "disconnect" && op.live_before && op.outcome == Outcome::Err(ErrRepr::PacketTooLarge) {
            let plain = matches!(&t.log.steps[op.step], crate::steps::Step::Disconnect(d) if d.props.as_ref().is_none_or(|p| p.is_empty()));
            let roomy = op.conn.and_then(|c| t.conns[c].mps).is_none_or(|m| m >= 64);
            if plain && roomy {
                return Some("disconnect-called-refused-although-it-fits".into());
            }
        }
        // the transport answered a call of this operation with an error: however the operation
        // words its result, it has reported a transport failure
        if op.live_before && !matches!(op.outcome, Outcome::Cancelled | Outcome::Watchdog | Outcome::Ok(_)) && latches(op).is_none() {
            if let Some(k) = t.w.events[op.ev_call..op.ev_ret.max(op.ev_call)].iter().find_map(|e| match e {
                Ev::Io { ans: IoAns::Err(k), conn, .. } if Some(*conn) == op.conn => Some(*k),
                _ => None,
            }) {
                return Some(format!("transport-{:?}-reported-as-{:?}", k, op.outcome).replace(' ', ""));
            }
        }
        latches(op)
    };
    for ci in t.conns.iter().filter(|c| c.established) {
        let ops: Vec<(usize, &OpRec)> = t.log.ops.iter().enumerate().filter(|(_, o)| o.conn == Some(ci.idx) && o.kind != "connect").collect();
        let Some(pos) = ops.iter().position(|(_, o)| latches(o).is_some()) else { continue };
        let (_, lop) = ops[pos];
        let why = latches(lop).unwrap();
        // refine "disconnected": EOF, broker DISCONNECT or keep-alive timeout
        let detail = if why == "disconnected" {
            let evs = &t.w.events[lop.ev_call..lop.ev_ret];
            if evs.iter().any(|e| matches!(e, Ev::Io { ans: IoAns::Eof, .. })) {
                "eof".to_string()
            } else if evs.iter().any(|e| matches!(e, Ev::Consumed { conn, idx } if matches!(t.w.conns[*conn].in_pkts[*idx].pkt, Some(crate::refcodec::SPacket::Disconnect { .. })))) {
                "broker-disconnect".to_string()
            } else {
                "keepalive-or-other".to_string()
            }
        } else {
            why
        };
        out.key(format!("latch/{}/{}/{}", lop.kind, lop.pendings.min(9), detail));
        out.count("latches_observed", 1);
        nontrivial = true;
        let touches_at_latch = lop.touches_after;
        // everything after the latch on this handle
        for (_, o) in &ops[pos + 1..] {
            out.count("ops_after_latch", 1);
            out.key(format!("after-latch/{}", o.kind));
            let want_ok = o.kind == "disconnect";
            let good = match (&o.outcome, want_ok) {
                (Outcome::Ok(OkKind::Unit), true) => true,
                (Outcome::Err(ErrRepr::Disconnected), false) => true,
                _ => false,
            };
            if !good {
                out.violations.push(viol("C11", format!("C11/result-after-latch/{}", o.kind), format!("conn {}: {} on the dead handle (latched by {} -> {}) returned {:?}", ci.idx, o.kind, lop.kind, detail, o.outcome)));
            }
            if o.touches_after != touches_at_latch {
                out.violations.push(viol("C11", format!("C11/io-after-latch/{}", o.kind), format!("conn {}: {} on the dead handle performed {} transport call(s)", ci.idx, o.kind, o.touches_after - touches_at_latch)));
            }
        }
        // probes after the latch: is_connected / can_publish stay false
        for p in t.log.probes.iter().filter(|p| p.conn == Some(ci.idx) && p.has_handle) {
            let pev = p.ev;
            if pev < lop.ev_ret {
                continue;
            }
            out.count("probes_after_latch", 1);
            if p.is_connected || p.can_publish.iter().any(|b| *b) {
                out.violations.push(viol("C11", "C11/alive-after-latch", format!("conn {}: after {} latched the handle ({}), is_connected={} can_publish={:?}", ci.idx, lop.kind, detail, p.is_connected, p.can_publish)));
                break;
            }
            if p.touches != touches_at_latch {
                out.violations.push(viol("C11", "C11/io-after-latch/between-ops", format!("conn {}: transport call counter moved from {} to {} after the latch", ci.idx, touches_at_latch, p.touches)));
                break;
            }
        }
    }
    nontrivial
}
