//! C09 — what the broker decodes is exactly what the application asked to send.

use crate::exec::*;
use crate::model::*;
use crate::refcodec::{CPacket, Prop};
use crate::runner::CaseOut;
use crate::steps::*;
use crate::trace::*;
use crate::world::Ev;

/// Same multiset of properties, and user properties in the same relative order.
fn props_match(want: &[Prop], got: &[Prop]) -> bool {
    if want.len() != got.len() {
        return false;
    }
    let mut rest: Vec<&Prop> = got.iter().collect();
    for w in want {
        match rest.iter().position(|g| *g == w) {
            Some(i) => {
                rest.remove(i);
            }
            None => return false,
        }
    }
    let up = |v: &[Prop]| v.iter().filter(|p| matches!(p, Prop::UserProperty(..))).cloned().collect::<Vec<_>>();
    up(want) == up(got)
}

fn rl_boundary(len: usize) -> bool {
    // total packet length whose remaining length sits next to a 1/2/3/4-byte boundary
    for (b, h) in [(127usize, 2usize), (128, 3), (16383, 3), (16384, 4), (2_097_151, 4), (2_097_152, 5)] {
        if len == b + h {
            return true;
        }
    }
    false
}

pub fn check(t: &Trace<'_>, out: &mut CaseOut) -> bool {
    let w = t.w;
    let m = Model::build(t);
    let cfg = &t.log.cfg;
    let mut nontrivial = false;
    // the configuration itself: the harness sets user name / password and the will at most once
    // and splits one backing buffer at a size within it; a builder that refuses that keeps the
    // application from asking for the CONNECT it wants
    if let Some(e) = &t.log.setup_error {
        if e.contains("DuplicateConfig") || e.starts_with("from_buffer") {
            out.violations.push(viol("C09", "C09/configuration-refused", format!("a configuration that sets each item once was refused by the builder: {}", e)));
        }
    }
    // ---- acknowledgements: what the broker decodes is the acknowledgement that was owed (kind,
    // identifier, reason code), as worked out by the inbound model of C04
    {
        let mut tmp = CaseOut::default();
        super::c04::check(t, &mut tmp);
        out.count("acknowledgements_compared", tmp.counters.get("acks_on_wire").copied().unwrap_or(0));
        for v in tmp.violations {
            if v.sig.contains("/ack-mismatch") || v.sig.contains("/ack-malformed") {
                out.violations.push(viol("C09", v.sig.replace("C04/", "C09/acknowledgement/"), v.msg));
            }
        }
    }
    // ---- CONNECT
    let mut server_ka: Option<u16> = None;
    let mut expect_id = cfg.client_id.clone();
    // clean start: asked for until a connect() has succeeded (see C05 for the one unspecified case)
    let mut had_success = false;
    let mut clean_start_unspecified = false;
    for ci in &t.conns {
        let c = &w.conns[ci.idx];
        if let Some(CPacket::Connect { keepalive, props, client_id, will, username, password, clean_start }) = c.out.packets.first().map(|p| &p.pkt) {
            out.count("connects_compared", 1);
            let mut bad: Vec<String> = Vec::new();
            if !clean_start_unspecified && *clean_start == had_success {
                bad.push(format!("clean-start flag {} although {} connect() has succeeded on this session", clean_start, if had_success { "a" } else { "no" }));
            }
            if !had_success && ci.idx > 0 {
                out.count("connects_after_failed_handshakes_only", 1);
            }
            // the application asked for `cfg.keepalive`; a Server Keep Alive overrides it for the
            // connection whose CONNACK carried it, not for the next CONNECT
            if *keepalive != cfg.keepalive {
                let sticky = Some(*keepalive) == server_ka;
                bad.push(format!("keep-alive{} {} (configured {}, Server Keep Alive of an earlier connection {:?})", if sticky { "/sticky-server-keep-alive" } else { "" }, keepalive, cfg.keepalive, server_ka));
            }
            if server_ka.is_some_and(|k| k != cfg.keepalive) {
                out.count("connects_after_a_server_keepalive_override", 1);
            }
            let want_props = vec![Prop::MaximumPacketSize(cfg.rx as u32), Prop::SessionExpiry(cfg.session_expiry), Prop::ReceiveMaximum(8)];
            if !props_match(&want_props, props) {
                bad.push(format!("properties {:?}, expected {:?}", props, want_props));
            }
            if *client_id != expect_id {
                bad.push(format!("client id {:?}, expected {:?}", client_id, expect_id));
            }
            match (&cfg.will, will) {
                (None, None) => {}
                (Some(a), Some(b)) => {
                    if a.topic != b.topic || a.payload != b.payload || a.qos != b.qos || a.retain != b.retain || !props_match(&a.props, &b.props) {
                        bad.push(format!("will {:?}, configured {:?}", b, a));
                    }
                    nontrivial = true;
                }
                (a, b) => bad.push(format!("will presence: configured {:?}, sent {:?}", a.is_some(), b.is_some())),
            }
            match (&cfg.auth, username, password) {
                (None, None, None) => {}
                (Some((u, p)), Some(u2), Some(p2)) if u == u2 && p == p2 => nontrivial = true,
                _ => bad.push(format!("user name/password {:?}/{:?}, configured {:?}", username, password, cfg.auth)),
            }
            for b in bad {
                let what = b.split(' ').next().unwrap_or("?").to_string();
                out.violations.push(viol("C09", format!("C09/connect/{}", what), format!("conn {}: CONNECT {}", ci.idx, b)));
            }
        }
        if ci.established {
            had_success = true;
            clean_start_unspecified = false;
        } else if ci.connack_consumed && matches!(ci.connack, Some((false, 0, _))) && had_success {
            clean_start_unspecified = true;
        }
        if ci.connack_consumed {
            if let Some(k) = ci.ska {
                server_ka = Some(k);
            }
            if ci.established {
                if let Some(id) = &ci.assigned {
                    expect_id = id.clone();
                }
            }
        }
    }
    // ---- an accepted request whose packet the broker cannot decode at all
    for c in &w.conns {
        let Some((off, why)) = &c.out.error else { continue };
        let ops: Vec<(usize, &OpRec)> = t.log.ops.iter().enumerate().filter(|(_, o)| o.conn == Some(c.idx)).collect();
        // bytes left behind by an abandoned QoS 0 publish (documented as not cancel-safe) or by a
        // runaway call make the framing of everything after them meaningless
        if *off != 0 && ops.iter().any(|(_, o)| left_bytes_behind(t.log, o)) {
            continue;
        }
        // the CONNECT itself (whatever connect() then returned: a broker cannot answer it)
        if *off == 0 {
            if let Some((i, o)) = ops.iter().find(|(_, o)| o.kind == "connect" && o.out_after > 0) {
                out.violations.push(viol("C09", "C09/connect/undecodable", format!("op#{} connect returned {:?}; the broker cannot decode the CONNECT it wrote: {}", i, o.outcome, why)));
            }
            continue;
        }
        if let Some((i, o)) = ops.iter().find(|(_, o)| o.out_before <= *off && *off < o.out_after) {
            if matches!(o.outcome, Outcome::Ok(_)) && matches!(o.kind, "publish0" | "publish1" | "publish2" | "subscribe" | "unsubscribe" | "disconnect") {
                // is it this request's own packet (not an earlier queued one flushed by this call)?
                let own_first = m.msgs.iter().find(|x| x.op == *i).is_none_or(|x| x.txs.is_empty());
                if own_first {
                    out.violations.push(viol("C09", format!("C09/request-undecodable/{}", o.kind), format!("op#{} {} returned {:?} but the broker cannot decode the packet it wrote at stream offset {}: {}", i, o.kind, o.outcome, off, why)));
                }
            }
        }
    }
    // ---- requests
    for (i, op) in t.log.ops.iter().enumerate() {
        let Some(conn) = op.conn else { continue };
        if !t.conns[conn].stream_ok {
            continue;
        }
        let c = &w.conns[conn];
        let during: Vec<&crate::refcodec::CRec> = c.out.packets.iter().filter(|p| p.ev > op.ev_call && p.ev < op.ev_ret).collect();
        match &t.log.steps[op.step] {
            Step::Publish(spec) if op.kind.starts_with("publish") => {
                let q = t.eff_qos(i).unwrap_or(spec.qos);
                let mut want_props: Vec<Prop> = spec.correlate.iter().map(|c| Prop::CorrelationData(c.clone())).collect();
                want_props.extend(spec.props.iter().cloned());
                let body = spec.payload.bytes();
                // locate the first transmission
                let pkt: Option<&crate::refcodec::CRec> = if q == 0 {
                    if matches!(op.outcome, Outcome::Ok(_)) { during.iter().rev().find(|p| matches!(p.pkt, CPacket::Publish { qos: 0, .. })).copied() } else { None }
                } else {
                    m.msgs.iter().find(|x| x.op == i).and_then(|x| x.txs.first()).map(|tx| &w.conns[tx.conn].out.packets[tx.idx])
                };
                let failed = matches!(op.outcome, Outcome::Err(ErrRepr::BufferTooSmall | ErrRepr::PacketTooLarge | ErrRepr::InvalidRequest | ErrRepr::Payload | ErrRepr::NotReady | ErrRepr::InflightExhausted));
                if failed {
                    out.count("refused_requests", 1);
                    out.key(format!("refused/{}/{:?}", op.kind, op.outcome));
                    nontrivial = true;
                    // nothing of the request on the wire, nothing retained
                    let leaked = during.iter().any(|p| matches!(&p.pkt, CPacket::Publish { topic, .. } if *topic == spec.topic && spec.topic.len() > 6));
                    if leaked || !op.new_retained.is_empty() {
                        out.violations.push(viol("C09", format!("C09/refused-but-sent/{}", op.kind), format!("op#{} returned {:?} but part of the request was sent or retained", i, op.outcome)));
                    }
                    continue;
                }
                // a request that went out under another QoS than the one due on this connection is not
                // found above (wrong packet shape, no entry in the model): it is still on the wire
                let pkt = pkt.or_else(|| {
                    if matches!(op.outcome, Outcome::Ok(_)) && spec.topic.len() > 2 {
                        during.iter().rev().find(|p| matches!(&p.pkt, CPacket::Publish { topic, payload, qos, .. } if *topic == spec.topic && *payload == body && *qos != q)).copied()
                    } else {
                        None
                    }
                });
                let Some(p) = pkt else { continue };
                out.count("publishes_compared", 1);
                if let CPacket::Publish { dup, qos, retain, topic, props, payload, .. } = &p.pkt {
                    let mut bad = Vec::new();
                    if *topic != spec.topic {
                        bad.push("topic");
                    }
                    if *payload != body {
                        bad.push("payload");
                    }
                    if *qos != q {
                        bad.push("qos");
                    }
                    if *retain != spec.retain {
                        bad.push("retain");
                    }
                    if !props_match(&want_props, props) {
                        bad.push("properties");
                    }
                    if *dup && p_conn_is_accepting(&m, i, p) {
                        bad.push("dup");
                    }
                    for b in bad {
                        out.violations.push(viol("C09", format!("C09/publish/{}", b), format!("op#{}: PUBLISH on the wire differs from the request in {}: sent topic {:?} qos {} retain {} props {:?} payload {} bytes; asked topic {:?} qos {} retain {} props {:?} payload {} bytes", i, b, trunc(topic, 40), qos, retain, props, payload.len(), trunc(&spec.topic, 40), q, spec.retain, want_props, body.len())));
                    }
                    if !props.is_empty() {
                        nontrivial = true;
                        for pr in props {
                            out.key(format!("prop/publish/{}", Prop::name(pr.id())));
                        }
                    }
                    if rl_boundary(p.end - p.start) {
                        nontrivial = true;
                        out.key(format!("rl-boundary/{}", p.end - p.start));
                    }
                }
            }
            Step::Subscribe(spec) if matches!(op.outcome, Outcome::Ok(_)) || !op.new_retained.is_empty() => {
                let Some(p) = m.msgs.iter().find(|x| x.op == i).and_then(|x| x.txs.first()).map(|tx| &w.conns[tx.conn].out.packets[tx.idx]) else { continue };
                out.count("subscribes_compared", 1);
                if let CPacket::Subscribe { props, filters, .. } = &p.pkt {
                    let want: Vec<(String, u8)> = spec.filters.iter().map(|f| (f.filter.clone(), f.options_byte())).collect();
                    if *filters != want {
                        out.violations.push(viol("C09", "C09/subscribe/filters", format!("op#{}: SUBSCRIBE filters {:?}, asked {:?}", i, filters, want)));
                    }
                    if !props_match(&spec.props, props) {
                        out.violations.push(viol("C09", "C09/subscribe/properties", format!("op#{}: SUBSCRIBE props {:?}, asked {:?}", i, props, spec.props)));
                    }
                    for f in &want {
                        out.key(format!("subopt/{:#04x}", f.1));
                    }
                    nontrivial = true;
                }
            }
            Step::Unsubscribe(spec) if matches!(op.outcome, Outcome::Ok(_)) || !op.new_retained.is_empty() => {
                let Some(p) = m.msgs.iter().find(|x| x.op == i).and_then(|x| x.txs.first()).map(|tx| &w.conns[tx.conn].out.packets[tx.idx]) else { continue };
                out.count("unsubscribes_compared", 1);
                if let CPacket::Unsubscribe { props, filters, .. } = &p.pkt {
                    if *filters != spec.filters {
                        out.violations.push(viol("C09", "C09/unsubscribe/filters", format!("op#{}: UNSUBSCRIBE filters {:?}, asked {:?}", i, filters, spec.filters)));
                    }
                    if !props_match(&spec.props, props) {
                        out.violations.push(viol("C09", "C09/unsubscribe/properties", format!("op#{}: UNSUBSCRIBE props {:?}, asked {:?}", i, props, spec.props)));
                    }
                }
            }
            Step::Subscribe(_) | Step::Unsubscribe(_) => {
                if matches!(op.outcome, Outcome::Err(ErrRepr::BufferTooSmall | ErrRepr::PacketTooLarge | ErrRepr::InvalidRequest | ErrRepr::InflightExhausted)) {
                    out.count("refused_requests", 1);
                    out.key(format!("refused/{}/{:?}", op.kind, op.outcome));
                    // (an earlier, still unsent request may legitimately be flushed by this call:
                    // only packets carrying exactly this request's filters count)
                    let same = |p: &&crate::refcodec::CRec| match (&p.pkt, &t.log.steps[op.step]) {
                        (CPacket::Subscribe { filters, .. }, Step::Subscribe(sp)) => filters.iter().map(|f| &f.0).eq(sp.filters.iter().map(|f| &f.filter)) && m.msgs.iter().all(|x| !x.txs.iter().any(|tx| tx.conn == conn && w.conns[conn].out.packets[tx.idx].start == p.start)),
                        (CPacket::Unsubscribe { filters, .. }, Step::Unsubscribe(sp)) => *filters == sp.filters && m.msgs.iter().all(|x| !x.txs.iter().any(|tx| tx.conn == conn && w.conns[conn].out.packets[tx.idx].start == p.start)),
                        _ => false,
                    };
                    if during.iter().any(|p| same(p) && p.b0 & 8 == 0) {
                        out.violations.push(viol("C09", format!("C09/refused-but-sent/{}", op.kind), format!("op#{} returned {:?} but a new SUBSCRIBE/UNSUBSCRIBE went out during the call", i, op.outcome)));
                    }
                }
            }
            Step::Disconnect(spec) if matches!(op.outcome, Outcome::Ok(_)) && op.live_before => {
                let Some(p) = during.iter().find(|p| matches!(p.pkt, CPacket::Disconnect { .. })) else { continue };
                out.count("disconnects_compared", 1);
                if let CPacket::Disconnect { reason, props } = &p.pkt {
                    // a DISCONNECT begun by an earlier, cancelled disconnect() is finished by this
                    // call: it carries what the call that started it asked for
                    let spec = if p.start < op.out_before {
                        let origin = t.log.ops[..i].iter().rev().find(|o| o.conn == Some(conn) && o.kind == "disconnect" && o.out_before <= p.start && o.out_after > p.start);
                        match origin.map(|o| &t.log.steps[o.step]) {
                            Some(Step::Disconnect(first)) => {
                                out.count("disconnects_finished_by_a_later_call", 1);
                                first
                            }
                            _ => continue,
                        }
                    } else {
                        spec
                    };
                    // an earlier disconnect() that was cancelled after its DISCONNECT had been handed
                    // to the session (possibly before any byte was written) is completed by this
                    // call: the packet is then the earlier request's
                    let earlier: Vec<&DiscSpec> = t.log.ops[..i]
                        .iter()
                        .filter(|o| o.conn == Some(conn) && o.kind == "disconnect" && o.outcome == Outcome::Cancelled)
                        .filter_map(|o| match &t.log.steps[o.step] {
                            Step::Disconnect(d) => Some(d),
                            _ => None,
                        })
                        .collect();
                    let fits = |d: &DiscSpec| *reason == d.reason.unwrap_or(0) && props_match(&d.props.clone().unwrap_or_default(), props);
                    if !fits(spec) && earlier.iter().any(|d| fits(d)) {
                        out.count("disconnects_finished_by_a_later_call", 1);
                        nontrivial = true;
                        continue;
                    }
                    let want_reason = spec.reason.unwrap_or(0);
                    let want_props = spec.props.clone().unwrap_or_default();
                    if *reason != want_reason {
                        out.violations.push(viol("C09", "C09/disconnect/reason", format!("op#{}: DISCONNECT reason {:#x}, asked {:#x}", i, reason, want_reason)));
                    }
                    if !props_match(&want_props, props) {
                        out.violations.push(viol("C09", "C09/disconnect/properties", format!("op#{}: DISCONNECT props {:?}, asked {:?}", i, props, want_props)));
                    }
                    nontrivial = true;
                }
            }
            _ => {}
        }
    }
    // ---- retransmissions must still decode to exactly what was requested
    for msg in &m.msgs {
        let op = &t.log.ops[msg.op];
        for tx in msg.txs.iter().skip(1) {
            if !t.conns[tx.conn].stream_ok {
                continue;
            }
            let p = &w.conns[tx.conn].out.packets[tx.idx];
            out.count("retransmissions_compared", 1);
            let same = match (&t.log.steps[op.step], &p.pkt) {
                (Step::Publish(spec), CPacket::Publish { topic, payload, qos, retain, props, .. }) => {
                    let mut want_props: Vec<Prop> = spec.correlate.iter().map(|c| Prop::CorrelationData(c.clone())).collect();
                    want_props.extend(spec.props.iter().cloned());
                    *topic == spec.topic && *payload == spec.payload.bytes() && Some(*qos) == t.eff_qos(msg.op) && *retain == spec.retain && props_match(&want_props, props)
                }
                (Step::Subscribe(spec), CPacket::Subscribe { props, filters, .. }) => {
                    let want: Vec<(String, u8)> = spec.filters.iter().map(|f| (f.filter.clone(), f.options_byte())).collect();
                    *filters == want && props_match(&spec.props, props)
                }
                (Step::Unsubscribe(spec), CPacket::Unsubscribe { props, filters, .. }) => *filters == spec.filters && props_match(&spec.props, props),
                _ => false,
            };
            if !same {
                out.violations.push(viol("C09", format!("C09/retransmission-differs-from-request/{}", msg.kind), format!("op#{} id {}: what was retransmitted on conn {} does not decode to the request: {}", msg.op, msg.pid, tx.conn, trunc(&format!("{:?}", p.pkt), 200))));
            }
        }
    }
    // a stream that stops being parseable right after a retransmission began is the same defect
    for ci in &t.conns {
        let c = &w.conns[ci.idx];
        if let Some((off, msg)) = &c.out.error {
            let replay_started = ci.connack.as_ref().is_some_and(|k| k.0) && c.out.packets.len() >= 1 && ci.qos0_cancel_at.is_none() && !ci.write_zero;
            if replay_started && m.msgs.iter().any(|x| x.ev_accept < ci.ev_begin && x.outstanding_at(ci.ev_begin)) {
                out.violations.push(viol("C09", "C09/retransmission-undecodable", format!("conn {}: resumed connection with requests to replay, but its stream stops decoding at offset {}: {}", ci.idx, off, msg)));
            }
        }
    }
    let _ = Ev::Watchdog;
    nontrivial
}

fn p_conn_is_accepting(m: &Model, op: usize, _p: &crate::refcodec::CRec) -> bool {
    // DUP on the very first transmission is judged only when it happened on the accepting connection
    m.msgs.iter().find(|x| x.op == op).is_some_and(|x| x.txs.first().is_some_and(|tx| tx.conn == x.conn0))
}
