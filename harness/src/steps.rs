//! Concrete, serialisable workload steps and their parameters.

use crate::refcodec::{Prop, SPacket};
use serde::{Deserialize, Serialize};

#[derive(Clone, Debug, Serialize, Deserialize, PartialEq)]
pub struct WillSpec {
    pub topic: String,
    pub payload: Vec<u8>,
    pub qos: u8,
    pub retain: bool,
    pub props: Vec<Prop>,
}

#[derive(Clone, Debug, Serialize, Deserialize, PartialEq)]
pub struct CaseCfg {
    pub rx: usize,
    pub tx: usize,
    pub client_id: String,
    pub keepalive: u16,
    pub session_expiry: u32,
    pub downgrade: bool,
    pub will: Option<WillSpec>,
    pub auth: Option<(String, Vec<u8>)>,
}

impl Default for CaseCfg {
    fn default() -> Self {
        CaseCfg {
            rx: 256,
            tx: 1024,
            client_id: "cid".into(),
            keepalive: 0,
            session_expiry: 3600,
            downgrade: false,
            will: None,
            auth: None,
        }
    }
}

#[derive(Clone, Copy, Debug, Serialize, Deserialize, PartialEq, Eq, Hash)]
pub enum Chunk {
    All,
    One,
    Rand,
    AltOneAll,
    AllButOne,
    Fixed(usize),
}

#[derive(Clone, Copy, Debug, Serialize, Deserialize, PartialEq, Eq, Hash)]
pub enum Pend {
    Never,
    Always,
    Pct(u8),
}

#[derive(Clone, Debug, Serialize, Deserialize, PartialEq)]
pub struct IoPolicy {
    pub write: Chunk,
    pub read: Chunk,
    pub pend_write: Pend,
    pub pend_flush: Pend,
    pub pend_read: Pend,
    /// explicit read chunk sizes, consumed before `read` applies
    pub read_chunks: Vec<usize>,
    /// a transport that took only part of a buffer is busy for this long (virtual microseconds)
    /// before the next write call goes through; no client timer can fire inside a write await
    #[serde(default)]
    pub slow_write_us: u64,
}

impl Default for IoPolicy {
    fn default() -> Self {
        IoPolicy {
            write: Chunk::All,
            read: Chunk::All,
            pend_write: Pend::Never,
            pend_flush: Pend::Never,
            pend_read: Pend::Never,
            read_chunks: vec![],
            slow_write_us: 0,
        }
    }
}

#[derive(Clone, Copy, Debug, Serialize, Deserialize, PartialEq, Eq, Hash)]
pub enum ErrKind {
    ConnectionReset,
    BrokenPipe,
    TimedOut,
    Interrupted,
    NotConnected,
    ConnectionAborted,
    Other,
    /// an error (not a zero-length write) whose kind says "write zero", as some adapters report it
    WriteZero,
}

#[derive(Clone, Copy, Debug, Serialize, Deserialize, PartialEq, Eq, Hash)]
pub enum FaultAt {
    /// n-th I/O call of any kind on the connection (0-based, counting executed calls)
    Io(usize),
    Write(usize),
    Read(usize),
    Flush(usize),
    /// the write call that follows the acceptance of exactly n outbound bytes
    OutBytes(usize),
}

#[derive(Clone, Copy, Debug, Serialize, Deserialize, PartialEq, Eq, Hash)]
pub enum FaultKind {
    Error(ErrKind),
    /// read returns Ok(0)
    Eof,
    /// write returns Ok(0) for a non-empty buffer (the client reports WriteZero)
    WriteZero,
}

#[derive(Clone, Copy, Debug, Serialize, Deserialize, PartialEq, Eq, Hash)]
pub struct FaultPlan {
    pub at: FaultAt,
    pub kind: FaultKind,
}

#[derive(Clone, Copy, Debug, Serialize, Deserialize, PartialEq, Eq, Hash)]
pub enum AckMode {
    Immediate,
    Hold,
    Delay(u64),
    Never,
}

#[derive(Clone, Debug, Serialize, Deserialize, PartialEq)]
pub struct BrokerPolicy {
    pub acks: AckMode,
    pub ping: AckMode,
    /// percent of PUBACK/PUBREC/PUBCOMP/SUBACK/UNSUBACK that carry a failure code
    pub fail_pct: u8,
    /// use long-form acks (explicit reason + empty/non-empty property block) this often
    pub longform_pct: u8,
}

impl Default for BrokerPolicy {
    fn default() -> Self {
        BrokerPolicy {
            acks: AckMode::Immediate,
            ping: AckMode::Immediate,
            fail_pct: 0,
            longform_pct: 0,
        }
    }
}

#[derive(Clone, Debug, Serialize, Deserialize, PartialEq)]
pub enum SpMode {
    /// session present iff the broker holds a session and clean start was not requested
    Honest,
    Force(bool),
}

#[derive(Clone, Debug, Serialize, Deserialize, PartialEq)]
pub enum ConnackSpec {
    Normal { sp: SpMode, reason: u8, props: Vec<Prop> },
    /// arbitrary bytes instead of a CONNACK
    Raw(Vec<u8>),
    /// answer CONNECT with a DISCONNECT
    Disconnect(u8),
    /// close the stream after CONNECT
    Eof,
    /// never answer
    Silent,
}

impl ConnackSpec {
    pub fn ok(sp: SpMode) -> Self {
        ConnackSpec::Normal { sp, reason: 0, props: vec![] }
    }
}

#[derive(Clone, Debug, Serialize, Deserialize, PartialEq)]
pub struct ConnectSpec {
    pub policy: IoPolicy,
    pub faults: Vec<FaultPlan>,
    pub connack: ConnackSpec,
    pub broker: BrokerPolicy,
    pub cancel_at: Option<usize>,
}

impl Default for ConnectSpec {
    fn default() -> Self {
        ConnectSpec {
            policy: IoPolicy::default(),
            faults: vec![],
            connack: ConnackSpec::ok(SpMode::Honest),
            broker: BrokerPolicy::default(),
            cancel_at: None,
        }
    }
}

#[derive(Clone, Debug, Serialize, Deserialize, PartialEq)]
pub enum PayloadSpec {
    Bytes(Vec<u8>),
    /// deterministic filler of `len` bytes derived from `tag`
    Fill { len: usize, tag: u32, ascii: bool },
    /// closure that writes nothing and claims `claim` bytes
    Lie { claim: usize },
    /// closure that fails
    Fail,
}

impl PayloadSpec {
    pub fn bytes(&self) -> Vec<u8> {
        match self {
            PayloadSpec::Bytes(b) => b.clone(),
            PayloadSpec::Fill { len, tag, ascii } => fill(*tag, *len, *ascii),
            _ => vec![],
        }
    }
}

pub fn fill(tag: u32, len: usize, ascii: bool) -> Vec<u8> {
    let mut v = Vec::with_capacity(len);
    let t = tag.to_be_bytes();
    for i in 0..len {
        let b = if i < 4 && !ascii {
            t[i]
        } else {
            (tag.wrapping_mul(31).wrapping_add(i as u32 * 7)) as u8
        };
        v.push(if ascii { b'a' + (b % 26) } else { b });
    }
    v
}

#[derive(Clone, Debug, Serialize, Deserialize, PartialEq)]
pub struct PubSpec {
    pub topic: String,
    pub payload: PayloadSpec,
    pub qos: u8,
    pub retain: bool,
    pub props: Vec<Prop>,
    pub correlate: Option<Vec<u8>>,
    pub cancel_at: Option<usize>,
}

#[derive(Clone, Debug, Serialize, Deserialize, PartialEq)]
pub struct FilterSpec {
    pub filter: String,
    pub max_qos: u8,
    pub no_local: bool,
    pub rap: bool,
    pub rh: u8,
}

impl FilterSpec {
    pub fn options_byte(&self) -> u8 {
        self.max_qos | ((self.no_local as u8) << 2) | ((self.rap as u8) << 3) | (self.rh << 4)
    }
}

#[derive(Clone, Debug, Serialize, Deserialize, PartialEq)]
pub struct SubSpec {
    pub filters: Vec<FilterSpec>,
    pub props: Vec<Prop>,
    pub cancel_at: Option<usize>,
}

#[derive(Clone, Debug, Serialize, Deserialize, PartialEq)]
pub struct UnsubSpec {
    pub filters: Vec<String>,
    pub props: Vec<Prop>,
    pub cancel_at: Option<usize>,
}

#[derive(Clone, Debug, Serialize, Deserialize, PartialEq)]
pub struct DiscSpec {
    pub reason: Option<u8>,
    pub props: Option<Vec<Prop>>,
    pub cancel_at: Option<usize>,
}

#[derive(Clone, Copy, Debug, Serialize, Deserialize, PartialEq, Eq)]
pub enum Order {
    Fifo,
    Lifo,
    Shuffle(u64),
}

#[derive(Clone, Debug, Serialize, Deserialize, PartialEq)]
pub enum BrokerAct {
    /// release up to n held acknowledgements
    Release { n: usize, order: Order },
    /// send any server packet (tracked by the broker model when it is a PUBLISH/PUBREL)
    Send(SPacket),
    SendRaw(Vec<u8>),
    /// close the stream once the inbound queue has been read
    Close,
    /// from now on transport and broker behave on this connection: planned faults, stalls and
    /// delays are dropped, reads and writes are taken whole, withheld acknowledgements go out and
    /// every further packet is acknowledged at once
    Behave,
    /// change the ack policy of the current connection
    Policy(BrokerPolicy),
    /// the network stalls: of whatever the broker sends next, only `after` bytes arrive at once;
    /// the rest arrives after the client's read found nothing `blocks` times
    Gate { after: usize, blocks: u8 },
    /// the transport's send buffer fills up: after `after` more outbound bytes nothing is accepted
    /// until `blocks` write calls have found it busy
    WriteGate { after: usize, blocks: u8 },
    /// a sluggish executor: from now on a task woken by arriving data is polled this much later
    /// (virtual microseconds); the application is still "waiting in poll()" all that time
    WakeDelay(u64),
    /// timers never fire early, but they do fire a little late: from now on the task is polled
    /// this many virtual microseconds after a timer of the client fell due (kept far below the
    /// smallest slack the client plans with, half a second)
    TimerLatency(u64),
    /// (given while no connection is up) the broker has these packets waiting for the client - its
    /// session's queued messages - and sends them straight behind the next successful CONNACK,
    /// in the same segment
    AfterNextConnack(Vec<SPacket>),
}

#[derive(Clone, Debug, Serialize, Deserialize, PartialEq)]
pub enum ReplyMode {
    /// `reply(payload)` copied out field by field, then published
    Borrowed,
    /// `reply_owned::<T, C>()` with capacities chosen from the fixed menu
    Owned { topic_cap: usize, corr_cap: usize },
}

#[derive(Clone, Debug, Serialize, Deserialize, PartialEq)]
pub enum Step {
    Connect(ConnectSpec),
    Publish(PubSpec),
    Subscribe(SubSpec),
    Unsubscribe(UnsubSpec),
    /// poll(); the caller gives up after `max_wait` virtual microseconds
    Poll { max_wait: u64, cancel_at: Option<usize> },
    Recv { max_wait: u64, cancel_at: Option<usize> },
    Drive { cancel_at: Option<usize> },
    Disconnect(DiscSpec),
    DropConn,
    ForgetConn,
    IntoInner,
    Broker(BrokerAct),
    Advance(u64),
    /// change the I/O policy / add faults on the live connection
    Io { policy: Option<IoPolicy>, faults: Vec<FaultPlan> },
    SetNextPid(u16),
    /// consume `n` packet identifiers through refused QoS 1 publishes (payload closure fails)
    BurnIds(usize),
    /// poll until a message arrives (bounded), then answer it through the reply helpers
    PollReply { mode: ReplyMode, payload: Vec<u8>, user_props: Option<Vec<Prop>>, qos: u8 },
}

impl Step {
    pub fn kind(&self) -> &'static str {
        match self {
            Step::Connect(_) => "connect",
            Step::Publish(p) => match p.qos {
                0 => "publish0",
                1 => "publish1",
                _ => "publish2",
            },
            Step::Subscribe(_) => "subscribe",
            Step::Unsubscribe(_) => "unsubscribe",
            Step::Poll { .. } => "poll",
            Step::Recv { .. } => "recv",
            Step::Drive { .. } => "drive",
            Step::Disconnect(_) => "disconnect",
            Step::DropConn => "drop",
            Step::ForgetConn => "forget",
            Step::IntoInner => "into_inner",
            Step::Broker(_) => "broker",
            Step::Advance(_) => "advance",
            Step::Io { .. } => "io",
            Step::SetNextPid(_) => "setpid",
            Step::BurnIds(_) => "burn",
            Step::PollReply { .. } => "pollreply",
        }
    }
}
