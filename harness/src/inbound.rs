//! C08 — any inbound bytes: valid packets accepted verbatim, malformed rejected, no panic.

use crate::checks::*;
use crate::exec::*;
use crate::genr::{rand_server_publish_props, rand_string, rand_topic};
use crate::refcodec::{self as rc, CPacket, Class, Framing, Prop, SPacket};
use crate::rng::Rng;
use crate::runner::*;
use crate::steps::*;
use crate::trace::*;
use crate::world::*;

pub struct C08;

const RX_DEFAULT: usize = 96;
thread_local! { static RX_CELL: std::cell::Cell<usize> = const { std::cell::Cell::new(RX_DEFAULT) }; }
// The data stalls once after this many bytes of the injected stream (the wait in progress is given
// up there by the caller and a later one carries on): (offset, number of reads that find nothing).
thread_local! { static STALL_CELL: std::cell::Cell<Option<(usize, u8)>> = const { std::cell::Cell::new(None) }; }
/// Receive buffer of the current case (generative workloads vary it; enumerations use 96).
fn rx() -> usize {
    RX_CELL.with(|c| c.get())
}


fn ctx_steps() -> Vec<Step> {
    // operations kept in flight so that acknowledgements have something to match:
    // id 1 = QoS 1 publish, id 2 = QoS 2 publish, id 3 = SUBSCRIBE, id 4 = UNSUBSCRIBE
    vec![
        pubq(1, "c/1", 1, 2),
        pubq(2, "c/2", 2, 2),
        Step::Subscribe(SubSpec { filters: vec![FilterSpec { filter: "c/#".into(), max_qos: 2, no_local: false, rap: false, rh: 0 }], props: vec![], cancel_at: None }),
        Step::Unsubscribe(UnsubSpec { filters: vec!["c/x".into()], props: vec![], cancel_at: None }),
    ]
}

/// Split a byte string into frames the way a strict receiver would; the tail may be incomplete
/// or start with a malformed header.
fn split_frames(stream: &[u8]) -> (Vec<Vec<u8>>, Vec<u8>, Option<&'static str>) {
    let mut frames = Vec::new();
    let mut rest = stream;
    loop {
        match rc::frame_server(rest) {
            Framing::Frame(n) => {
                frames.push(rest[..n].to_vec());
                rest = &rest[n..];
            }
            Framing::Incomplete => return (frames, rest.to_vec(), None),
            Framing::BadHeader(why) => {
                if why.starts_with("non-canonical") {
                    // the client may wait for the body this (over-long) length announces and reject
                    // the packet on arrival: demand the rejection only if the body is there
                    let mut rl = 0usize;
                    let mut n = 0;
                    for (k, b) in rest[1..].iter().take(4).enumerate() {
                        rl |= ((b & 0x7f) as usize) << (7 * k);
                        n = k + 1;
                        if b & 0x80 == 0 {
                            break;
                        }
                    }
                    if rest.len() < 1 + n + rl {
                        return (frames, rest.to_vec(), None);
                    }
                }
                return (frames, rest.to_vec(), Some(why));
            }
        }
    }
}

fn rand_ack_props(r: &mut Rng) -> Option<Vec<Prop>> {
    if rx() >= 70_000 && r.chance(1, 2) {
        // a property block on either side of 65535 / 65536 bytes
        let n = *r.pick(&[65_529usize, 65_530, 65_531, 65_532, 65_535]);
        return Some(vec![Prop::ReasonString("r".repeat(n)), Prop::UserProperty("k".into(), "v".into())]);
    }
    match r.below(4) {
        0 => None,
        1 => Some(vec![]),
        2 => Some(vec![Prop::ReasonString(rand_string(r, 8))]),
        _ => Some(vec![Prop::UserProperty(rand_string(r, 4), rand_string(r, 4)), Prop::ReasonString("x".into()), Prop::UserProperty("a".into(), "".into())]),
    }
}

/// A spec-valid server packet of a random type, sized to fit the receive buffer.
pub fn rand_valid(r: &mut Rng, post_connack: bool) -> SPacket {
    let pid = *r.pick(&[1u16, 2, 3, 4, 5, 9, 255, 256, 65535, 0x8080, 0xC1C1, 0xFF80]);
    let kinds: &[u8] = if post_connack { &[3, 3, 3, 4, 5, 6, 7, 9, 11, 13, 14] } else { &[2, 2, 2, 2, 3, 14, 13] };
    match *r.pick(kinds) {
        2 => {
            let mut props = vec![];
            for id in [0x21u8, 0x27, 0x24, 0x13, 0x12, 0x22, 0x25, 0x26, 0x1F, 0x11, 0x28, 0x29, 0x2A, 0x1A, 0x1C] {
                if r.chance(1, 4) {
                    props.push(match id {
                        0x21 => Prop::ReceiveMaximum(*r.pick(&[1u16, 2, 8, 9, 65535])),
                        0x27 => Prop::MaximumPacketSize(*r.pick(&[1u32, 64, 65535, u32::MAX])),
                        0x24 => Prop::MaximumQoS(r.below(2) as u8),
                        0x13 => Prop::ServerKeepAlive(*r.pick(&[0u16, 1, 60, 65535])),
                        0x12 => Prop::AssignedClientId(rand_string(r, 20)),
                        0x22 => Prop::TopicAliasMaximum(r.below(100) as u16),
                        0x25 => Prop::RetainAvailable(r.below(2) as u8),
                        0x26 => Prop::UserProperty(rand_string(r, 5), rand_string(r, 5)),
                        0x1F => Prop::ReasonString(rand_string(r, 10)),
                        0x11 => Prop::SessionExpiry(*r.pick(&[0u32, 1, u32::MAX])),
                        0x28 => Prop::WildcardSubAvailable(r.below(2) as u8),
                        0x29 => Prop::SubIdAvailable(r.below(2) as u8),
                        0x2A => Prop::SharedSubAvailable(r.below(2) as u8),
                        0x1A => Prop::ResponseInfo(rand_string(r, 6)),
                        _ => Prop::ServerReference(rand_string(r, 6)),
                    });
                }
            }
            if rx() >= 70_000 && r.chance(1, 2) {
                props.retain(|p| !matches!(p, Prop::ReasonString(_)));
                props.push(Prop::ReasonString("r".repeat(*r.pick(&[65_520usize, 65_529, 65_532, 65_535]))));
            }
            r.shuffle(&mut props);
            let reason = if r.chance(1, 5) { *r.pick(&rc::R_CONNACK[1..]) } else { 0 };
            let mut p = SPacket::ConnAck { sp: false, reason, props };
            while rc::encode_server(&p).len() > rx() {
                if let SPacket::ConnAck { props, .. } = &mut p {
                    props.pop();
                }
            }
            // sometimes pad with a user property so that the CONNACK fills the receive buffer exactly
            let have = rc::encode_server(&p).len();
            if r.chance(1, 5) && have + 6 <= rx() {
                for pad in (0..=rx() - have - 5).rev() {
                    let mut q = p.clone();
                    if let SPacket::ConnAck { props, .. } = &mut q {
                        props.push(Prop::UserProperty("p".into(), "x".repeat(pad)));
                    }
                    let n = rc::encode_server(&q).len();
                    if n <= rx() {
                        if n == rx() {
                            p = q;
                        }
                        break;
                    }
                }
            }
            p
        }
        3 => {
            let qos = r.below(3) as u8;
            let (mut props, ascii) = if r.chance(1, 2) { rand_server_publish_props(r) } else { (vec![], false) };
            props.retain(|p| !matches!(p, Prop::TopicAlias(_)));
            if rx() >= 70_000 && r.chance(2, 3) {
                // property blocks around and beyond 64 KiB
                props.retain(|p| !matches!(p, Prop::CorrelationData(_) | Prop::ContentType(_)));
                match r.below(3) {
                    0 => props.push(Prop::CorrelationData(vec![0xC5; *r.pick(&[65_530usize, 65_533, 65_534, 65_535])])),
                    1 => props.push(Prop::ContentType("t".repeat(*r.pick(&[65_530usize, 65_533, 65_535])))),
                    _ => {
                        props.push(Prop::UserProperty("a".repeat(40_000), "b".repeat(30_000)));
                    }
                }
            }
            let topic = rand_topic(r, 10);
            let mut p = SPacket::Publish { dup: qos > 0 && r.chance(1, 5), qos, retain: r.chance(1, 3), topic, pid: (qos > 0).then_some(pid), props, payload: vec![] };
            while rc::encode_server(&p).len() > rx() {
                if let SPacket::Publish { props, .. } = &mut p {
                    props.pop();
                }
            }
            let room = rx() - rc::encode_server(&p).len();
            let len = match r.below(5) {
                // exact fit (shrunk below if the length prefix grew), one byte less, empty
                0 => room,
                1 => room.saturating_sub(1),
                2 => 0,
                _ => r.below(room.saturating_sub(1) + 1),
            };
            if let SPacket::Publish { payload, .. } = &mut p {
                *payload = fill(r.next() as u32, len, ascii);
            }
            while rc::encode_server(&p).len() > rx() {
                if let SPacket::Publish { payload, .. } = &mut p {
                    payload.pop();
                }
            }
            p
        }
        k @ (4 | 5) => {
            let reason = match r.below(3) {
                0 => None,
                1 => Some(0),
                _ => Some(*r.pick(&[0x10u8, 0x80, 0x83, 0x87, 0x90, 0x91, 0x97, 0x99])),
            };
            let props = if reason.is_some() { rand_ack_props(r) } else { None };
            if k == 4 { SPacket::PubAck { pid, reason, props } } else { SPacket::PubRec { pid, reason, props } }
        }
        k @ (6 | 7) => {
            let reason = *r.pick(&[None, Some(0u8), Some(0x92)]);
            let props = if reason.is_some() { rand_ack_props(r) } else { None };
            if k == 6 { SPacket::PubRel { pid, reason, props } } else { SPacket::PubComp { pid, reason, props } }
        }
        9 => SPacket::SubAck { pid, props: rand_ack_props(r).unwrap_or_default(), codes: (0..r.range(1, 4)).map(|_| *r.pick(rc::R_SUBACK)).collect() },
        11 => SPacket::UnsubAck { pid, props: rand_ack_props(r).unwrap_or_default(), codes: (0..r.range(1, 4)).map(|_| *r.pick(rc::R_UNSUBACK)).collect() },
        13 => SPacket::PingResp,
        _ => {
            let reason = *r.pick(&[None, Some(0u8), Some(0x8B), Some(0x8E), Some(0x98), Some(0xA2)]);
            let props = if reason.is_some() { match r.below(3) { 0 => None, 1 => Some(vec![]), _ => Some(vec![Prop::ReasonString("bye".into()), Prop::ServerReference("other".into())]) } } else { None };
            SPacket::Disconnect { reason, props }
        }
    }
}

const MUTATORS: [&str; 17] = [
    "varint-overlong", "type-edit", "flag-edit", "qos3", "length-plus", "length-minus", "truncate", "trailing-garbage", "utf8-corrupt", "oversize", "bit-flip", "splice", "prop-length-edit", "prop-surplus", "prop-surplus", "prop-id-overlong", "prop-id-overlong",
];

/// Index of the property-length byte of a server packet whose lengths are all single-byte varints.
fn prop_block(b: &[u8]) -> Option<usize> {
    if b.len() < 2 || b[1] & 0x80 != 0 || b[1] as usize != b.len() - 2 {
        return None;
    }
    let i = match b[0] >> 4 {
        2 => 4,
        3 => {
            let tl = u16::from_be_bytes([*b.get(2)?, *b.get(3)?]) as usize;
            4 + tl + if b[0] & 0x06 != 0 { 2 } else { 0 }
        }
        4..=7 if b[1] >= 4 => 5,
        9 | 11 => 4,
        14 if b[1] >= 2 => 3,
        _ => return None,
    };
    let pl = *b.get(i)?;
    (pl & 0x80 == 0 && i + 1 + pl as usize <= b.len()).then_some(i)
}

/// Apply one mutation operator to an encoded packet.
pub fn mutate(r: &mut Rng, bytes: &[u8], op: &str) -> Vec<u8> {
    let mut b = bytes.to_vec();
    // position right after the fixed header
    let hdr = 1 + b[1..].iter().take(4).position(|x| x & 0x80 == 0).map(|i| i + 1).unwrap_or(1);
    match op {
        "varint-overlong" => {
            // re-encode the remaining length with a superfluous continuation byte
            let rl = b.len() - hdr;
            let mut out = vec![b[0]];
            let mut v = rl;
            loop {
                let byte = (v & 0x7f) as u8;
                v >>= 7;
                out.push(byte | 0x80);
                if v == 0 {
                    break;
                }
            }
            out.push(0x00);
            out.extend_from_slice(&b[hdr..]);
            out
        }
        "type-edit" => {
            b[0] = (*r.pick(&[0u8, 1, 8, 10, 12, 15]) << 4) | (b[0] & 0x0f);
            b
        }
        "flag-edit" => {
            if b[0] >> 4 != 3 {
                let mut f = r.below(16) as u8;
                if f == b[0] & 0x0f {
                    f ^= 1;
                }
                b[0] = (b[0] & 0xf0) | f;
            } else {
                b[0] |= 0x06;
            }
            b
        }
        "qos3" => {
            b[0] = 0x36 | (b[0] & 0x09);
            b
        }
        "length-plus" => {
            // announce more bytes than follow in one inner length field (first 16-bit length after the header)
            if b.len() > hdr + 1 {
                let i = hdr;
                let v = u16::from_be_bytes([b[i], b[i + 1]]).wrapping_add(1 + r.below(300) as u16);
                b[i..i + 2].copy_from_slice(&v.to_be_bytes());
            }
            b
        }
        "length-minus" => {
            if b[1] & 0x80 == 0 && b[1] > 0 {
                b[1] -= 1; // remaining length one short: last byte becomes the start of the next packet
            }
            b
        }
        "truncate" => {
            let n = r.below(b.len());
            b.truncate(n.max(1));
            b
        }
        "trailing-garbage" => {
            if b[1] & 0x80 == 0 && b[1] < 0x70 {
                let k = 1 + r.below(6);
                b[1] += k as u8;
                for _ in 0..k {
                    b.push(r.next() as u8);
                }
            }
            b
        }
        "utf8-corrupt" => {
            if b[0] >> 4 == 3 && b.len() > hdr + 2 {
                let tl = u16::from_be_bytes([b[hdr], b[hdr + 1]]) as usize;
                if tl > 0 && b.len() > hdr + 2 + tl - 1 {
                    b[hdr + 2 + r.below(tl)] = *r.pick(&[0xFFu8, 0xC0, 0xF8, 0x80]);
                }
            }
            b
        }
        "oversize" => {
            if b[0] >> 4 == 3 {
                let extra = rx() + r.below(40) - b.len().min(rx()) + 1;
                let rl = b.len() - hdr + extra;
                let mut out = vec![b[0]];
                rc::put_varint(&mut out, rl as u32);
                out.extend_from_slice(&b[hdr..]);
                out.extend(std::iter::repeat_n(0x61u8, extra));
                return out;
            }
            b
        }
        "prop-id-overlong" => {
            // lengths stay consistent, but the identifier of the first property is written as an
            // overlong (two-byte) or oversized (five-byte) variable-length integer
            if let Some(i) = prop_block(&b) {
                let pl = b[i] as usize;
                if pl > 0 {
                    let id = b[i + 1];
                    // ... or as the canonical two-byte form of identifier + 256 / + 384, which no
                    // property has
                    let enc: &[u8] = match r.below(4) {
                        0 => &[0x00],
                        1 => &[0x80, 0x80, 0x80, 0x70],
                        2 => &[0x02],
                        _ => &[0x03],
                    };
                    if pl + enc.len() < 0x80 && b[1] as usize + enc.len() < 0x80 && id < 0x80 {
                        b[i + 1] = id | 0x80;
                        for (k, t) in enc.iter().enumerate() {
                            b.insert(i + 2 + k, *t);
                        }
                        b[i] += enc.len() as u8;
                        b[1] += enc.len() as u8;
                    }
                }
            }
            b
        }
        "prop-surplus" => {
            // lengths stay consistent, but the property block ends in a lone identifier or in an
            // identifier with only part of its value
            if let Some(i) = prop_block(&b) {
                let tail: &[u8] = match r.below(6) {
                    0 => &[0x26],
                    1 => &[0x01],
                    2 => &[0x21],
                    3 => &[0x21, 0x00],
                    4 => &[0x1F, 0x00],
                    _ => &[0x02, 0x00, 0x00, 0x00],
                };
                let pl = b[i] as usize;
                if pl + tail.len() < 0x80 && b[1] as usize + tail.len() < 0x80 {
                    let at = i + 1 + pl;
                    for (k, t) in tail.iter().enumerate() {
                        b.insert(at + k, *t);
                    }
                    b[i] += tail.len() as u8;
                    b[1] += tail.len() as u8;
                }
            }
            b
        }
        "bit-flip" => {
            let i = r.below(b.len());
            b[i] ^= 1 << r.below(8);
            b
        }
        "splice" => {
            let other = rc::encode_server(&rand_valid(r, true));
            let cut = r.below(b.len());
            let mut out = b[..cut].to_vec();
            out.extend_from_slice(&other[r.below(other.len())..]);
            out
        }
        _ => {
            // property-length edit: find the property length byte of simple packets
            if b.len() > hdr + 3 {
                let i = hdr + r.below(b.len() - hdr);
                b[i] = *r.pick(&[0x80u8, 0xFF, 0x7F, b[i].wrapping_add(1)]);
            }
            b
        }
    }
}

struct Judged {
    class: Class,
    frame: Vec<u8>,
}

/// What must be observable for one classified frame, given the op that consumed it.
fn judge(t: &Trace<'_>, conn: usize, frames: &[Judged], bad_tail: Option<&'static str>, tail_len: usize, out: &mut CaseOut, what: &str) {
    let w = t.w;
    let c = &w.conns[conn];
    // raw frames were enqueued one InPkt each after the CONNACK (index 1..)
    let base = c.in_pkts.iter().position(|p| p.pkt.is_none()).unwrap_or(c.in_pkts.len());
    let mut delivered_cursor = 0usize;
    let msgs: Vec<&MsgRec> = t.log.msgs.iter().filter(|m| m.conn == conn).collect();
    let mut pending_qos2: Vec<u16> = vec![];
    for (i, j) in frames.iter().enumerate() {
        let Some(ip) = c.in_pkts.get(base + i) else { break };
        let consumed = ip.ev_consumed;
        // the op during which the frame was completely read (or, for oversize frames, its header)
        let op = match consumed {
            Some(ev) => t.op_at(ev).map(|o| &t.log.ops[o]),
            None => {
                // not completely read: only meaningful when the client had to give up on it
                let hdr = 1 + j.frame[1..].iter().take(4).position(|x| x & 0x80 == 0).map(|k| k + 1).unwrap_or(4);
                if c.in_read >= ip.start + hdr.min(j.frame.len()) && j.frame.len() > t.log.cfg.rx {
                    // the call during which the client read the frame's fixed header
                    let need = ip.start + hdr.min(j.frame.len());
                    let mut got = 0usize;
                    let mut at = None;
                    for (ev, e) in w.events.iter().enumerate() {
                        if let Ev::Io { conn: cc, kind: IoKind::Read, ans: IoAns::Bytes(n), .. } = e {
                            if *cc == conn {
                                got += n;
                                if got >= need {
                                    at = Some(ev);
                                    break;
                                }
                            }
                        }
                    }
                    at.and_then(|ev| t.op_at(ev)).map(|o| &t.log.ops[o])
                } else if c.in_read > ip.start && c.in_read < ip.start + j.frame.len() {
                    // a frame that fits the buffer, read in part, after which the client stopped
                    // reading: judged by the call that gave up on it with an error
                    let mut got = 0usize;
                    let mut at = None;
                    for (ev, e) in w.events.iter().enumerate() {
                        if let Ev::Io { conn: cc, kind: IoKind::Read, ans: IoAns::Bytes(n), .. } = e {
                            if *cc == conn {
                                got += n;
                                if got > ip.start {
                                    at = Some(ev);
                                    break;
                                }
                            }
                        }
                    }
                    at.and_then(|ev| t.log.ops.iter().find(|o| o.conn == Some(conn) && o.ev_ret >= ev && matches!(o.outcome, Outcome::Err(_))))
                } else {
                    None
                }
            }
        };
        let Some(op) = op else { break };
        out.key(format!("{}/{}", what, match &j.class { Class::MustAccept(p) => format!("accept/{}", p.type_name()), Class::MustReject(r) => format!("reject/{}", r), Class::DontCare(r) => format!("dontcare/{}", r) }));
        match &j.class {
            Class::DontCare(_) => {
                out.count("dontcare_frames", 1);
                let clean = matches!(op.outcome, Outcome::Ok(_) | Outcome::CallerTimeout | Outcome::Err(ErrRepr::InvalidPacket | ErrRepr::Disconnected | ErrRepr::Rejected(_) | ErrRepr::PacketTooLarge | ErrRepr::InflightExhausted));
                if !clean {
                    out.violations.push(viol("C08", "C08/dontcare/unclean-outcome", format!("{}: frame {:02x?} led to {:?}", what, &j.frame[..j.frame.len().min(24)], op.outcome)));
                }
                return; // nothing after an unspecified point is judged
            }
            Class::MustReject(rule) => {
                out.count("mustreject_frames", 1);
                if op.outcome != Outcome::Err(ErrRepr::InvalidPacket) {
                    out.violations.push(viol("C08", format!("C08/malformed-accepted/{}", rule.replace(' ', "-")), format!("{}: malformed frame ({}) {:02x?} was not rejected with InvalidPacket: {} returned {:?}", what, rule, &j.frame[..j.frame.len().min(24)], op.kind, op.outcome)));
                } else {
                    if op.live_after {
                        out.violations.push(viol("C08", "C08/malformed/handle-still-live", format!("{}: after rejecting {:02x?} the handle is still live", what, &j.frame[..j.frame.len().min(16)])));
                    }
                    // never partially acted upon
                    if let (Some(b), Some(a)) = (&op.snap_before, &op.snap_after) {
                        let ids = |s: &Snap| s.tx.retained.iter().map(|e| e.packet_id).collect::<Vec<_>>();
                        let rel = |s: &Snap| s.tx.release.iter().map(|e| e.packet_id).collect::<Vec<_>>();
                        // earlier frames consumed in the same call may legitimately have had effects
                        let earlier_in_same_op = i > 0 && c.in_pkts[base + i - 1].ev_consumed.is_some_and(|e| e > op.ev_call);
                        if !earlier_in_same_op && (ids(b) != ids(a) || rel(b) != rel(a) || b.pending_server_packet_ids != a.pending_server_packet_ids || a.tx.control.len() > b.tx.control.len()) {
                            out.violations.push(viol("C08", "C08/malformed/partially-acted-upon", format!("{}: rejecting {:02x?} changed session state (retained {:?}->{:?}, release {:?}->{:?}, inbound qos2 {:?}->{:?})", what, &j.frame[..j.frame.len().min(16)], ids(b), ids(a), rel(b), rel(a), b.pending_server_packet_ids.as_slice(), a.pending_server_packet_ids.as_slice())));
                        }
                    }
                    if msgs.len() > delivered_cursor && msgs[delivered_cursor..].iter().any(|m| t.log.ops[m.op].ev_call >= op.ev_call) {
                        out.violations.push(viol("C08", "C08/malformed/delivered", format!("{}: a message was delivered by the call that rejected {:02x?}", what, &j.frame[..j.frame.len().min(16)])));
                    }
                }
                return;
            }
            Class::MustAccept(p) => {
                out.count("mustaccept_frames", 1);
                if j.frame.len() == rx() {
                    out.count("exact_fit_mustaccept_frames", 1);
                }
                let ok = match (p, &op.outcome) {
                    (SPacket::Disconnect { .. }, Outcome::Err(ErrRepr::Disconnected)) => true,
                    (SPacket::Disconnect { .. }, o) => {
                        out.violations.push(viol("C08", "C08/valid-mishandled/DISCONNECT", format!("{}: broker DISCONNECT {:02x?} led to {:?}", what, &j.frame[..j.frame.len().min(16)], o)));
                        return;
                    }
                    (_, Outcome::Err(ErrRepr::Rejected(_))) => true,
                    (_, Outcome::Ok(_) | Outcome::CallerTimeout) => true,
                    (_, o) => {
                        out.violations.push(viol("C08", format!("C08/valid-rejected/{}", p.type_name()), format!("{}: spec-valid {} {:02x?} led to {:?} from {}", what, p.type_name(), &j.frame[..j.frame.len().min(32)], o, op.kind)));
                        return;
                    }
                };
                let _ = ok;
                if matches!(p, SPacket::Disconnect { .. }) {
                    return;
                }
                match p {
                    SPacket::Publish { qos, retain, topic, pid, props, payload, .. } => {
                        let dup2 = *qos == 2 && pid.is_some_and(|p| pending_qos2.contains(&p));
                        if *qos == 2 && !dup2 {
                            pending_qos2.push(pid.unwrap());
                        }
                        if !dup2 {
                            match msgs.get(delivered_cursor) {
                                Some(m) => {
                                    delivered_cursor += 1;
                                    let got: Result<Vec<_>, ()> = m.props.iter().cloned().collect();
                                    if m.topic != *topic || m.payload != *payload || m.qos != *qos || m.retain != *retain || got.as_ref() != Ok(props) {
                                        out.violations.push(viol("C08", "C08/valid-altered/PUBLISH", format!("{}: delivered message differs from the PUBLISH sent: topic {:?}/{:?} qos {}/{} retain {}/{} props {:?}/{:?} payload {}/{} bytes", what, m.topic, topic, m.qos, qos, m.retain, retain, m.props, props, m.payload.len(), payload.len())));
                                    } else {
                                        out.count("publishes_delivered_verbatim", 1);
                                    }
                                }
                                None => out.violations.push(viol("C08", "C08/valid-dropped/PUBLISH", format!("{}: spec-valid PUBLISH {:02x?} was consumed but not delivered", what, &j.frame[..j.frame.len().min(24)]))),
                            }
                        }
                    }
                    SPacket::PubRel { pid, .. } => pending_qos2.retain(|p| p != pid),
                    // acknowledgements: the matching in-flight handle completes, failure codes surface
                    SPacket::PubAck { pid, reason, .. } | SPacket::PubRec { pid, reason, .. } | SPacket::PubComp { pid, reason, .. } => {
                        let code = reason.unwrap_or(0);
                        let matches_inflight = match p {
                            SPacket::PubAck { .. } => *pid == 1 && op.snap_before.as_ref().is_some_and(|s| s.tx.retained.iter().any(|e| e.packet_id == 1)),
                            SPacket::PubRec { .. } => *pid == 2 && op.snap_before.as_ref().is_some_and(|s| s.tx.retained.iter().any(|e| e.packet_id == 2)),
                            _ => *pid == 2 && op.snap_before.as_ref().is_some_and(|s| s.tx.release.iter().any(|e| e.packet_id == 2)),
                        };
                        let single = c.in_pkts.iter().filter(|q| q.ev_consumed.is_some_and(|e| e > op.ev_call && e < op.ev_ret)).count() == 1;
                        if matches_inflight && single {
                            out.count("acks_matching_inflight", 1);
                            if code >= 0x80 && op.outcome != Outcome::Err(ErrRepr::Rejected(code)) {
                                out.violations.push(viol("C08", format!("C08/valid-altered/{}", p.type_name()), format!("{}: {} with reason {:#x} consumed, call returned {:?}", what, p.type_name(), code, op.outcome)));
                            }
                            if code < 0x80 && matches!(op.outcome, Outcome::Err(_)) {
                                out.violations.push(viol("C08", format!("C08/valid-altered/{}", p.type_name()), format!("{}: successful {} consumed, call returned {:?}", what, p.type_name(), op.outcome)));
                            }
                            let still = op.snap_after.as_ref().is_some_and(|s| match p {
                                SPacket::PubComp { .. } => s.tx.release.iter().any(|e| e.packet_id == *pid),
                                _ => s.tx.retained.iter().any(|e| e.packet_id == *pid),
                            });
                            if still {
                                out.violations.push(viol("C08", format!("C08/valid-ignored/{}", p.type_name()), format!("{}: {} for the in-flight id {} did not end the operation", what, p.type_name(), pid)));
                            }
                        }
                    }
                    SPacket::SubAck { pid, codes, .. } | SPacket::UnsubAck { pid, codes, .. } => {
                        let want = if matches!(p, SPacket::SubAck { .. }) { 3 } else { 4 };
                        let inflight = *pid == want && op.snap_before.as_ref().is_some_and(|s| s.tx.retained.iter().any(|e| e.packet_id == want));
                        let single = c.in_pkts.iter().filter(|q| q.ev_consumed.is_some_and(|e| e > op.ev_call && e < op.ev_ret)).count() == 1;
                        if inflight && single {
                            out.count("acks_matching_inflight", 1);
                            let first_fail = codes.iter().copied().find(|c| *c >= 0x80);
                            match (first_fail, &op.outcome) {
                                (Some(cd), Outcome::Err(ErrRepr::Rejected(x))) if *x == cd => {}
                                (None, Outcome::Ok(_)) => {}
                                (f, o) => out.violations.push(viol("C08", format!("C08/valid-altered/{}", p.type_name()), format!("{}: {} codes {:02x?} (first failure {:?}) consumed, call returned {:?}", what, p.type_name(), codes, f, o))),
                            }
                            if op.snap_after.as_ref().is_some_and(|s| s.tx.retained.iter().any(|e| e.packet_id == want)) {
                                out.violations.push(viol("C08", format!("C08/valid-ignored/{}", p.type_name()), format!("{}: {} for the in-flight id {} did not end the operation", what, p.type_name(), pid)));
                            }
                        }
                    }
                    _ => {}
                }
            }
        }
    }
    // a malformed header after the framed part must be rejected once the client has read it
    if let Some(why) = bad_tail {
        let Some(ip) = c.in_pkts.get(base + frames.len()) else { return };
        let need = tail_len.min(5);
        if c.in_read >= ip.start + need {
            out.count("bad_headers", 1);
            out.key(format!("{}/reject/{}", what, why));
            let rejected = t.log.ops.iter().any(|o| o.conn == Some(conn) && o.outcome == Outcome::Err(ErrRepr::InvalidPacket));
            if !rejected {
                out.violations.push(viol("C08", format!("C08/malformed-accepted/{}", why.replace(' ', "-")), format!("{}: stream with {} was fully read but no call returned InvalidPacket", what, why)));
            }
        }
    }
}

/// Run: connect, optional in-flight context, inject `stream` (frame by frame so consumption is
/// tracked per frame), poll until the client stops making progress.
fn run_post(stream: &[u8], seed: u64, chunk: Chunk, with_ctx: bool) -> (RunLog, Shared, Vec<Vec<u8>>, Vec<u8>, Option<&'static str>) {
    let cfg = CaseCfg { rx: rx(), tx: 512, keepalive: 0, ..CaseCfg::default() };
    let (frames, tail, bad) = split_frames(stream);
    let mut steps = vec![Step::Connect(ConnectSpec {
        policy: IoPolicy { read: chunk, ..IoPolicy::default() },
        faults: vec![],
        connack: ConnackSpec::ok(SpMode::Force(false)),
        broker: BrokerPolicy { acks: AckMode::Never, ping: AckMode::Never, fail_pct: 0, longform_pct: 0 },
        cancel_at: None,
    })];
    if with_ctx {
        steps.extend(ctx_steps());
    }
    let stall = STALL_CELL.with(|c| c.get());
    if let Some((after, blocks)) = stall {
        steps.push(Step::Broker(BrokerAct::Gate { after, blocks }));
    }
    for f in &frames {
        steps.push(Step::Broker(BrokerAct::SendRaw(f.clone())));
    }
    if !tail.is_empty() {
        steps.push(Step::Broker(BrokerAct::SendRaw(tail.clone())));
    }
    for _ in 0..frames.len() + 3 + stall.map_or(0, |s| s.1 as usize) {
        steps.push(poll0());
    }
    let (log, world) = run_script(&cfg, steps, seed);
    (log, world, frames, tail, bad)
}

fn run_pre(stream: &[u8], seed: u64, chunk: Chunk) -> (RunLog, Shared) {
    let cfg = CaseCfg { rx: rx(), tx: 512, keepalive: 0, ..CaseCfg::default() };
    let steps = vec![
        Step::Connect(ConnectSpec { policy: IoPolicy { read: chunk, ..IoPolicy::default() }, faults: vec![], connack: ConnackSpec::Raw(stream.to_vec()), broker: BrokerPolicy::default(), cancel_at: None }),
        poll0(),
        poll0(),
        // a later connection shows whether a refused CONNACK left anything behind
        Step::DropConn,
        Step::Connect(ConnectSpec::default()),
    ];
    run_script(&cfg, steps, seed)
}

/// Oracle for a byte string that arrives instead of / as the CONNACK.
fn judge_pre(t: &Trace<'_>, stream: &[u8], out: &mut CaseOut) {
    let op = &t.log.ops[0];
    // never partially acted upon: after a refused handshake the next CONNECT is the configured one
    if !matches!(op.outcome, Outcome::Ok(_)) {
        if let Some(CPacket::Connect { client_id, clean_start, keepalive, .. }) = t.w.conns.get(1).and_then(|c| c.out.packets.first()).map(|p| &p.pkt) {
            out.count("connects_after_refused_handshake", 1);
            if *client_id != t.log.cfg.client_id || !*clean_start || *keepalive != t.log.cfg.keepalive {
                out.violations.push(viol("C08", "C08/refused-connack-partially-acted-upon", format!("the handshake answered with {:02x?} failed with {:?}, but the next CONNECT carries client id {:?} (configured {:?}), clean start {}, keep-alive {}", &stream[..stream.len().min(24)], op.outcome, client_id, t.log.cfg.client_id, clean_start, keepalive)));
            }
        }
    }
    let (frames, tail, bad) = split_frames(stream);
    let first = frames.first();
    match first {
        None => {
            if let Some(why) = bad {
                if t.w.conns[0].in_read >= tail.len().min(5) && tail.len() >= 2 {
                    out.count("bad_headers", 1);
                    out.key(format!("pre/reject/{}", why));
                    if op.outcome != Outcome::Err(ErrRepr::InvalidPacket) {
                        out.violations.push(viol("C08", format!("C08/malformed-accepted/{}", why.replace(' ', "-")), format!("pre-CONNACK stream {:02x?}: connect returned {:?}", &stream[..stream.len().min(16)], op.outcome)));
                    }
                }
            } else if matches!(op.outcome, Outcome::Ok(_)) {
                out.violations.push(viol("C08", "C08/connect-succeeded-without-CONNACK", format!("incomplete stream {:02x?}: connect returned {:?}", &stream[..stream.len().min(16)], op.outcome)));
            }
        }
        Some(f) => {
            let class = match rc::classify_server(f, t.log.cfg.rx) {
                // session present in answer to a clean-start CONNECT is a protocol error by the broker
                Class::MustAccept(SPacket::ConnAck { sp: true, .. }) => Class::DontCare("session present for a clean start"),
                c => c,
            };
            out.key(format!("pre/{}", match &class { Class::MustAccept(p) => format!("accept/{}", p.type_name()), Class::MustReject(r) => format!("reject/{}", r), Class::DontCare(r) => format!("dontcare/{}", r) }));
            match class {
                Class::DontCare(_) => {
                    out.count("dontcare_frames", 1);
                }
                Class::MustReject(rule) => {
                    out.count("mustreject_frames", 1);
                    if op.outcome != Outcome::Err(ErrRepr::InvalidPacket) {
                        out.violations.push(viol("C08", format!("C08/malformed-accepted/{}", rule.replace(' ', "-")), format!("as CONNACK: malformed frame ({}) {:02x?}: connect returned {:?}", rule, &f[..f.len().min(24)], op.outcome)));
                    }
                }
                Class::MustAccept(p) => {
                    out.count("mustaccept_frames", 1);
                    if f.len() == rx() {
                        out.count("exact_fit_mustaccept_frames", 1);
                    }
                    match (&p, &op.outcome) {
                        (SPacket::ConnAck { reason: 0, sp, props }, Outcome::Ok(k)) => {
                            let want = if *sp { OkKind::Reconnected } else { OkKind::Connected };
                            if *k != want {
                                out.violations.push(viol("C08", "C08/valid-altered/CONNACK", format!("CONNACK sp={} but connect yielded {:?}", sp, k)));
                            }
                            // negotiated limits are visible
                            if let Some(s) = &op.snap_after {
                                for pr in props {
                                    let okv = match pr {
                                        Prop::ReceiveMaximum(v) => s.max_send_quota == (*v).min(8),
                                        Prop::MaximumPacketSize(v) => s.maximum_packet_size == Some(*v),
                                        Prop::MaximumQoS(v) => s.max_qos == Some(*v),
                                        Prop::ServerKeepAlive(v) => s.keepalive_ms == *v as u64 * 1000,
                                        _ => true,
                                    };
                                    if !okv {
                                        out.violations.push(viol("C08", "C08/valid-altered/CONNACK", format!("CONNACK property {:?} not reflected in the session (quota {}, mps {:?}, maxqos {:?}, keepalive {} ms)", pr, s.max_send_quota, s.maximum_packet_size, s.max_qos, s.keepalive_ms)));
                                    }
                                }
                                out.count("connacks_accepted_verbatim", 1);
                            }
                        }
                        (SPacket::ConnAck { reason, .. }, Outcome::Err(ErrRepr::Rejected(c))) if *reason >= 0x80 && c == reason => {}
                        (SPacket::ConnAck { props, .. }, Outcome::Err(ErrRepr::InvalidPacket)) if props.iter().any(|p| matches!(p, Prop::AssignedClientId(s) if s.len() > 64)) => {
                            out.count("assigned_id_beyond_fixed_capacity", 1);
                        }
                        (SPacket::ConnAck { .. }, o) => out.violations.push(viol("C08", "C08/valid-rejected/CONNACK", format!("spec-valid CONNACK {:02x?}: connect returned {:?}", &f[..f.len().min(32)], o))),
                        (SPacket::Disconnect { .. }, Outcome::Err(ErrRepr::Disconnected)) => {}
                        (_, Outcome::Err(ErrRepr::InvalidPacket | ErrRepr::Disconnected)) => {}
                        (p, o) => out.violations.push(viol("C08", "C08/non-connack-accepted", format!("{} instead of CONNACK: connect returned {:?}", p.type_name(), o))),
                    }
                }
            }
        }
    }
}

impl Check for C08 {
    fn id(&self) -> &'static str {
        "C08"
    }
    fn level(&self) -> &'static str {
        "exploration"
    }
    fn rule(&self) -> String {
        "inbound byte strings are fed to the real client (a) right after CONNACK, with a QoS 1 publish, a QoS 2 publish, a SUBSCRIBE and an UNSUBSCRIBE in flight, and (b) in place of the CONNACK; an independent three-valued classifier (MustAccept with fields / MustReject with the rule / DontCare) judges every frame: MustAccept => no error and the fields observable unchanged (delivery, handle completion, Rejected(code), negotiated limits), MustReject => Peer(InvalidPacket), handle dead, no partial effect, DontCare => clean outcome only; panics (index, overflow, unwrap, debug_assert) anywhere are violations. Inputs: EXHAUSTIVE all byte strings of length <= 2 (quick) / <= 3 (thorough) in both contexts and all 256 first bytes x 9 remaining-length encodings; GENERATIVE valid packets of all ten server types with random legal property sets and boundary sizes, then 13 mutation operators; random read chunkings; one generated stream in three stalls at a random offset (inside a header, a length, a body, between two packets), the poll() waiting there is given up once or twice and later calls carry on; PUBLISH packets with remaining length 127/128/16383/16384/2097151/2097152 in a buffer they fit exactly, amply, or miss by one byte; torn-packet-then-reconnect: k bytes of a valid packet (or of the CONNACK; one case in three a PUBLISH with a Remaining Length of two or three bytes, half of those cut inside the length field) read, connection dropped / forgotten / connect() given up, same Session connected again, the new CONNACK and the next frame judged. acknowledgements-of-any-kind-on-a-saturated-session: eight QoS 2 exchanges waiting for PUBCOMP plus unanswered requests in the freed slots, then well-formed acknowledgements of every kind for identifiers of every kind: no panic, no runaway call, the session reconnects. A frame that fits the buffer but which the client gave up on after reading part of it is judged by the call that gave up. Non-trivial iff a frame was classified MustAccept with >=1 property or MustReject; distinct = (context, class, rule/type) x abstract trace.".into()
    }
    fn assumptions(&self) -> Vec<String> {
        vec![
            "refcodec's server-packet classifier implements the MQTT 5.0 rules the property enumerates; everything else is DontCare on purpose (malformed content of a lazily decoded property block, id 0, DUP on QoS 0, empty SUBACK, unknown reason codes, U+0000, second CONNACK, assigned client id beyond the documented 64-byte capacity)".into(),
            "a Miri shard of the generative workload is part of the thorough tier (UB inside dependencies)".into(),
        ]
    }
    fn workloads(&self) -> Vec<Workload> {
        vec![
            Workload { name: "exhaustive-short-post", quick: 66, thorough: 66 + 65536 / 16 },
            Workload { name: "exhaustive-short-pre", quick: 66, thorough: 66 + 65536 / 16 },
            Workload { name: "fixed-header-forms", quick: 256, thorough: 256 },
            Workload { name: "generative-post", quick: 6000, thorough: 600_000 },
            Workload { name: "generative-pre", quick: 2000, thorough: 200_000 },
            Workload { name: "remaining-length-classes", quick: 36, thorough: 36 },
            Workload { name: "torn-packet-then-reconnect", quick: 1500, thorough: 150_000 },
            Workload { name: "acknowledgements-of-any-kind-on-a-saturated-session", quick: 1500, thorough: 150_000 },
        ]
    }
    fn min_nontrivial(&self, tier: Tier) -> usize {
        if tier == Tier::Quick { 500 } else { 5000 }
    }
    fn required_counters(&self) -> Vec<&'static str> {
        vec!["mustaccept_frames", "mustreject_frames", "bad_headers", "publishes_delivered_verbatim", "acks_matching_inflight", "connacks_accepted_verbatim", "exhaustive_inputs", "exact_fit_mustaccept_frames", "connects_after_refused_handshake", "length_class_boundary_frames", "reconnects_after_a_torn_packet", "connections_ended_inside_a_multi_byte_remaining_length", "saturated_sessions_fed_acknowledgements_of_any_kind"]
    }
    fn exhaustive(&self) -> bool {
        true
    }
    fn run(&self, workload: usize, seed: u64, index: u64, _tier: Tier, verbose: bool) -> CaseOut {
        let mut out = CaseOut::default();
        let mut rng = Rng::new(seed);
        RX_CELL.with(|c| c.set(RX_DEFAULT));
        STALL_CELL.with(|c| c.set(None));
        let mut one_post = |stream: &[u8], chunk: Chunk, with_ctx: bool, out: &mut CaseOut, label: &str| {
            let (log, world, frames, tail, bad) = run_post(stream, seed, chunk, with_ctx);
            let w = world.borrow();
            let t = Trace::new(&log, &w);
            let judged: Vec<Judged> = frames
                .iter()
                .map(|f| {
                    let class = match rc::classify_server(f, rx()) {
                        // a second CONNACK is a protocol error by the broker: not enumerated either way
                        Class::MustAccept(SPacket::ConnAck { .. }) => Class::DontCare("CONNACK after the handshake"),
                        c => c,
                    };
                    Judged { class, frame: f.clone() }
                })
                .collect();
            let before = out.violations.len();
            judge(&t, 0, &judged, bad, tail.len(), out, label);
            out.evaluations += 1;
            let nt = judged.iter().any(|j| matches!(&j.class, Class::MustReject(_)) || matches!(&j.class, Class::MustAccept(SPacket::Publish { props, .. }) if !props.is_empty()) || matches!(&j.class, Class::MustAccept(SPacket::ConnAck { props, .. }) if !props.is_empty())) || bad.is_some();
            if nt {
                out.nontrivial.push(hash_of(&(abstract_trace(&log, &w), judged.iter().map(|j| format!("{:?}", std::mem::discriminant(&j.class))).collect::<Vec<_>>(), stream.len().min(8), stream.first().copied())));
                if out.sample.is_none() {
                    out.sample = Some(serde_json::json!({"context": label, "stream_hex": stream.iter().take(64).map(|b| format!("{:02x}", b)).collect::<String>(), "classes": judged.iter().map(|j| format!("{:?}", j.class)).map(|s| trunc(&s, 100)).collect::<Vec<_>>(), "ops": log.ops.iter().map(|o| format!("{}->{:?}", o.kind, o.outcome)).collect::<Vec<_>>()}));
                }
            }
            if verbose && out.violations.len() > before {
                for l in render(&log, &w, 400) {
                    println!("{}", l);
                }
            }
        };
        let mut one_pre = |stream: &[u8], chunk: Chunk, out: &mut CaseOut| {
            let (log, world) = run_pre(stream, seed, chunk);
            let w = world.borrow();
            let t = Trace::new(&log, &w);
            let before = out.violations.len();
            judge_pre(&t, stream, out);
            out.evaluations += 1;
            let class = match rc::frame_server(stream) {
                Framing::Frame(n) => Some(rc::classify_server(&stream[..n], rx())),
                _ => None,
            };
            if matches!(class, Some(Class::MustReject(_))) || matches!(&class, Some(Class::MustAccept(SPacket::ConnAck { props, .. })) if !props.is_empty()) {
                out.nontrivial.push(hash_of(&(abstract_trace(&log, &w), format!("{:?}", class.as_ref().map(std::mem::discriminant)), stream.len().min(8), stream.first().copied())));
            }
            if verbose && out.violations.len() > before {
                for l in render(&log, &w, 400) {
                    println!("{}", l);
                }
            }
        };
        match workload {
            0 | 1 => {
                // exhaustive short strings: index 0 = all 1-byte strings and the empty string,
                // 1..=64 = 2-byte strings (1024 per case), beyond = 3-byte strings (4096 first-two-byte prefixes per case)
                let post = workload == 0;
                let mut feed = |s: &[u8], out: &mut CaseOut| {
                    out.count("exhaustive_inputs", 1);
                    if post {
                        one_post(s, Chunk::All, false, out, "post");
                    } else {
                        one_pre(s, Chunk::All, out);
                    }
                };
                if index == 0 {
                    feed(&[], &mut out);
                    for a in 0..=255u8 {
                        feed(&[a], &mut out);
                    }
                } else if index <= 64 {
                    let lo = (index - 1) * 1024;
                    for v in lo..lo + 1024 {
                        feed(&[(v >> 8) as u8, v as u8], &mut out);
                    }
                } else if index == 65 {
                    // (reserved so that the quick plan has a stable size)
                } else {
                    let lo = (index - 66) * 16;
                    for p in lo..lo + 16 {
                        for c in 0..=255u8 {
                            feed(&[(p >> 8) as u8, p as u8, c], &mut out);
                        }
                    }
                }
            }
            2 => {
                // every first byte x every remaining-length encoding class, body of matching size
                let b0 = index as u8;
                let forms: [(&[u8], usize); 9] = [(&[0x00], 0), (&[0x01], 1), (&[0x02], 2), (&[0x7f], 127), (&[0x80, 0x01], 128), (&[0x80, 0x00], 0), (&[0x83, 0x80, 0x00], 0), (&[0xff, 0xff, 0xff, 0x7f], 0), (&[0xff, 0xff, 0xff, 0xff, 0x01], 0)];
                for (enc, body) in forms {
                    let mut s = vec![b0];
                    s.extend_from_slice(enc);
                    s.extend((0..body).map(|_| rng.next() as u8));
                    out.count("exhaustive_inputs", 1);
                    one_post(&s, Chunk::All, true, &mut out, "post");
                    one_pre(&s, Chunk::All, &mut out);
                }
            }
            7 => {
                // every table of the client is as full as it gets - eight QoS 2 exchanges waiting for
                // PUBCOMP, SUBSCRIBE / UNSUBSCRIBE / QoS 1 publishes unanswered in the slots that
                // freed - and the broker sends well-formed acknowledgements of every kind for
                // identifiers of every kind (its own mix-up, or another client's traffic): whatever
                // the client makes of them, it does not panic, and the session can be used on
                RX_CELL.with(|c| c.set(128));
                let cfg = CaseCfg { rx: rx(), tx: 2048, keepalive: 0, ..CaseCfg::default() };
                let mut steps = vec![Step::Connect(ConnectSpec { policy: IoPolicy::default(), faults: vec![], connack: ConnackSpec::ok(SpMode::Force(false)), broker: BrokerPolicy { acks: AckMode::Never, ping: AckMode::Never, fail_pct: 0, longform_pct: 0 }, cancel_at: None })];
                let n2 = *rng.pick(&[8usize, 8, 7, 6]);
                for k in 0..n2 {
                    steps.push(crate::checks::pubq(2, "sat", k as u32, 1));
                }
                for k in 0..n2 {
                    steps.push(Step::Broker(BrokerAct::Send(SPacket::PubRec { pid: 1 + k as u16, reason: None, props: None })));
                    steps.push(poll0());
                    steps.push(poll0());
                }
                for k in 0..rng.range(1, 4) {
                    steps.push(match rng.below(3) {
                        0 => Step::Subscribe(SubSpec { filters: vec![FilterSpec { filter: "sat/#".into(), max_qos: 1, no_local: false, rap: false, rh: 0 }], props: vec![], cancel_at: None }),
                        1 => Step::Unsubscribe(UnsubSpec { filters: vec!["sat".into()], props: vec![], cancel_at: None }),
                        _ => crate::checks::pubq(1, "sat1", 20 + k as u32, 1),
                    });
                }
                for _ in 0..rng.range(1, 4) {
                    let pid = 1 + rng.below(14) as u16;
                    let reason = *rng.pick(&[None, Some(0u8), Some(0x10), Some(0x80), Some(0x92)]);
                    let pk = match rng.below(5) {
                        0 => SPacket::PubAck { pid, reason, props: None },
                        1 | 2 => SPacket::PubRec { pid, reason, props: None },
                        3 => SPacket::PubComp { pid, reason, props: None },
                        _ => if rng.chance(1, 2) { SPacket::SubAck { pid, props: vec![], codes: vec![reason.unwrap_or(0)] } } else { SPacket::UnsubAck { pid, props: vec![], codes: vec![reason.unwrap_or(0)] } },
                    };
                    steps.push(Step::Broker(BrokerAct::Send(pk)));
                    steps.push(poll0());
                    steps.push(poll0());
                }
                steps.push(crate::checks::pubq(1, "sat/after", 99, 1));
                steps.push(poll0());
                steps.push(Step::DropConn);
                steps.push(Step::Connect(ConnectSpec { policy: IoPolicy::default(), faults: vec![], connack: ConnackSpec::ok(SpMode::Honest), broker: BrokerPolicy::default(), cancel_at: None }));
                for _ in 0..6 {
                    steps.push(poll0());
                }
                let (log, world) = run_script(&cfg, steps, seed);
                let w = world.borrow();
                out.evaluations += 1;
                out.count("saturated_sessions_fed_acknowledgements_of_any_kind", 1);
                out.nontrivial.push(hash_of(&abstract_trace(&log, &w)));
                // (a panic is caught and reported by the runner; a call that never comes back by the
                // transport's budget)
                if w.watchdog_tripped {
                    out.violations.push(viol("C08", "C08/saturated-session/call-exceeded-its-budget", "a call on a saturated session that was fed acknowledgements of every kind exceeded the transport's per-call budget".to_string()));
                }
            }
            6 => {
                // a connection ends silently (handle dropped, or connect() given up) when only the
                // first k bytes of a valid packet have been read; the same Session is connected
                // again: the new CONNACK and the packets after it are judged like any others
                RX_CELL.with(|c| c.set(*rng.pick(&[96usize, 128, 200])));
                let pre = rng.chance(1, 3);
                let mut torn = rc::encode_server(&rand_valid(&mut rng, !pre));
                if torn.len() < 2 {
                    return out;
                }
                let mut k = 1 + rng.below(torn.len() - 1);
                // one case in three: the torn packet is long enough for a Remaining Length of two or
                // three bytes, and half of those are cut inside that length field
                if !pre && rng.chance(1, 3) {
                    let three = rng.chance(1, 3);
                    RX_CELL.with(|c| c.set(if three { 20_000 } else { *rng.pick(&[300usize, 400, 16_390]) }));
                    let plen = if three { rng.range(16_390, 17_000) } else { rng.range(126, 260) };
                    let qos = rng.below(3) as u8;
                    torn = rc::encode_server(&SPacket::Publish { dup: false, qos, retain: false, topic: "long".into(), pid: if qos > 0 { Some(*rng.pick(&[1u16, 300, 65535])) } else { None }, props: vec![], payload: (0..plen).map(|i| (i * 5 + 1) as u8).collect() });
                    let nlen = if torn.len() > 16_386 { 3 } else if torn.len() > 129 { 2 } else { 1 };
                    k = if rng.chance(1, 2) && nlen > 1 { 2 + rng.below(nlen - 1) } else { 1 + rng.below(torn.len() - 1) };
                    if nlen > 1 && k >= 2 && k <= nlen {
                        out.count("connections_ended_inside_a_multi_byte_remaining_length", 1);
                    }
                }
                let chunk = *rng.pick(&[Chunk::All, Chunk::One, Chunk::Rand, Chunk::Fixed(2)]);
                let cfg = CaseCfg { rx: rx(), tx: 512, keepalive: 0, ..CaseCfg::default() };
                let mut steps = vec![];
                // one case in four: nothing is torn; the earlier connection completed its handshake
                // under a CONNACK full of restrictions (tiny Maximum Packet Size, Maximum QoS,
                // Receive Maximum 1, Server Keep Alive), none of which the next CONNACK repeats:
                // what arrives on the next connection is judged by that connection's CONNACK alone
                let limits_before = !pre && rng.chance(1, 4);
                let mut lower_window = false;
                if limits_before {
                    let mut props = vec![Prop::MaximumPacketSize(*rng.pick(&[1u32, 2, 3, 4, 8, 20])), Prop::MaximumQoS(*rng.pick(&[0u8, 1])), Prop::ReceiveMaximum(1), Prop::ServerKeepAlive(*rng.pick(&[0u16, 1, 600]))];
                    rng.shuffle(&mut props);
                    props.truncate(1 + rng.below(4));
                    steps.push(Step::Connect(ConnectSpec { policy: IoPolicy::default(), faults: vec![], connack: ConnackSpec::Normal { sp: SpMode::Force(false), reason: 0, props }, broker: BrokerPolicy { acks: AckMode::Never, ping: AckMode::Immediate, fail_pct: 0, longform_pct: 0 }, cancel_at: None }));
                    // (half of the time that connection was generous instead and leaves a few
                    // publishes in flight, more than the next CONNACK's Receive Maximum)
                    if rng.chance(1, 2) {
                        if let Some(Step::Connect(c)) = steps.last_mut() {
                            c.connack = ConnackSpec::Normal { sp: SpMode::Force(false), reason: 0, props: vec![] };
                        }
                        for k in 0..2 + rng.below(4) {
                            steps.push(crate::checks::pubq(1 + rng.below(2) as u8, "inflight", k as u32, 2));
                        }
                        lower_window = true;
                    }
                    steps.push(if rng.chance(1, 4) { Step::ForgetConn } else { Step::DropConn });
                    out.count("reconnects_after_a_connection_with_restrictive_limits", 1);
                } else if pre {
                    // the CONNACK itself is torn: connect() waits for the rest and is given up
                    steps.push(Step::Connect(ConnectSpec { policy: IoPolicy { read: chunk, ..IoPolicy::default() }, faults: vec![], connack: ConnackSpec::Raw(torn[..k].to_vec()), broker: BrokerPolicy::default(), cancel_at: None }));
                } else {
                    steps.push(Step::Connect(ConnectSpec { policy: IoPolicy { read: chunk, ..IoPolicy::default() }, faults: vec![], connack: ConnackSpec::ok(SpMode::Force(false)), broker: BrokerPolicy { acks: AckMode::Never, ping: AckMode::Never, fail_pct: 0, longform_pct: 0 }, cancel_at: None }));
                    steps.push(Step::Broker(BrokerAct::SendRaw(torn[..k].to_vec())));
                    steps.push(poll0());
                    steps.push(if rng.chance(1, 4) { Step::ForgetConn } else { Step::DropConn });
                }
                let next = if limits_before && rng.chance(2, 3) {
                    let q = 1 + rng.below(2) as u8;
                    rc::encode_server(&match rng.below(3) {
                        0 => SPacket::PubRel { pid: *rng.pick(&[1u16, 9, 65535]), reason: None, props: None },
                        _ => SPacket::Publish { dup: false, qos: q, retain: false, topic: "lim".into(), pid: Some(*rng.pick(&[1u16, 9, 65535])), props: vec![], payload: vec![1, 2, 3] },
                    })
                } else {
                    rc::encode_server(&rand_valid(&mut rng, true))
                };
                let second_at = steps.len();
                let second_connack = if lower_window { ConnackSpec::Normal { sp: SpMode::Honest, reason: 0, props: vec![Prop::ReceiveMaximum(1)] } } else { ConnackSpec::ok(SpMode::Honest) };
                steps.push(Step::Connect(ConnectSpec { policy: IoPolicy { read: chunk, ..IoPolicy::default() }, faults: vec![], connack: second_connack, broker: BrokerPolicy { acks: AckMode::Never, ping: AckMode::Never, fail_pct: 0, longform_pct: 0 }, cancel_at: None }));
                steps.push(Step::Broker(BrokerAct::SendRaw(next.clone())));
                for _ in 0..3 {
                    steps.push(poll0());
                }
                let (log, world) = run_script(&cfg, steps, seed);
                let w = world.borrow();
                let t = Trace::new(&log, &w);
                out.evaluations += 1;
                let before = out.violations.len();
                let first_torn = log.ops.iter().find(|o| o.step < second_at && o.kind == "connect").map(|o| o.outcome.clone());
                let torn_read = w.conns.first().is_some_and(|c| c.in_read > 0 && (pre || c.in_read > c.in_pkts.first().map(|p| p.raw_len).unwrap_or(0)));
                if let Some(op) = log.ops.iter().find(|o| o.step == second_at) {
                    if torn_read {
                        out.count("reconnects_after_a_torn_packet", 1);
                        out.key(format!("torn/{}/{:02x}", if pre { "connack" } else { "post" }, torn[0] >> 4));
                        out.nontrivial.push(hash_of(&(pre, torn[0], k.min(6), next[0], format!("{:?}", chunk))));
                    }
                    if !matches!(op.outcome, Outcome::Ok(_)) {
                        out.violations.push(viol("C08", "C08/valid-rejected/CONNACK-after-torn-packet", format!("{} bytes of a valid {} were read before the connection ended silently (first connect: {:?}); the next connect() over a healthy transport answered by a plain CONNACK returned {:?}", k, if pre { "CONNACK" } else { "packet" }, first_torn, op.outcome)));
                    } else {
                        let ci = w.conns.len() - 1;
                        let judged = vec![Judged { class: match rc::classify_server(&next, rx()) { Class::MustAccept(SPacket::ConnAck { .. }) => Class::DontCare("CONNACK after the handshake"), c => c }, frame: next.clone() }];
                        judge(&t, ci, &judged, None, 0, &mut out, "after-torn");
                    }
                }
                if verbose && out.violations.len() > before {
                    for l in render(&log, &w, 400) {
                        println!("{}", l);
                    }
                }
            }
            5 => {
                // a PUBLISH whose remaining length sits on either side of each length-class boundary
                // (one, two, three and four length bytes), in a receive buffer that it fits
                // exactly, amply, or misses by one byte
                let ls = [127usize, 128, 16_383, 16_384, 2_097_151, 2_097_152];
                let l = ls[(index % 6) as usize];
                let fit = (index / 6) % 3;
                let qos = ((index / 18) % 2) as u8;
                let head = 2 + 1 + if qos > 0 { 2 } else { 0 } + 1;
                let p = SPacket::Publish { dup: false, qos, retain: false, topic: "t".into(), pid: if qos > 0 { Some(9) } else { None }, props: vec![], payload: (0..l - head).map(|i| (i * 7 + 3) as u8).collect() };
                let bytes = rc::encode_server(&p);
                let nlen = bytes.len() - 1 - l;
                out.key(format!("remaining-length/{}-byte-form/{}", nlen, ["exact-fit", "ample", "one-short"][fit as usize]));
                RX_CELL.with(|c| c.set(match fit { 0 => bytes.len(), 1 => bytes.len() + 100, _ => bytes.len() - 1 }));
                out.count("length_class_boundary_frames", 1);
                for chunk in [Chunk::All, Chunk::Fixed(if l > 100_000 { 50_000 } else { 100 })] {
                    one_post(&bytes, chunk, false, &mut out, "post");
                }
            }
            3 => {
                RX_CELL.with(|c| c.set(if rng.chance(1, 24) && !cfg!(miri) { *rng.pick(&[65535usize, 65536, 70_000, 140_000]) } else { *rng.pick(&[64usize, 96, 96, 127, 128, 129, 200]) }));
                let n = rng.range(1, 3);
                let mut stream = Vec::new();
                for _ in 0..n {
                    let p = rand_valid(&mut rng, true);
                    let bytes = rc::encode_server(&p);
                    if rng.chance(1, 2) {
                        let m = *rng.pick(&MUTATORS);
                        out.key(format!("mutator/{}", m));
                        stream.extend(mutate(&mut rng, &bytes, m));
                    } else {
                        stream.extend(bytes);
                    }
                }
                let chunk = *rng.pick(&[Chunk::All, Chunk::One, Chunk::Rand, Chunk::Fixed(2), Chunk::AltOneAll]);
                // one case in three: the stream stalls somewhere (inside a header, a length, a
                // body, or exactly between two packets); the poll() waiting there is given up and
                // the next one carries on with what arrives later
                if rng.chance(1, 3) && stream.len() > 1 {
                    STALL_CELL.with(|c| c.set(Some((1 + rng.below(stream.len() - 1), 1 + rng.below(2) as u8))));
                    out.count("streams_stalled_mid_way_and_resumed_by_a_later_poll", 1);
                }
                one_post(&stream, chunk, true, &mut out, "post");
                STALL_CELL.with(|c| c.set(None));
            }
            _ => {
                RX_CELL.with(|c| c.set(if rng.chance(1, 24) && !cfg!(miri) { *rng.pick(&[65535usize, 65536, 70_000, 140_000]) } else { *rng.pick(&[64usize, 96, 96, 127, 128, 129, 200]) }));
                let p = rand_valid(&mut rng, false);
                let mut bytes = rc::encode_server(&p);
                if let SPacket::ConnAck { .. } = p {
                    if rng.chance(1, 6) {
                        bytes[2] = 1; // session present (a resumed answer to a clean start is DontCare)
                    } else if rng.chance(1, 6) && bytes[1] < 0x80 {
                        // reserved bits of the acknowledge flags
                        bytes[2] = *rng.pick(&[2u8, 3, 4, 0x10, 0x80, 0x81, 0xFE, 0xFF]);
                        out.key("mutator/connack-reserved-flags".to_string());
                    }
                }
                if rng.chance(1, 2) {
                    let m = *rng.pick(&MUTATORS);
                    out.key(format!("mutator/{}", m));
                    bytes = mutate(&mut rng, &bytes, m);
                }
                let chunk = *rng.pick(&[Chunk::All, Chunk::One, Chunk::Rand, Chunk::Fixed(2)]);
                one_pre(&bytes, chunk, &mut out);
            }
        }
        out
    }
}
