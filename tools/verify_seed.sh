#!/bin/sh
# usage: tools/verify_seed.sh <worktree> <name> <property> "<needs>"
# Confirms in the scratch worktree that (1) the existing suite passes with the change, (2) the
# demonstration fails with it and (3) passes without it; then stores the change under /verif/seeded/<name>/.
set -u
WT="$1"; NAME="$2"; PROP="$3"; NEEDS="$4"
cd "$WT" || exit 2
export CARGO_NET_OFFLINE=true
git diff -- src Cargo.toml > /tmp/seed.$NAME.diff
[ -s /tmp/seed.$NAME.diff ] || { echo "no src change in $WT"; exit 2; }
# 1: existing suite with the change (the demonstration is a separate test target)
cargo test --offline --no-fail-fast --lib --test async_client --test real_broker > /tmp/seed.$NAME.with.log 2>&1
cargo test --offline --no-fail-fast --doc >> /tmp/seed.$NAME.with.log 2>&1
with_fail=$(grep -E "^test .* FAILED" /tmp/seed.$NAME.with.log | wc -l)
suite_ok=$(grep -E "^test result: ok" /tmp/seed.$NAME.with.log | wc -l)
# 2: demonstration with the change
cargo test --offline --no-fail-fast --test seeded_demo > /tmp/seed.$NAME.demo.log 2>&1
demo_fail=$(grep -E "^test .* FAILED" /tmp/seed.$NAME.demo.log | wc -l)
# 3: without the change
# (git stash is shared between worktrees of one repository: reverse-apply the diff instead)
git apply -R /tmp/seed.$NAME.diff
cargo test --offline --test seeded_demo > /tmp/seed.$NAME.without.log 2>&1
without_rc=$?
git apply /tmp/seed.$NAME.diff
echo "$NAME: existing tests failing with change: $with_fail; failing tests with change (demo): $demo_fail; ok result lines: $suite_ok; demo without change rc=$without_rc"
if [ "$with_fail" = 0 ] && [ "$demo_fail" -ge 1 ] && [ "$without_rc" = 0 ]; then
    D=/verif/seeded/$NAME
    mkdir -p $D
    cp /tmp/seed.$NAME.diff $D/patch.diff
    cp tests/seeded_demo.rs $D/seeded_demo.rs
    [ -f SEEDED.md ] && cp SEEDED.md $D/SEEDED.md
    python3 - "$D" "$PROP" "$NEEDS" "$with_fail" "$demo_fail" "$without_rc" <<'PY'
import json,sys
d,prop,needs,wf,df,wr=sys.argv[1:]
json.dump({"property":prop,"needs":needs,"origin":"independent sub-agent given only the property text and a scratch worktree","confirmed":{"existing_suite_failures_with_change":int(wf),"demo_failures_with_change":int(df),"demo_exit_without_change":int(wr),"how":"tools/verify_seed.sh in the scratch worktree: cargo test --offline --no-fail-fast with the change; cargo test --offline --test seeded_demo with the change stashed"}},open(d+"/meta.json","w"),indent=1)
PY
    echo "kept as $D"
else
    echo "NOT kept"; tail -5 /tmp/seed.$NAME.with.log; tail -5 /tmp/seed.$NAME.without.log
fi
