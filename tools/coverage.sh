#!/bin/sh
# usage: tools/coverage.sh [quick|thorough] [ID ...]
# Source-coverage of /repo/src under the check workloads (which lines of minimq the
# monitored executions actually reach).  Not a check: a guide for extending the
# workloads and a figure for DESIGN.md.  Builds an instrumented copy of the harness
# with the nightly toolchain (its llvm-tools match) in a scratch target directory
# under /tmp and removes it afterwards; writes tools/coverage/<tier>.txt (per-file
# summary) and tools/coverage/<tier>.uncovered.txt (uncovered lines with source).
set -eu
VERIF_DIR="$(cd "$(dirname "$0")/.." && pwd)"
TIER="${1:-quick}"
[ $# -gt 0 ] && shift
IDS="${*:-C01 C02 C03 C04 C05 C06 C07 C08 C09 C10 C11 C12 C13 C14 C15 C16 C17 C18 C19 C20}"
SYS="$(rustc +nightly --print sysroot)/lib/rustlib/x86_64-unknown-linux-gnu/bin"
T=/tmp/mqverif-cov
rm -rf "$T"; mkdir -p "$T/prof" "$T/verif"
cd "$VERIF_DIR/harness"
export CARGO_NET_OFFLINE=true
LLVM_PROFILE_FILE="$T/prof/build-%p.profraw" RUSTFLAGS="-Cinstrument-coverage" cargo +nightly build --offline --quiet --target-dir "$T/target"
BIN="$T/target/debug/mqverif"
# evidence and replays of these runs go to the scratch directory, not to /verif
mkdir -p "$T/verif/evidence" "$T/verif/replays"
cp "$VERIF_DIR/known_findings.json" "$T/verif/"
for id in $IDS; do
    VERIF_DIR="$T/verif" LLVM_PROFILE_FILE="$T/prof/$id-%p.profraw" "$BIN" check "$id" "$TIER" >"$T/$id.log" 2>&1 || echo "note: $id exited $?"
done
"$SYS/llvm-profdata" merge -sparse "$T"/prof/*.profraw -o "$T/all.profdata"
mkdir -p "$VERIF_DIR/tools/coverage"
"$SYS/llvm-cov" report "$BIN" -instr-profile="$T/all.profdata" $(find /repo/src -name '*.rs') \
    > "$VERIF_DIR/tools/coverage/$TIER.txt"
"$SYS/llvm-cov" show "$BIN" -instr-profile="$T/all.profdata" $(find /repo/src -name '*.rs') \
    -show-line-counts-or-regions -show-instantiations=false 2>/dev/null > "$T/show.txt"
python3 - "$T/show.txt" > "$VERIF_DIR/tools/coverage/$TIER.uncovered.txt" <<'PY'
import re, sys
cur = None
for line in open(sys.argv[1], errors="replace"):
    line = line.rstrip("\n")
    if line.startswith("/repo/src") and line.endswith(":"):
        cur = line[:-1]; continue
    m = re.match(r"\s*(\d+)\|\s*([0-9.kME]*)\|(.*)", line)
    if m and m.group(2) == "0":
        print(f"{cur}:{m.group(1)}: {m.group(3)}")
PY
tail -1 "$VERIF_DIR/tools/coverage/$TIER.txt"
rm -rf "$T"
