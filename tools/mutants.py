#!/usr/bin/env python3
"""Mechanical mutation sweep: a sensitivity measurement of the monitors.

usage: tools/mutants.py list                         # print the mutation sites (id, file:line, operator)
       tools/mutants.py run --sandbox DIR [--shard k/n] [--limit N] [--seed S] [--files REGEX] [--ids a,b,c]
       tools/mutants.py report                       # summarise tools/mutants/results.jsonl

For every mutant (one small syntactic change to /repo/src, outside test modules, log macros and
the verif hooks): apply it to a *copy* of /repo (DIR/repo), build the harness copy (DIR/verif)
against it, run the quick tier of the twenty checks one after the other and stop at the first
one that reports a VIOLATION; a mutant no check reports is then run against the repository's
own test suite.  Outcomes: `unbuildable`, `caught` (by which check and signature),
`survived-checks+killed-by-tests`, `survived-both` (to be triaged by hand: equivalent to the
original as far as the twenty properties go, or a blind spot).  Nothing is ever written to
/repo; results are appended to /verif/tools/mutants/results.jsonl.
"""
import glob, json, os, random, re, subprocess, sys, hashlib

VERIF = "/verif"
SRC_ROOT = "/repo/src"
SKIP_FILES = ("fuzzing.rs", "session/tests.rs", "session/verif.rs")
LOG_MACROS = ("trace!(", "debug!(", "info!(", "warn!(", "error!(", "debug_assert", "unreachable!(", "write!(")

OPS = [
    # (name, regex, replacement)
    ("lt->le", r"(?<![<=>\-])\s<\s(?![<=])", " <= "),
    ("le->lt", r"\s<=\s", " < "),
    ("gt->ge", r"(?<![<=>\-])\s>\s(?![>=])", " >= "),
    ("ge->gt", r"\s>=\s", " > "),
    ("eq->ne", r"\s==\s", " != "),
    ("ne->eq", r"\s!=\s", " == "),
    ("and->or", r"\s&&\s", " || "),
    ("or->and", r"\s\|\|\s", " && "),
    ("plus->minus", r"(?<![+\-=])\s\+\s(?![=])", " - "),
    ("minus->plus", r"(?<![+\-=])\s-\s(?![=>])", " + "),
    ("pluseq->minuseq", r"\s\+=\s", " -= "),
    ("minuseq->pluseq", r"\s-=\s", " += "),
    ("true->false", r"\btrue\b", "false"),
    ("false->true", r"\bfalse\b", "true"),
    ("not-removed", r"(?<![=!<>\w])!(?=[a-z(])", ""),
    ("oreq->andeq", r"\s\|=\s", " &= "),
    ("saturating_sub->wrapping_sub", r"\.saturating_sub\(", ".wrapping_sub("),
    ("saturating_add->wrapping_add", r"\.saturating_add\(", ".wrapping_add("),
    ("min->max", r"\.min\(", ".max("),
    ("max->min", r"\.max\(", ".min("),
    ("is_some->is_none", r"\.is_some\(\)", ".is_none()"),
    ("is_none->is_some", r"\.is_none\(\)", ".is_some()"),
    ("any->all", r"\.any\(", ".all("),
    ("all->any", r"\.all\(", ".any("),
    ("is_empty-negated", r"(?<![\w.!])([A-Za-z_][\w.]*(?:\(\))?)\.is_empty\(\)", r"!\1.is_empty()"),
    ("is_full-negated", r"(?<![\w.!])([A-Za-z_][\w.]*(?:\(\))?)\.is_full\(\)", r"!\1.is_full()"),
    ("Some->None-result", r"\bOk\(Some\(([^()]+)\)\)", "Ok(None)"),
]
# numeric literals: n -> n+1 and n -> n-1 (not in attribute / type positions)
NUM = re.compile(r"(?<![\w.\[#])(0x[0-9a-fA-F_]+|\d[\d_]*)(?![\w.\]])")


def eligible_lines(path):
    """yield (lineno, text) for lines that may be mutated"""
    lines = open(path).read().split("\n")
    in_macro = 0
    for i, l in enumerate(lines):
        s = l.strip()
        if s.startswith("#[cfg(test)]"):
            break
        if in_macro > 0:
            in_macro += l.count("(") - l.count(")")
            continue
        if s.startswith("//") or s.startswith("#[") or s.startswith("use ") or s.startswith("pub use "):
            continue
        if any(m in s for m in LOG_MACROS):
            depth = l.count("(") - l.count(")")
            if depth > 0:
                in_macro = depth
            continue
        # strip trailing comment
        code = l.split(" // ")[0]
        if '"' in code and ("expect(" in code or "panic!" in code):
            continue
        yield i, code, l


def sites():
    out = []
    files = sorted(glob.glob(f"{SRC_ROOT}/**/*.rs", recursive=True))
    for f in files:
        rel = os.path.relpath(f, SRC_ROOT)
        if any(rel.endswith(x) for x in SKIP_FILES):
            continue
        for i, code, full in eligible_lines(f):
            if "const " in code and "fn " not in code and "=" in code:
                const_line = True
            else:
                const_line = False
            for name, rx, rep in OPS:
                for m in re.finditer(rx, code):
                    # skip generics / lifetimes / arrows mistaken for comparisons
                    if name in ("lt->le", "gt->ge") and re.search(r"(fn |impl|struct |enum |type |where |: &|->|<'|::<|Vec<|Option<|Result<)", code):
                        continue
                    new = code[: m.start()] + m.expand(rep) + code[m.end():]
                    out.append((rel, i, name, new + full[len(code):]))
            if re.search(r"(fn |struct |enum |impl|type |\[u8; )", code) and not const_line:
                continue
            for m in NUM.finditer(code):
                tok = m.group(1)
                try:
                    v = int(tok.replace("_", ""), 0)
                except ValueError:
                    continue
                for d, nm in ((1, "num+1"), (-1, "num-1")):
                    if v + d < 0:
                        continue
                    nv = hex(v + d) if tok.startswith("0x") else str(v + d)
                    new = code[: m.start(1)] + nv + code[m.end(1):]
                    out.append((rel, i, nm, new + full[len(code):]))
    # statement deletion: a line that is one complete statement (call or assignment)
    for f in files:
        rel = os.path.relpath(f, SRC_ROOT)
        if any(rel.endswith(x) for x in SKIP_FILES):
            continue
        for i, code, full in eligible_lines(f):
            s = code.strip()
            if not s.endswith(";") or s.count("(") != s.count(")") or s.count("{") != s.count("}"):
                continue
            if s.startswith(("let ", "return", "pub ", "const ", "type ", "use ", "break", "continue", "}")):
                continue
            if re.match(r"^(self\.|\*?[a-z_][\w.]*(\[[^\]]*\])?\s*(=|\+=|-=|\|=)\s|[a-z_][\w.:]*\()", s) and not s.endswith("?;"):
                out.append((rel, i, "stmt-deleted", re.match(r"\s*", full).group(0) + "();  // deleted: " + s[:60]))
            elif s.endswith("?;") and re.match(r"^(self\.|[a-z_][\w.:]*\()", s):
                out.append((rel, i, "fallible-stmt-deleted", re.match(r"\s*", full).group(0) + "();  // deleted: " + s[:60]))
    res = []
    seen = set()
    for rel, i, name, new in out:
        mid = hashlib.sha1(f"{rel}:{i}:{name}:{new}".encode()).hexdigest()[:10]
        if mid in seen:
            continue
        seen.add(mid)
        res.append({"id": mid, "file": rel, "line": i + 1, "op": name, "new": new})
    return res


def sh(cmd, timeout=3600, **kw):
    try:
        return subprocess.run(cmd, shell=True, capture_output=True, text=True, timeout=timeout, **kw)
    except subprocess.TimeoutExpired as e:
        class R:  # noqa
            returncode = 124
            stdout = (e.stdout or b"").decode(errors="replace") if isinstance(e.stdout, bytes) else (e.stdout or "")
            stderr = "timeout"
        return R()


def sandbox(d):
    os.makedirs(d, exist_ok=True)
    sh(f"rsync -a --delete --exclude target /repo/ {d}/repo/")
    sh(f"git -C {d}/repo checkout -- . ")
    sh(f"rsync -a --delete --exclude target --exclude replays --exclude evidence --exclude seeded --exclude .git --exclude tools/mutants /verif/ {d}/verif/")
    sh(f"mkdir -p {d}/verif/evidence {d}/verif/replays")
    sh(f"sed -i 's#path = \"/repo\"#path = \"{d}/repo\"#' {d}/verif/harness/Cargo.toml")


ORDER = ["C09", "C01", "C13", "C16", "C04", "C02", "C03", "C05", "C12", "C17", "C08", "C15", "C14", "C06", "C07", "C10", "C11", "C18", "C19", "C20"]


def run_one(d, m):
    repo = f"{d}/repo"
    path = f"{repo}/src/{m['file']}"
    orig = open(path).read()
    lines = orig.split("\n")
    old = lines[m["line"] - 1]
    lines[m["line"] - 1] = m["new"]
    open(path, "w").write("\n".join(lines))
    res = {"id": m["id"], "file": m["file"], "line": m["line"], "op": m["op"], "old": old.strip(), "new": m["new"].strip()}
    try:
        b = sh(f"cd {d}/verif/harness && CARGO_NET_OFFLINE=true cargo build --offline --quiet 2>&1 | tail -5", timeout=900)
        if "error" in b.stdout:
            res["outcome"] = "unbuildable"
            return res
        caught = None
        inconcl = []
        for c in ORDER:
            p = sh(f"cd {d}/verif && VERIF_SEED=1 ./check {c} quick", timeout=1800)
            if p.returncode == 1:
                sig = re.findall(r"signature=(\S+)", p.stdout)
                caught = (c, sig[0] if sig else "?")
                break
            if p.returncode != 0:
                inconcl.append((c, p.returncode, (p.stdout.strip().splitlines() or ["?"])[-1][:160]))
        if caught:
            res["outcome"] = "caught"
            res["by"], res["signature"] = caught
            return res
        res["inconclusive"] = inconcl
        t = sh(f"cd {repo} && CARGO_NET_OFFLINE=true cargo test --workspace --no-fail-fast --offline > test.log.tmp 2>&1; echo rc=$?; grep -E '^test result|^test .* FAILED|^error' test.log.tmp | head -8; rm -f test.log.tmp", timeout=1800)
        failed = "rc=0" not in t.stdout
        res["outcome"] = "survived-checks+killed-by-tests" if failed else ("inconclusive-only" if inconcl else "survived-both")
        res["tests"] = t.stdout.strip().splitlines()[:4]
        return res
    finally:
        open(path, "w").write(orig)


def main():
    if len(sys.argv) < 2:
        print(__doc__)
        return
    cmd = sys.argv[1]
    if cmd == "list":
        for m in sites():
            print(m["id"], f"{m['file']}:{m['line']}", m["op"], "|", m["new"].strip()[:100])
        return
    if cmd == "report":
        rows = [json.loads(l) for l in open(f"{VERIF}/tools/mutants/results.jsonl")]
        by = {}
        for r in rows:
            by.setdefault(r["outcome"], []).append(r)
        for k, v in sorted(by.items()):
            print(k, len(v))
        for r in by.get("survived-both", []) + by.get("inconclusive-only", []):
            print(f"  {r['id']} {r['file']}:{r['line']} {r['op']}: `{r['old'][:70]}` -> `{r['new'][:70]}`")
        return
    if cmd == "run":
        a = sys.argv
        d = a[a.index("--sandbox") + 1]
        k, n = (0, 1)
        if "--shard" in a:
            k, n = [int(x) for x in a[a.index("--shard") + 1].split("/")]
        limit = int(a[a.index("--limit") + 1]) if "--limit" in a else 10 ** 9
        seed = int(a[a.index("--seed") + 1]) if "--seed" in a else 1
        frx = a[a.index("--files") + 1] if "--files" in a else None
        ids = a[a.index("--ids") + 1].split(",") if "--ids" in a else None
        ms = sites()
        if frx:
            ms = [m for m in ms if re.search(frx, m["file"])]
        if ids:
            ms = [m for m in ms if m["id"] in ids]
        random.Random(seed).shuffle(ms)
        ms = ms[:limit]
        ms = [m for i, m in enumerate(ms) if i % n == k]
        os.makedirs(f"{VERIF}/tools/mutants", exist_ok=True)
        done = set()
        if os.path.exists(f"{VERIF}/tools/mutants/results.jsonl"):
            done = {json.loads(l)["id"] for l in open(f"{VERIF}/tools/mutants/results.jsonl")}
        sandbox(d)
        for m in ms:
            if m["id"] in done:
                continue
            r = run_one(d, m)
            with open(f"{VERIF}/tools/mutants/results.jsonl", "a") as f:
                f.write(json.dumps(r) + "\n")
            print(r["outcome"], r.get("by", ""), f"{r['file']}:{r['line']}", r["op"], flush=True)


if __name__ == "__main__":
    main()
