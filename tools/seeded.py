#!/usr/bin/env python3
"""Run checks against the seeded changes kept under /verif/seeded/<name>/.

usage: tools/seeded.py [name ...] [--all-checks] [--tier quick|thorough] [--seeds 1,2,3]
(with --seeds other than 1 the outcome is stored under "<tier>-seeds" with the list of seeds at which the own check fired)

For every seeded change: verify /repo is clean, `git -C /repo apply patch.diff`, run the check
of the property it breaks (or all checks with --all-checks), record exit codes and the
VIOLATION signatures, and undo with `git -C /repo checkout -- .` straight afterwards.
Results go to /verif/seeded/<name>/result.json and the table /verif/seeded/README.md.
"""
import json, os, subprocess, sys, re, glob

VERIF = "/verif"
# --sandbox <dir>: work on copies (<dir>/repo, <dir>/verif) so that /repo and /verif stay usable meanwhile
REPO = "/repo"
RUN = "/verif"
ALL = ["C%02d" % i for i in range(1, 21)]


def sh(cmd, **kw):
    return subprocess.run(cmd, shell=True, capture_output=True, text=True, **kw)


def clean():
    return sh(f"git -C {REPO} status --porcelain -- src Cargo.toml tests").stdout.strip() == ""


def run_checks(checks, tier, seeds):
    res = {}
    for c in checks:
        for s in seeds:
            p = sh(f"cd {RUN} && VERIF_SEED={s} ./check {c} {tier}", timeout=7200)
            sigs = re.findall(r"signature=(\S+)", p.stdout)
            res.setdefault(c, []).append({"seed": s, "exit": p.returncode, "signatures": sigs[:6], "inconclusive": [l for l in p.stdout.splitlines() if l.startswith("INCONCLUSIVE")][:2]})
    return res


def sandbox(d, pre=None):
    global REPO, RUN
    os.makedirs(d, exist_ok=True)
    sh(f"rsync -a --delete --exclude target /repo/ {d}/repo/")
    sh(f"git -C {d}/repo checkout -- . ")
    sh(f"rsync -a --delete --exclude target --exclude replays --exclude evidence --exclude seeded --exclude .git /verif/ {d}/verif/")
    sh(f"mkdir -p {d}/verif/evidence {d}/verif/replays")
    sh(f"sed -i 's#path = \"/repo\"#path = \"{d}/repo\"#' {d}/verif/harness/Cargo.toml")
    REPO, RUN = f"{d}/repo", f"{d}/verif"
    if pre:
        # a repair that is not in /repo yet: committed in the copy so that `checkout -- .` keeps it
        print(sh(f"git -C {REPO} apply {pre} && git -C {REPO} -c user.name=x -c user.email=x@x commit -qam pre-patch && echo pre-patch applied").stdout.strip())


def main():
    if "--sandbox" in sys.argv:
        i = sys.argv.index("--sandbox")
        pre = None
        if "--pre-patch" in sys.argv:
            j = sys.argv.index("--pre-patch")
            pre = sys.argv[j + 1]
            del sys.argv[j:j + 2]
            i = sys.argv.index("--sandbox")
        sandbox(sys.argv[i + 1], pre)
        del sys.argv[i:i + 2]
    args = [a for a in sys.argv[1:] if not a.startswith("--")]
    all_checks = "--all-checks" in sys.argv
    tier = "quick"
    seeds = [1]
    for i, a in enumerate(sys.argv):
        if a == "--tier":
            tier = sys.argv[i + 1]
        if a == "--seeds":
            seeds = [int(x) for x in sys.argv[i + 1].split(",")]
    args = [a for a in args if a not in (tier,) and not re.fullmatch(r"[0-9,]+", a)]
    names = args or sorted(os.path.basename(os.path.dirname(p)) for p in glob.glob(f"{VERIF}/seeded/*/patch.diff"))
    for name in names:
        d = f"{VERIF}/seeded/{name}"
        meta = json.load(open(f"{d}/meta.json"))
        if not clean():
            print("refusing: /repo has local changes")
            sys.exit(2)
        a = sh(f"git -C {REPO} apply {d}/patch.diff")
        if a.returncode != 0:
            print(name, "patch does not apply:", a.stderr[:300])
            continue
        try:
            checks = ALL if all_checks else [meta["property"]] + [c for c in meta.get("also_run", [])]
            res = run_checks(checks, tier, seeds)
        finally:
            sh(f"git -C {REPO} checkout -- .")
        caught = {c: any(r["exit"] == 1 for r in rs) for c, rs in res.items()}
        out = {"name": name, "property": meta["property"], "tier": tier, "seeds": seeds, "results": res, "caught_by": sorted(c for c, v in caught.items() if v)}
        prev = {}
        if os.path.exists(f"{d}/result.json"):
            prev = json.load(open(f"{d}/result.json"))
        if len(seeds) > 1 or seeds != [1]:
            # robustness over seeds: at which seeds did the own check fire?
            out["caught_at_seeds"] = [r["seed"] for r in res.get(meta["property"], []) if r["exit"] == 1]
            prev[tier + "-seeds"] = out
        else:
            prev[tier + ("-all" if all_checks else "")] = out
        json.dump(prev, open(f"{d}/result.json", "w"), indent=1)
        print(name, meta["property"], "caught by", out["caught_by"] or "NOTHING")
    # restore evidence of the unchanged tree for the checks we disturbed is the caller's job
    write_readme()


def write_readme():
    rows = []
    for p in sorted(glob.glob(f"{VERIF}/seeded/*/meta.json")):
        d = os.path.dirname(p)
        meta = json.load(open(p))
        res = json.load(open(f"{d}/result.json")) if os.path.exists(f"{d}/result.json") else {}
        own = res.get("quick", {})
        allq = res.get("quick-all", {})
        seeds = res.get("quick-seeds", {})
        own_caught = meta["property"] in own.get("caught_by", []) or meta["property"] in allq.get("caught_by", []) or meta["property"] in seeds.get("caught_by", [])
        sig = ""
        for r in (seeds.get("results", {}).get(meta["property"], []) + own.get("results", {}).get(meta["property"], []) + allq.get("results", {}).get(meta["property"], [])):
            if r["signatures"]:
                sig = r["signatures"][0]
                break
        others = sorted(set(allq.get("caught_by", [])) - {meta["property"]})
        thor = res.get("thorough", {})
        n_seeds = len(seeds.get("caught_at_seeds", []))
        rows.append((os.path.basename(d), meta["property"], meta.get("needs", ""), (f"yes ({n_seeds} of {len(seeds.get('seeds', []))} seeds)" if seeds else "yes") if own_caught else ("thorough only" if meta["property"] in thor.get("caught_by", []) else "NO"), sig, ", ".join(others)))
    with open(f"{VERIF}/seeded/README.md", "w") as f:
        f.write("# Seeded changes (never committed to /repo)\n\nEach directory holds `patch.diff` (the change to quartiq/minimq), the demonstration written by the independent sub-agent, `meta.json` and `result.json` (written by `tools/seeded.py`).\n\n")
        f.write("| change | breaks | needs to manifest | caught by its own check (quick) | first signature | also caught by |\n|---|---|---|---|---|---|\n")
        for r in rows:
            f.write("| " + " | ".join(str(x).replace("|", "/") for x in r) + " |\n")


if __name__ == "__main__":
    main()
