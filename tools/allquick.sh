#!/bin/sh
# usage: tools/allquick.sh [tier]   (VERIF_SEED honoured) - runs every check once, prints one line per check
cd "$(dirname "$0")/.."
TIER="${1:-quick}"
rc=0
for i in 01 02 03 04 05 06 07 08 09 10 11 12 13 14 15 16 17 18 19 20; do
    out=$(./check C$i $TIER 2>&1); code=$?
    echo "C$i exit=$code $(echo "$out" | grep -c '^KNOWN-FINDING') known; $(echo "$out" | grep "^C$i $TIER:" | head -1)"
    if [ $code != 0 ]; then rc=1; echo "$out" | grep -v '^KNOWN' | head -20; fi
done
exit $rc
