#!/usr/bin/env python3
"""Regenerate /verif/MANIFEST.json from the table below (kept in one place so it stays valid)."""
import json, subprocess

PROPS = [json.loads(l)["id"] for l in open("/verif/properties.jsonl")]

# id -> (level, technique, level text, level note, design ref)
CHECKS = {
 "C01": ("exploration", "online trace monitor: independent strict MQTT 5 decoder over every byte written to the simulated transport, under seeded fault/partial-write/cancellation schedules",
         "Every connection's outbound stream from thousands of generated hostile executions of the real client is decoded by an independent strict decoder; a violation is a concrete replayable execution. Held = held on the executions observed.",
         "Trusted: the harness (SimIo, virtual time, executor), refcodec decoder, the reference broker. QoS 0 cancellation and Ok(0) writes are out of scope as documented.", "DESIGN.md 3/C01"),
}

def main():
    hook_commits = subprocess.run(["git","-C","/repo","log","--format=%h %s"],capture_output=True,text=True).stdout.splitlines()
    hooks = [l.split()[0] for l in hook_commits if "verif" in l.lower() and not l.split(" ",1)[1].startswith("fix:")]
    m = {
     "version": 1,
     "setup_cmd": "cd /verif/harness && CARGO_NET_OFFLINE=true cargo build --offline",
     "hooks": {
       "guard": "cargo feature `verif` of minimq (off by default)",
       "enable": "the harness crate /verif/harness depends on minimq = { path = \"/repo\", default-features = false, features = [\"verif\"] }; every check runs `cargo build --offline` first, so it always uses /repo's working tree",
       "baseline_off_cmd": "cd /repo && cargo test --workspace --no-fail-fast --offline",
       "source_commits": hooks,
       "add_only": True,
     },
     "engines": [{"name":"mqverif","path":"/verif/harness","serves_properties":sorted(CHECKS),"kind_free_text":"deterministic simulation harness around the real minimq crate: simulated transport with fault/partial-I/O/cancellation schedules, thread-local virtual time, reference broker, independent MQTT 5 codec, per-property runtime monitors over the recorded event log"}],
     "checks": [],
     "not_applicable": [],
     "notes": "Technique family: runtime monitoring. Exit codes: 0 held on everything observed (KNOWN-FINDING lines may be printed), 1 VIOLATION, 2 inconclusive (too few relevant events, harness error, watchdog). See DESIGN.md.",
    }
    for pid in PROPS:
        if pid in CHECKS:
            level, tech, text, note, ref = CHECKS[pid]
            m["checks"].append({
              "property_id": pid,
              "quick_cmd": f"./check {pid} quick",
              "thorough_cmd": f"./check {pid} thorough",
              "evidence_file": f"/verif/evidence/{pid}.json",
              "replay_cmd_template": "./check replay {path}",
              "engine": "mqverif",
              "level_claimed": {"category": level, "text": text, "design_ref": ref},
              "level_note": note,
              "technique": tech,
            })
        else:
            m["not_applicable"].append({"property_id": pid, "reason": "check under construction in this session (runtime-monitoring harness exists; monitor not registered yet)"})
    json.dump(m, open("/verif/MANIFEST.json","w"), indent=1)
    print("checks:", len(m["checks"]), "not_applicable:", len(m["not_applicable"]))

main()
