#!/usr/bin/env python3
"""Regenerate /verif/MANIFEST.json from the table below (kept in one place so it stays valid)."""
import json, subprocess

PROPS = [json.loads(l)["id"] for l in open("/verif/properties.jsonl")]

# id -> (level, technique, level text, level note, design ref)
TRUST = "Trusted: the harness (SimIo, virtual time, executor), the independent refcodec decoder, the reference broker, the verif snapshot hook for acceptance of cancelled requests. Held means held on the executions observed; nothing is proved."
def ck(level, tech, text, ref):
    return (level, tech, text, TRUST, ref)
CHECKS = {
 "C01": ck("exploration", "online trace monitor: independent strict MQTT 5 decoder over every byte written to the simulated transport; cancellation injected at every await index of every operation of base programs (cancel-X-after-n-bytes-then-Y matrix) plus seeded fault/partial-write schedules",
         "Every connection's outbound stream from thousands of generated hostile executions of the real client is decoded by an independent strict decoder; a violation is a concrete replayable execution.", "DESIGN.md 3/C01"),
 "C02": ck("fault_enumeration", "offline history monitor (per accepted message: transmissions, acks consumed); connection killed at every I/O call index of base programs (crash-point sweep) plus random histories, resumed reconnects, benign continuation",
         "Per accepted QoS 1 message the recorded history is checked for: one transmission per connection, byte identity except DUP, order, no send after PUBACK, replay on every drained resumed connection, completion after a benign continuation. Connection loss is injected by seeded faults at random I/O indices, broker close/DISCONNECT, handle drop/forget.", "DESIGN.md 3/C02"),
 "C03": ck("fault_enumeration", "offline history monitor of the four-step QoS 2 exchange; connection killed at every I/O call index of QoS 2-heavy base programs (between any two of the four steps) plus random histories",
         "QoS 2-heavy histories with PUBREC/PUBCOMP in arbitrary order and failure codes; PUBREL only after successful PUBREC, never PUBLISH after PUBREC, PUBREL replay order = PUBREC arrival order, exactly one replay per resumed drained connection.", "DESIGN.md 3/C03"),
 "C04": ck("exploration", "reference receiver model (expected deliveries and acknowledgement sequence) compared with observed deliveries and decoded acks",
         "The reference broker originates publishes of all QoS / identifier / property / size shapes plus retransmissions and PUBRELs; a small deterministic receiver model predicts what must be delivered and which acks must appear in which order.", "DESIGN.md 3/C04"),
 "C05": ck("exploration", "trace monitor over sequences of connections with arbitrary session-present answers and failed handshakes; cancellation at every await index (connect included) and faults at every I/O index of base programs",
         "CONNECT flags / client id, connect event, handle invalidation, absence of stale transmissions, complete in-order replay are judged on every connection of every generated history.", "DESIGN.md 3/C05"),
 "C06": ck("exploration", "conservation monitor (window occupancy in the broker's view) evaluated at every PUBLISH completion",
         "unresolved = PUBLISHes completed on the wire + exchanges entering the connection in release phase - acks the broker has sent; must never exceed the CONNACK's Receive Maximum; refusals must leave no trace; no exchange dropped.", "DESIGN.md 3/C06"),
 "C07": ck("exploration", "invariant monitor: reference in-use identifier set vs. identifier of every accepted request, on histories crossing the 16-bit wrap",
         "Wrap histories are produced both with the verif setter and by really burning 65535 identifiers.", "DESIGN.md 3/C07"),
 "C09": ck("exploration", "request/wire differential: structural comparison of each request with the independent decoding of the bytes it produced",
         "Boundary scripts (remaining-length boundaries up to 2 MiB, 65535/65536-byte fields, all option combinations, too-small arenas) plus random programs.", "DESIGN.md 3/C09"),
 "C11": ck("fault_enumeration", "fault injection at every I/O call index + latch monitor (results and transport call counters after the first fatal result)",
         "Every base program is re-executed once per I/O call index with a fault there; after the first latching result all later operations must fail fast and the transport call counter must not move.", "DESIGN.md 3/C11"),
 "C12": ck("fault_enumeration", "fault and cancellation injection at every await index of prior histories, followed by a reconnect + round-trip probe against the reference broker",
         "connect() after any prefix must succeed, start with a whole CONNECT, carry nothing over and leave the session usable.", "DESIGN.md 3/C12"),
 "C13": ck("fault_enumeration", "differential twin runs: uncancelled reference vs. future dropped at every await index, outputs compared",
         "For every await index the reference execution of the final request passed through, a variant drops the future there (optionally after earlier cancelled attempts) and continues; decoded packets and deliveries must equal the reference.", "DESIGN.md 3/C13"),
 "C14": ck("exploration", "trace monitor of packet sizes against the negotiated limits, requests sized within +-3 bytes of the limit",
         "Every packet after CONNACK is measured against the broker's Maximum Packet Size; refusals must leave no trace; oversize inbound packets must be rejected.", "DESIGN.md 3/C14"),
 "C15": ck("exploration", "differential twin runs: whole-buffer reference vs. re-fragmented transport (all 2^(n-1) chunkings for short streams)",
         "Same recorded program under different read/write fragmentation must give identical results, deliveries and outbound bytes.", "DESIGN.md 3/C15"),
 "C16": ck("fault_enumeration", "bounded-progress monitor over a benign continuation appended to every explored end state; per-call I/O watchdog",
         "Liveness restated as: idle, quiescent and complete within N polls under a responsive broker; the unbounded 'eventually' is not decided.", "DESIGN.md 3/C16"),
 "C08": ck("exploration", "three-valued reference classifier (MustAccept/MustReject/DontCare) over exhaustive short byte strings, all fixed-header forms and mutated valid packets fed to the real client; panics caught; Miri shard in the thorough tier",
         "All byte strings up to 2 (quick) / 3 (thorough) bytes in both contexts exhaustively, every first byte x 9 remaining-length encodings, valid packets of all ten server types with random property sets and 13 mutation operators, random read chunkings; 16 Miri shards re-run a slice of the generative workload for UB inside dependencies.", "DESIGN.md 3/C08"),
 "C10": ck("exploration", "virtual-time trace monitor (thread-local embassy-time driver): packet completion instants, PINGREQ/PINGRESP instants and wait results against the effective keep-alive",
         "Keep-alive x Server Keep Alive grid with events placed at deadline-1/0/+1 tick; exact-instant oracles for timeout, gap and cadence.", "DESIGN.md 3/C10"),
 "C17": ck("exploration", "arena snapshot invariants after every step + byte comparison of every retransmission + probe-battery twin (aged vs brand-new session); Miri shard in the thorough tier",
         "Integrity: arena copy of each retained entry equals its first transmission after every step; leak: deterministic probe battery gives identical transcripts on an aged, drained session and on a new one.", "DESIGN.md 3/C17"),
 "C19": ck("exploration", "exhaustive cell enumeration (27 property kinds x 5 contexts x value variants x 3 session states, QoS cap grid) against a reference table written from the MQTT 5 text",
         "Every cell is executed on the real client; Reject cells are checked for the documented error and for no trace, Accept cells for success and presence on the wire.", "DESIGN.md 3/C19 + appendix A"),
 "C20": ck("exploration", "request/reply differential: reply()/reply_owned() publication decoded by the independent codec and compared with the inbound request's response target",
         "Response topics / correlation data of 0..65535 bytes at random positions, owned capacities around the actual sizes from a fixed const-generic menu.", "DESIGN.md 3/C20"),
 "C18": ck("exploration", "reference model of handle status compared with is_pending/is_complete/is_invalidated after every step",
         "Status of every handle is queried after every step of every history and compared with a model driven by consumed acks and fresh-session CONNACKs.", "DESIGN.md 3/C18"),
}

def main():
    hook_commits = subprocess.run(["git","-C","/repo","log","--format=%h %s"],capture_output=True,text=True).stdout.splitlines()
    hooks = [l.split()[0] for l in hook_commits if "verif" in l.lower() and not l.split(" ",1)[1].startswith("fix:")]
    m = {
     "version": 1,
     "setup_cmd": "cd /verif/harness && CARGO_NET_OFFLINE=true cargo build --offline",
     "hooks": {
       "guard": "cargo feature `verif` of minimq (off by default)",
       "enable": "the harness crate /verif/harness depends on minimq = { path = \"/repo\", default-features = false, features = [\"verif\"] }; every check runs `cargo build --offline` first, so it always uses /repo's working tree",
       "baseline_off_cmd": "cd /repo && cargo test --workspace --no-fail-fast --offline",
       "source_commits": hooks,
       "add_only": True,
     },
     "engines": [{"name":"mqverif","path":"/verif/harness","serves_properties":sorted(CHECKS),"kind_free_text":"deterministic simulation harness around the real minimq crate: simulated transport with fault/partial-I/O/cancellation schedules, thread-local virtual time, reference broker, independent MQTT 5 codec, per-property runtime monitors over the recorded event log"}],
     "checks": [],
     "not_applicable": [],
     "notes": "Technique family: runtime monitoring. Exit codes: 0 held on everything observed (KNOWN-FINDING lines may be printed), 1 VIOLATION, 2 inconclusive (too few relevant events, harness error, watchdog). See DESIGN.md.",
    }
    for pid in PROPS:
        if pid in CHECKS:
            level, tech, text, note, ref = CHECKS[pid]
            m["checks"].append({
              "property_id": pid,
              "quick_cmd": f"./check {pid} quick",
              "thorough_cmd": f"./check {pid} thorough",
              "evidence_file": f"/verif/evidence/{pid}.json",
              "replay_cmd_template": "./check replay {path}",
              "engine": "mqverif",
              "level_claimed": {"category": level, "text": text, "design_ref": ref},
              "level_note": note,
              "technique": tech,
            })
        else:
            m["not_applicable"].append({"property_id": pid, "reason": "check under construction in this session (runtime-monitoring harness exists; monitor not registered yet)"})
    json.dump(m, open("/verif/MANIFEST.json","w"), indent=1)
    print("checks:", len(m["checks"]), "not_applicable:", len(m["not_applicable"]))

main()
